"""Finite-shape evaluation of small functions over regular-expression trees.

The functions that rewrite or inspect regular expressions (the parse-tree visitors, the simplifier, helper predicates)
take their decisions by the CLASS of a node and of the nodes one level below it.  Such a function is decided exactly by
evaluating its body -- with the analyser's own evaluator, statement forms listed below, nothing of the repository is
imported or run -- on every tree of a bounded depth over the leaves 0, 1 and a letter: the letters behave as free
variables of the Kleene-algebra identity that is then checked.  Anything outside the statement / expression forms below
raises Unsupported (the caller answers UNDECIDED)."""
import ast

from . import ka
from .abseval import Unsupported
from .astutil import u

ARITY = {'Zero': 0, 'One': 0, 'Symbol': 0, 'Iteration': 1, 'Concat': 2, 'Sum': 2, 'Parens': 1}

LEAVES = [('Zero',), ('One',), ('Symbol', 'a')]


def shapes(depth=2):
    """the trees of depth <= `depth` over the leaves 0, 1, a symbol.  Depth 2 separates every structural predicate that
    looks one level below a node (nullability, emptiness, 'is a star' ...); depth 3 gives every combination of a node
    with children that were themselves rewritten"""
    level = list(LEAVES)
    out = list(level)
    for _ in range(depth - 1):
        nxt = [('Iteration', x) for x in out]
        nxt += [(k, x, y) for k in ('Sum', 'Concat') for x in out for y in out]
        seen = set(out)
        out = out + [t for t in nxt if t not in seen]
    return out


def size(sh):
    return 1 + sum(size(x) for x in sh[1:] if isinstance(x, tuple))


def rename(sh, prefix):
    """distinct letters per child, so that the letters behave as free variables of the identity"""
    if sh[0] == 'Symbol':
        return ('Symbol', prefix + sh[1])
    if sh[0] in ('Zero', 'One'):
        return sh
    return (sh[0],) + tuple(rename(x, prefix + str(i)) for i, x in enumerate(sh[1:]))


def ka_of(sh):
    if sh[0] == 'Zero':
        return ka.ZERO
    if sh[0] == 'One':
        return ka.ONE
    if sh[0] == 'Symbol':
        return ka.sym(sh[1])
    if sh[0] == 'Iteration':
        return ('*', ka_of(sh[1]))
    if sh[0] == 'Sum':
        return ('+', ka_of(sh[1]), ka_of(sh[2]))
    if sh[0] == 'Concat':
        return ('.', ka_of(sh[1]), ka_of(sh[2]))
    raise Unsupported('shape ' + str(sh[0]))


FIELDS = {'Iteration': {'operand': 1}, 'Sum': {'left': 1, 'right': 2}, 'Concat': {'left': 1, 'right': 2}, 'Symbol': {'symbol': 1}}


class ShapeEval:
    """runs a visit method (and the helpers / module-level predicates it calls) on concrete child shapes"""

    def __init__(self, ctx, cls, children):
        self.ctx = ctx
        self.cls = cls
        self.children = children
        self.depth = 0

    def call(self, f, args, is_method):
        self.depth += 1
        if self.depth > 40:
            raise Unsupported('recursion too deep')
        params = [p for p in f.params if not (is_method and p == 'self')]
        if len(params) != len(args):
            raise Unsupported('arity of ' + f.name)
        env = dict(zip(params, args))
        r = self.run(f, f.node.body, env)
        self.depth -= 1
        if r is None:
            raise Unsupported(f.name + ' returns nothing')
        return r[0]

    def run(self, f, stmts, env):
        for st in stmts:
            if isinstance(st, ast.Expr) and isinstance(st.value, ast.Constant):
                continue
            if isinstance(st, (ast.Assign, ast.AnnAssign)):
                tg = st.targets[0] if isinstance(st, ast.Assign) else st.target
                if (isinstance(st, ast.Assign) and len(st.targets) != 1) or st.value is None:
                    raise Unsupported('assignment ' + u(st))
                self.bind(tg, self.ev(f, st.value, env), env)
                continue
            if isinstance(st, ast.If):
                r = self.run(f, st.body if self.truth(self.ev(f, st.test, env)) else st.orelse, env)
                if r is not None:
                    return r
                continue
            if isinstance(st, ast.Return):
                return (self.ev(f, st.value, env),)
            if isinstance(st, ast.Pass):
                continue
            if isinstance(st, ast.Raise):
                return (('raise',),)
            if isinstance(st, ast.FunctionDef):
                env[st.name] = ('closure', st, env, f)
                continue
            if isinstance(st, (ast.Import, ast.ImportFrom)):
                continue
            if isinstance(st, ast.For) and not st.orelse:
                seq = self.ev(f, st.iter, env)
                if not isinstance(seq, (tuple, list)) or (seq and isinstance(seq[0], str) and seq[0] in ARITY):
                    raise Unsupported('loop over ' + u(st.iter))
                for item in seq:
                    self.bind(st.target, item, env)
                    r = self.run(f, st.body, env)
                    if r is not None:
                        return r
                continue
            raise Unsupported('statement {} in {}'.format(type(st).__name__, f.name))
        return None

    def bind(self, target, value, env):
        if isinstance(target, ast.Name):
            env[target.id] = value
        elif isinstance(target, (ast.Tuple, ast.List)) and isinstance(value, (tuple, list)) and len(value) == len(target.elts) \
                and not (value and isinstance(value[0], str) and value[0] in ARITY):
            for t, v in zip(target.elts, value):
                self.bind(t, v, env)
        else:
            raise Unsupported('binding of ' + u(target))

    @staticmethod
    def truth(v):
        if isinstance(v, tuple) and v and isinstance(v[0], str) and v[0] in ARITY:
            return True         # a regular-expression object is truthy
        return bool(v)

    def ev(self, f, e, env):
        if isinstance(e, ast.Constant):
            return e.value
        if isinstance(e, ast.Name):
            if e.id in env:
                return env[e.id]
            if e.id in ARITY:
                return ('class', e.id)
            raise Unsupported('name ' + e.id)
        if isinstance(e, ast.Tuple):
            return tuple(self.ev(f, x, env) for x in e.elts)
        if isinstance(e, ast.UnaryOp) and isinstance(e.op, ast.Not):
            return not self.truth(self.ev(f, e.operand, env))
        if isinstance(e, ast.BoolOp):
            r = None
            for v in e.values:
                r = self.ev(f, v, env)
                if isinstance(e.op, ast.And) and not self.truth(r):
                    return r
                if isinstance(e.op, ast.Or) and self.truth(r):
                    return r
            return r
        if isinstance(e, ast.IfExp):
            return self.ev(f, e.body if self.truth(self.ev(f, e.test, env)) else e.orelse, env)
        if isinstance(e, ast.Compare) and len(e.ops) == 1 and isinstance(e.ops[0], (ast.Eq, ast.NotEq, ast.Is, ast.IsNot)):
            a, b = self.ev(f, e.left, env), self.ev(f, e.comparators[0], env)
            return (a == b) if isinstance(e.ops[0], (ast.Eq, ast.Is)) else (a != b)
        if isinstance(e, ast.Attribute):
            base = self.ev(f, e.value, env)
            if isinstance(base, tuple) and base and base[0] in FIELDS and e.attr in FIELDS[base[0]]:
                return base[FIELDS[base[0]][e.attr]]
            raise Unsupported('attribute ' + u(e))
        if isinstance(e, ast.Call):
            # self.visit(ctx.expression(i))
            if isinstance(e.func, ast.Attribute) and e.func.attr == 'visit' and u(e.func.value) == 'self' and len(e.args) == 1:
                a = e.args[0]
                if isinstance(a, ast.Call) and isinstance(a.func, ast.Attribute) and a.func.attr == 'expression':
                    i = 0
                    if a.args:
                        if not (isinstance(a.args[0], ast.Constant) and isinstance(a.args[0].value, int)):
                            raise Unsupported('child index ' + u(a))
                        i = a.args[0].value
                    if i not in self.children:
                        raise Unsupported('child {}'.format(i))
                    return self.children[i]
                raise Unsupported('visit of ' + u(a))
            if isinstance(e.func, ast.Attribute) and u(e.func.value) == 'self' and self.cls is not None and e.func.attr in self.cls.methods:
                return self.call(self.cls.methods[e.func.attr], [self.ev(f, a, env) for a in e.args], True)
            if isinstance(e.func, ast.Attribute) and e.func.attr == 'getText':
                return 'sym'
            if isinstance(e.func, ast.Name):
                nm = e.func.id
                if nm == 'isinstance' and len(e.args) == 2:
                    v = self.ev(f, e.args[0], env)
                    k = self.ev(f, e.args[1], env)
                    ks = k if isinstance(k, tuple) and k and isinstance(k[0], tuple) else (k,)
                    names = [x[1] for x in ks if isinstance(x, tuple) and x and x[0] == 'class']
                    if len(names) != len(ks) or not (isinstance(v, tuple) and v and v[0] in ARITY):
                        raise Unsupported('isinstance ' + u(e))
                    return v[0] in names
                target = env.get(nm)
                if isinstance(target, tuple) and target and target[0] == 'class':
                    nm = target[1]
                if isinstance(target, tuple) and target and target[0] == 'closure':
                    _, node, cenv, cf = target
                    names = [a.arg for a in node.args.args]
                    if len(names) != len(e.args) or e.keywords:
                        raise Unsupported('arity of ' + nm)
                    self.depth += 1
                    if self.depth > 60:
                        raise Unsupported('recursion too deep')
                    env2 = dict(cenv)
                    env2.update(zip(names, [self.ev(f, a, env) for a in e.args]))
                    r = self.run(cf, node.body, env2)
                    self.depth -= 1
                    if r is None:
                        raise Unsupported(nm + ' returns nothing')
                    return r[0]
                if nm in ARITY and nm != 'Parens':
                    args = [self.ev(f, a, env) for a in e.args]
                    if nm == 'Symbol':
                        return ('Symbol', 'sym')
                    if len(args) != ARITY[nm]:
                        raise Unsupported('arity of ' + nm)
                    return (nm,) + tuple(args)
                r = self.ctx.resolve_call(f, e)
                if r is not None and r.kind == 'func' and r.target.cls is None:
                    return self.call(r.target, [self.ev(f, a, env) for a in e.args], False)
            raise Unsupported('call ' + u(e))
        raise Unsupported('expression ' + u(e))


