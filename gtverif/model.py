"""E0 -- program model: files, modules, functions, classes, imports, name and call
resolution, notebook templates and .g4 grammars.  Nothing here imports gambatools.
"""
import ast
import builtins
import json
import os
import re
import warnings
from typing import Dict, List, Optional, Tuple

REPO = os.environ.get('GTVERIF_REPO', '/repo')
PKG_DIR = 'src/gambatools'
GENERATED = {'CFGLexer', 'CFGParser', 'CFGVisitor', 'regexpLexer', 'regexpParser', 'regexpVisitor',
             'regexp_simpleLexer', 'regexp_simpleParser', 'regexp_simpleVisitor', 'regular_expressionsLexer'}
DRAWING = {'draw_sigma', 'dfa_io', 'nfa_io', 'automaton_io'}


class AnalysisError(Exception):
    """The analyser cannot stand behind a verdict (exit code 2)."""


def norm(node) -> str:
    """Normalised text of a node (first line of compound statements only)."""
    if isinstance(node, (ast.If, ast.While)):
        kw = 'if' if isinstance(node, ast.If) else 'while'
        return '{} {}:'.format(kw, ast.unparse(node.test))
    if isinstance(node, ast.For):
        return 'for {} in {}:'.format(ast.unparse(node.target), ast.unparse(node.iter))
    if isinstance(node, (ast.FunctionDef, ast.AsyncFunctionDef)):
        return 'def {}'.format(node.name)
    if isinstance(node, ast.ClassDef):
        return 'class {}'.format(node.name)
    if isinstance(node, ast.Try):
        return 'try:'
    if isinstance(node, ast.With):
        return 'with {}:'.format(', '.join(ast.unparse(i) for i in node.items))
    if isinstance(node, ast.ExceptHandler):
        return 'except {}:'.format(ast.unparse(node.type) if node.type else '')
    s = ast.unparse(node)
    return ' '.join(s.split())


class Ref:
    __slots__ = ('kind', 'target', 'name')

    def __init__(self, kind, target=None, name=None):
        self.kind = kind      # func | class | module | global | builtin | external | local
        self.target = target  # FuncInfo | ClassInfo | module name | (module, name)
        self.name = name

    def __repr__(self):
        return 'Ref({}, {})'.format(self.kind, self.name)


class ClassInfo:
    def __init__(self, module, node, qualname):
        self.module = module
        self.node = node
        self.name = node.name
        self.qualname = qualname
        self.base_names = [ast.unparse(b) for b in node.bases]
        self.methods: Dict[str, 'FuncInfo'] = {}
        self.fields: Dict[str, Optional[ast.expr]] = {}      # field -> annotation (of the __init__ parameter) or None
        self.field_source: Dict[str, ast.expr] = {}          # field -> rhs expression in __init__
        self.init_params: List[Tuple[str, Optional[ast.expr], Optional[ast.expr]]] = []

    def __repr__(self):
        return 'Class({})'.format(self.qualname)


class FuncInfo:
    def __init__(self, module, node, qualname, cls=None, parent=None):
        self.module = module
        self.node = node
        self.name = node.name
        self.qualname = qualname
        self.cls = cls
        self.parent = parent
        self.nested: Dict[str, 'FuncInfo'] = {}
        self.local_imports: Dict[str, tuple] = {}
        a = node.args
        self.params = [x.arg for x in a.posonlyargs + a.args] + ([a.vararg.arg] if a.vararg else []) + \
                      [x.arg for x in a.kwonlyargs] + ([a.kwarg.arg] if a.kwarg else [])
        self.pos_params = [x for x in a.posonlyargs + a.args]
        n_def = len(a.defaults)
        self.defaults = {}
        for p, d in zip(self.pos_params[len(self.pos_params) - n_def:], a.defaults):
            self.defaults[p.arg] = d
        for p, d in zip(a.kwonlyargs, a.kw_defaults):
            if d is not None:
                self.defaults[p.arg] = d

    @property
    def short(self):
        """module-basename:qualified function name, used in finding keys"""
        return '{}:{}'.format(self.module.base, self.qualname.split('.', 2)[-1] if self.qualname.startswith('gambatools.') else self.qualname.split('.', 1)[-1])

    def annotation(self, param):
        for p in self.pos_params + self.node.args.kwonlyargs:
            if p.arg == param:
                return p.annotation
        return None

    def body_nodes(self, include_nested=False):
        """All AST nodes of the body, optionally not descending into nested defs/lambdas."""
        out = []
        stack = list(self.node.body)
        while stack:
            n = stack.pop()
            out.append(n)
            for c in ast.iter_child_nodes(n):
                if not include_nested and isinstance(c, (ast.FunctionDef, ast.AsyncFunctionDef, ast.ClassDef)):
                    continue
                stack.append(c)
        return out

    def __repr__(self):
        return 'Func({})'.format(self.qualname)


class Module:
    def __init__(self, name, path, source):
        self.name = name
        self.path = path
        self.base = os.path.basename(path)
        self.source = source
        try:
            with warnings.catch_warnings():
                warnings.simplefilter('ignore')
                self.tree = ast.parse(source, filename=path)
        except SyntaxError as e:
            raise AnalysisError('source file {} does not parse: {}'.format(path, e))
        self.imports: Dict[str, tuple] = {}     # local name -> ('module', modname) | ('symbol', modname, symbol)
        self.star_imports: List[str] = []
        self.functions: Dict[str, FuncInfo] = {}
        self.classes: Dict[str, ClassInfo] = {}
        self.globals: Dict[str, ast.AST] = {}   # module-level assigned names -> value node

    def __repr__(self):
        return 'Module({})'.format(self.name)


def _collect_imports(stmts, imports, stars):
    for st in stmts:
        if isinstance(st, ast.Import):
            for al in st.names:
                if al.asname:
                    imports[al.asname] = ('module', al.name)
                else:
                    imports[al.name.split('.')[0]] = ('package', al.name.split('.')[0])
        elif isinstance(st, ast.ImportFrom):
            mod = st.module or ''
            for al in st.names:
                if al.name == '*':
                    stars.append(mod)
                else:
                    imports[al.asname or al.name] = ('symbol', mod, al.name)


class Template:
    """A notebook template: code cells with <<tags>> replaced by placeholders."""
    TAG = re.compile(r'<<(.*?)>>')

    def __init__(self, path, text):
        self.path = path
        self.base = os.path.basename(path)
        try:
            nb = json.loads(text)
        except ValueError as e:
            raise AnalysisError('template {} is not valid JSON: {}'.format(path, e))
        self.tags = []     # dicts: command, args, optional, cell, var
        self.cells = []    # (source, tree)
        for ci, cell in enumerate(nb.get('cells', [])):
            if cell.get('cell_type') != 'code':
                continue
            src = ''.join(cell.get('source', []))
            cell_tags = []

            def repl(m, cell_tags=cell_tags):
                key = m.group(1)
                optional = key.endswith('?')
                if optional:
                    key = key[:-1]
                mm = re.fullmatch(r'(\w+)\((.*)\)', key)
                if mm:
                    cmd, args = mm.group(1), [a.strip() for a in mm.group(2).split(',')]
                else:
                    cmd, args = None, [key]
                tag = {'command': cmd, 'args': args, 'optional': optional, 'cell': ci, 'raw': m.group(0),
                       'placeholder': '__TAG{}__'.format(len(self.tags) + len(cell_tags))}
                cell_tags.append(tag)
                return tag['placeholder']
            code = self.TAG.sub(repl, src)
            try:
                tree = ast.parse(code)
            except SyntaxError as e:
                raise AnalysisError('template {} cell {} does not parse: {}'.format(path, ci, e))
            # which variable is a tag assigned to?
            for tag in cell_tags:
                tag['var'] = None
                tag['in_string'] = False
                for n in ast.walk(tree):
                    if isinstance(n, ast.Assign) and len(n.targets) == 1 and isinstance(n.targets[0], ast.Name):
                        for c in ast.walk(n.value):
                            if isinstance(c, ast.Constant) and isinstance(c.value, str) and tag['placeholder'] in c.value:
                                tag['var'] = n.targets[0].id
                    if isinstance(n, ast.Constant) and isinstance(n.value, str) and tag['placeholder'] in n.value:
                        tag['in_string'] = True
            self.tags.extend(cell_tags)
            self.cells.append((code, tree))


class Grammar:
    """Very small reader for the three .g4 files."""

    def __init__(self, path, text):
        self.path = path
        self.base = os.path.basename(path)
        text = re.sub(r'//.*', '', text)
        self.text = text
        m = re.search(r'grammar\s+(\w+)\s*;', text)
        self.name = m.group(1) if m else None
        self.rules = {}     # rule name -> list of (alternative text, label)
        for m in re.finditer(r'^\s*([A-Za-z_]\w*)\s*:(.*?);\s*$', text, flags=re.S | re.M):
            name, body = m.group(1), m.group(2)
            alts = []
            for alt in self._split_alts(body):
                lab = None
                mm = re.search(r'#\s*(\w+)\s*$', alt)
                if mm:
                    lab = mm.group(1)
                    alt = alt[:mm.start()]
                alts.append((' '.join(alt.split()), lab))
            self.rules[name] = alts

    @staticmethod
    def _split_alts(body):
        out, cur, depth, q = [], '', 0, False
        i = 0
        while i < len(body):
            ch = body[i]
            if ch == "'":
                q = not q
            if not q:
                if ch in '([':
                    depth += 1
                elif ch in ')]':
                    depth -= 1
                elif ch == '|' and depth == 0:
                    out.append(cur)
                    cur = ''
                    i += 1
                    continue
            cur += ch
            i += 1
        out.append(cur)
        return out

    def literals(self):
        return set(re.findall(r"'((?:[^'\\]|\\.)+)'", self.text))

    def parser_literals(self):
        """literals used in parser rules (lower-case rule names): the implicit tokens ANTLR lists in literalNames"""
        out = set()
        for name, alts in self.rules.items():
            if name[0].islower():
                for (alt, _) in alts:
                    out |= set(re.findall(r"'((?:[^'\\]|\\.)+)'", alt))
        return out


class Program:
    def __init__(self, repo=None, overrides=None):
        self.repo = repo or REPO
        self.overrides = overrides or {}
        self.modules: Dict[str, Module] = {}
        self.functions: Dict[str, FuncInfo] = {}
        self.classes: Dict[str, ClassInfo] = {}
        self.templates: Dict[str, Template] = {}
        self.grammars: Dict[str, Grammar] = {}
        self.generated_sources: Dict[str, str] = {}
        self.texts: Dict[str, str] = {}
        self._load()

    # -- loading -----------------------------------------------------------------
    def read(self, rel):
        if rel in self.overrides:
            return self.overrides[rel]
        p = os.path.join(self.repo, rel)
        try:
            with open(p, 'r', encoding='utf8') as f:
                return f.read()
        except OSError as e:
            raise AnalysisError('cannot read {}: {}'.format(p, e))

    def listdir(self, rel):
        names = set()
        p = os.path.join(self.repo, rel)
        if os.path.isdir(p):
            names |= set(os.listdir(p))
        for k in self.overrides:
            if os.path.dirname(k) == rel:
                names.add(os.path.basename(k))
        return sorted(names)

    def _load(self):
        for fn in self.listdir(PKG_DIR):
            rel = PKG_DIR + '/' + fn
            if fn.endswith('.py'):
                base = fn[:-3]
                src = self.read(rel)
                if base in GENERATED:
                    self.generated_sources[base] = src
                    continue
                self._add_module('gambatools.' + base, rel, src)
            elif fn.endswith('.g4'):
                self.grammars[fn[:-3]] = Grammar(rel, self.read(rel))
        if 'gambatools.dfa_algorithms' not in self.modules:
            raise AnalysisError('package sources not found under {}/{}'.format(self.repo, PKG_DIR))
        rel = 'notebooks/make_notebook.py'
        if os.path.exists(os.path.join(self.repo, rel)) or rel in self.overrides:
            self._add_module('make_notebook', rel, self.read(rel))
        for fn in self.listdir('notebooks/templates'):
            if fn.endswith('.ipynb'):
                rel = 'notebooks/templates/' + fn
                t = Template(rel, self.read(rel))
                self.templates[fn] = t
                t.module = self._add_module('template:' + fn, rel, '\n'.join(code for code, _ in t.cells))
        rel = 'doc/main.tex'
        if os.path.exists(os.path.join(self.repo, rel)) or rel in self.overrides:
            self.texts['main.tex'] = self.read(rel)

    def _add_module(self, name, rel, src):
        m = Module(name, rel, src)
        self.modules[name] = m
        _collect_imports(m.tree.body, m.imports, m.star_imports)
        for st in m.tree.body:
            if isinstance(st, ast.FunctionDef):
                self._add_function(m, st, name + '.' + st.name, None, None)
            elif isinstance(st, ast.ClassDef):
                self._add_class(m, st, name + '.' + st.name)
            elif isinstance(st, ast.Assign):
                for t in st.targets:
                    if isinstance(t, ast.Name):
                        m.globals[t.id] = st.value
            elif isinstance(st, ast.AnnAssign) and isinstance(st.target, ast.Name) and st.value is not None:
                m.globals[st.target.id] = st.value
        return m

    def _add_function(self, m, node, qualname, cls, parent):
        f = FuncInfo(m, node, qualname, cls, parent)
        self.functions[qualname] = f
        if parent is not None:
            parent.nested[node.name] = f
        elif cls is not None:
            cls.methods[node.name] = f
        else:
            m.functions[node.name] = f
        # nested defs and local imports (not descending into nested function bodies)
        stack = list(node.body)
        while stack:
            n = stack.pop()
            if isinstance(n, ast.FunctionDef):
                self._add_function(m, n, qualname + '.' + n.name, None, f)
                continue
            if isinstance(n, (ast.Import, ast.ImportFrom)):
                stars = []
                _collect_imports([n], f.local_imports, stars)
            if isinstance(n, ast.ClassDef):
                continue
            stack.extend(ast.iter_child_nodes(n))
        return f

    def _add_class(self, m, node, qualname):
        c = ClassInfo(m, node, qualname)
        self.classes[qualname] = c
        m.classes[node.name] = c
        for st in node.body:
            if isinstance(st, ast.FunctionDef):
                self._add_function(m, st, qualname + '.' + st.name, c, None)
            elif isinstance(st, ast.Assign):
                for t in st.targets:
                    if isinstance(t, ast.Name):
                        c.fields.setdefault(t.id, None)
                        c.field_source[t.id] = st.value
        init = c.methods.get('__init__')
        if init is not None:
            params = init.pos_params[1:]
            for p in params:
                c.init_params.append((p.arg, p.annotation, init.defaults.get(p.arg)))
            ann = {p.arg: p.annotation for p in params}
            for n in ast.walk(init.node):
                tgt = None
                if isinstance(n, ast.Assign) and len(n.targets) == 1:
                    tgt, val, a = n.targets[0], n.value, None
                elif isinstance(n, ast.AnnAssign):
                    tgt, val, a = n.target, n.value, n.annotation
                if tgt is not None and isinstance(tgt, ast.Attribute) and isinstance(tgt.value, ast.Name) and tgt.value.id == 'self':
                    fa = a
                    if fa is None and isinstance(val, ast.Name) and val.id in ann:
                        fa = ann[val.id]
                    c.fields[tgt.attr] = fa
                    c.field_source[tgt.attr] = val
        return c

    # -- lookup ------------------------------------------------------------------
    def module(self, base) -> Module:
        name = base if base in self.modules else 'gambatools.' + base
        if name not in self.modules:
            raise AnalysisError('anchor module {} vanished'.format(base))
        return self.modules[name]

    def func(self, spec) -> FuncInfo:
        """spec: 'dfa_algorithms.dfa_minimize' or 'dfa.DFA._check_validity' or 'make_notebook.apply_command'"""
        base, rest = spec.split('.', 1)
        m = self.module(base)
        q = m.name + '.' + rest
        if q not in self.functions:
            raise AnalysisError('anchor function {} vanished'.format(spec))
        return self.functions[q]

    def has_func(self, spec) -> bool:
        try:
            self.func(spec)
            return True
        except AnalysisError:
            return False

    def cls(self, spec) -> ClassInfo:
        base, rest = spec.split('.', 1)
        m = self.module(base)
        q = m.name + '.' + rest
        if q not in self.classes:
            raise AnalysisError('anchor class {} vanished'.format(spec))
        return self.classes[q]

    def funcs_of(self, base, nested=True, methods=True) -> List[FuncInfo]:
        m = self.module(base)
        out = []
        for q, f in self.functions.items():
            if f.module is m:
                if f.parent is not None and not nested:
                    continue
                if f.cls is not None and not methods:
                    continue
                out.append(f)
        return out

    # -- name resolution -----------------------------------------------------------
    def _lookup_in_module(self, modname, name, seen=None) -> Optional[Ref]:
        seen = seen or set()
        if (modname, name) in seen:
            return None
        seen.add((modname, name))
        m = self.modules.get(modname)
        if m is None:
            return Ref('external', (modname, name), modname + '.' + name)
        if name in m.functions:
            return Ref('func', m.functions[name], name)
        if name in m.classes:
            return Ref('class', m.classes[name], name)
        if name in m.globals:
            return Ref('global', (m, name), name)
        if name in m.imports:
            return self._import_ref(m.imports[name], seen)
        for star in m.star_imports:
            if star in self.modules:
                r = self._lookup_in_module(star, name, seen)
                if r is not None and r.kind != 'external':
                    return r
            elif star.startswith('gambatools.') and star.split('.')[-1] in GENERATED:
                continue
        return None

    def _import_ref(self, imp, seen=None) -> Optional[Ref]:
        if imp[0] == 'module':
            return Ref('module', imp[1], imp[1])
        if imp[0] == 'package':
            return Ref('module', imp[1], imp[1])
        _, mod, sym = imp
        full = mod + '.' + sym
        if full in self.modules:
            return Ref('module', full, full)
        if mod in self.modules:
            return self._lookup_in_module(mod, sym, seen)
        return Ref('external', (mod, sym), full)

    def resolve_name(self, func: Optional[FuncInfo], module: Module, name: str) -> Optional[Ref]:
        f = func
        while f is not None:
            if name in f.nested:
                return Ref('func', f.nested[name], name)
            if name in f.local_imports:
                return self._import_ref(f.local_imports[name])
            if name in f.params:
                return Ref('local', None, name)
            f = f.parent
        r = self._lookup_in_module(module.name, name)
        if r is not None:
            return r
        if hasattr(builtins, name):
            return Ref('builtin', name, name)
        return None

    def resolve_expr(self, func, module, expr) -> Optional[Ref]:
        """Resolve a Name / dotted Attribute chain to a function, class or module."""
        if isinstance(expr, ast.Name):
            return self.resolve_name(func, module, expr.id)
        if isinstance(expr, ast.Attribute):
            base = self.resolve_expr(func, module, expr.value)
            if base is None:
                return None
            if base.kind == 'module':
                full = base.target + '.' + expr.attr
                if full in self.modules:
                    return Ref('module', full, full)
                if base.target in self.modules:
                    return self._lookup_in_module(base.target, expr.attr)
                return Ref('external', (base.target, expr.attr), full)
            if base.kind == 'class':
                c = base.target
                mm = self.find_method(c, expr.attr)
                if mm is not None:
                    return Ref('func', mm, expr.attr)
                if expr.attr in c.fields:
                    return Ref('classattr', (c, expr.attr), c.name + '.' + expr.attr)
            return None
        return None

    def find_method(self, c: ClassInfo, name: str, seen=None) -> Optional[FuncInfo]:
        seen = seen or set()
        if c.qualname in seen:
            return None
        seen.add(c.qualname)
        if name in c.methods:
            return c.methods[name]
        for b in c.base_names:
            r = self._lookup_in_module(c.module.name, b.split('.')[-1])
            if r is not None and r.kind == 'class':
                mm = self.find_method(r.target, name, seen)
                if mm is not None:
                    return mm
        return None

    def subclasses(self, c: ClassInfo) -> List[ClassInfo]:
        out = []
        for k in self.classes.values():
            for b in k.base_names:
                r = self._lookup_in_module(k.module.name, b.split('.')[-1])
                if r is not None and r.kind == 'class' and r.target is c:
                    out.append(k)
        return out

    def resolve_call(self, func: Optional[FuncInfo], module: Module, call: ast.Call, types=None):
        """Returns Ref for the callee: func/class/builtin/external, or Ref('method', (receiver type, name))."""
        fn = call.func
        if isinstance(fn, ast.Name):
            return self.resolve_name(func, module, fn.id)
        if isinstance(fn, ast.Attribute):
            r = self.resolve_expr(func, module, fn)
            if r is not None and r.kind in ('func', 'class', 'external', 'module'):
                return r
            # method on a receiver
            recv = fn.value
            if isinstance(recv, ast.Name) and recv.id == 'self' and func is not None:
                f = func
                while f is not None and f.cls is None:
                    f = f.parent
                if f is not None:
                    mm = self.find_method(f.cls, fn.attr)
                    if mm is not None:
                        return Ref('func', mm, fn.attr)
            if isinstance(recv, ast.Call) and isinstance(recv.func, ast.Name) and recv.func.id == 'super' and func is not None and func.cls is not None:
                for b in func.cls.base_names:
                    rb = self._lookup_in_module(module.name, b.split('.')[-1])
                    if rb is not None and rb.kind == 'class' and rb.target is not func.cls:
                        mm = self.find_method(rb.target, fn.attr)
                        if mm is not None:
                            return Ref('func', mm, fn.attr)
                return Ref('method', (None, fn.attr), fn.attr)
            if types is not None:
                t = types.type_of(recv)
                if t is not None and t[0] == 'cls':
                    c = self.classes.get(t[1])
                    if c is not None:
                        mm = self.find_method(c, fn.attr)
                        if mm is not None:
                            return Ref('func', mm, fn.attr)
                return Ref('method', (t, fn.attr), fn.attr)
            return Ref('method', (None, fn.attr), fn.attr)
        return None

    # -- whole-program helpers -------------------------------------------------------
    def calls_in(self, f: FuncInfo, include_nested=False):
        for n in f.body_nodes(include_nested=include_nested):
            if isinstance(n, ast.Call):
                yield n

    def callers_of(self, target: FuncInfo):
        out = []
        for f in self.functions.values():
            for c in self.calls_in(f):
                r = self.resolve_call(f, f.module, c)
                if r is not None and r.kind == 'func' and r.target is target:
                    out.append((f, c))
        return out
