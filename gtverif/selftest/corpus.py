"""Self-test corpora.

MUTANTS: behaviour-breaking edits, applied in memory as file overrides of the current working tree (never written to
disk, never executed); each must be reported VIOLATES by the named rule for the named property.
REFACTORINGS: behaviour-preserving edits; no new violation may appear.
An edit whose `old` text is not found in the current source is skipped (reported in the evidence), because the tree
has moved away from the instance it was written for.
"""
import glob
import json
import os
import time

A = 'src/gambatools/'

# (id, properties, file, old, new, expected rule prefix)
MUTANTS = [
    # ---- R-WORK -------------------------------------------------------------------------------------------------------------
    ('work-closure-overwrite', ['C01'], A + 'nfa_algorithms.py', '        todo = todo | Q1\n    return result', '        todo = Q1\n    return result', 'R-WORK.W1'),
    ('work-closure-no-seen', ['C01'], A + 'nfa_algorithms.py', 'N.delta.get((q, N.epsilon), set()) - result', 'N.delta.get((q, N.epsilon), set())', 'R-WORK.W2'),
    ('work-closure-result-not-grown', ['C01'], A + 'nfa_algorithms.py', '        result = result | Q1\n        todo = todo | Q1', '        todo = todo | Q1', 'R-WORK.W2'),
    ('work-subset-guard-deleted', ['C03'], A + 'nfa_algorithms.py', '            if stateQ2 not in Q:\n                Q.add(stateQ2)\n                todo.append(Q2)', '            Q.add(stateQ2)\n            todo.append(Q2)', 'R-WORK.W2'),
    ('work-subset-guard-negated', ['C03'], A + 'nfa_algorithms.py', '            if stateQ2 not in Q:\n                Q.add(stateQ2)', '            if stateQ2 in Q:\n                Q.add(stateQ2)', 'R-WORK.W2'),
    ('work-subset-no-marking', ['C03'], A + 'nfa_algorithms.py', '            if stateQ2 not in Q:\n                Q.add(stateQ2)\n                todo.append(Q2)', '            if stateQ2 not in Q:\n                todo.append(Q2)', 'R-WORK.W2'),
    ('work-pda-bound-tightened', ['C09'], A + 'pda_algorithms.py', 'max_iterations = GambaTools.pda_epsilon_closure_max_iterations\n', 'max_iterations = GambaTools.pda_epsilon_closure_max_iterations - 1\n', 'R-WORK.W4'),
    ('work-pda-double-increment', ['C09'], A + 'pda_algorithms.py', '        iteration += 1\n        src = todo.pop()', '        iteration += 1\n        src = todo.pop()\n        iteration += 1', 'R-WORK.W4'),
    ('work-pda-counter-from-one', ['C09'], A + 'pda_algorithms.py', '    iteration = 0\n\n    while len(todo) > 0 and iteration < max_iterations:', '    iteration = 1\n\n    while len(todo) > 0 and iteration < max_iterations:', 'R-WORK.W4'),
    ('work-pda-unmarked', ['C09'], A + 'pda_algorithms.py', '                    if target not in result:\n                        todo.add(target)\n                        result.add(target)\n    return result', '                    if target not in result:\n                        todo.add(target)\n    return result', 'R-WORK.W2'),
    ('work-backpointer-hoisted', ['C15'], A + 'nfa_algorithms.py', '                target = q\n                if target not in visited:\n                    backpointers[target] = src', '                target = q\n                backpointers[target] = src\n                if target not in visited:', 'R-WORK.W3'),
    ('work-pda-backpointer-hoisted', ['C15'], A + 'pda_algorithms.py', '                    target = PDAState(q, stack1)\n                    if target not in visited:\n                        backpointers[target] = src', '                    target = PDAState(q, stack1)\n                    backpointers[target] = src\n                    if target not in visited:', 'R-WORK.W3'),
    ('work-iso-polarity', ['C20'], A + 'dfa_algorithms.py', '            if not matching[q1_, q2_]:', '            if matching[q1_, q2_]:', 'R-WORK.W2'),
    ('work-iso1-no-guard', ['C20'], A + 'dfa_algorithms.py', '            if q1_ not in matching and q2_ not in inverse:\n                todo.add((q1_, q2_))\n            elif', '            todo.add((q1_, q2_))\n            if', 'R-WORK.W2'),
    ('work-flag-dropped-minimize', ['C04'], A + 'dfa_algorithms.py', '                        table[i, j] = False\n                        changed = True\n', '                        table[i, j] = False\n', 'R-WORK.W5'),
    ('work-flag-dropped-nullable', ['C08'], A + 'cfg_algorithms.py', '                nullable.add(r.variable)\n                changed = True', '                nullable.add(r.variable)', 'R-WORK.W5'),
    ('work-snapshot-alias', ['C08'], A + 'cfg_algorithms.py', '        W1 = W.copy()', '        W1 = W', 'R-WORK.W5'),
    ('work-quotient-no-replace', ['C04'], A + 'dfa_algorithms.py', '        if equal_sets(VV, VV1):\n            break\n        else:\n            VV = VV1', '        if equal_sets(VV, VV1):\n            break', 'R-WORK.W5'),
    ('work-quotient-one-inclusion', ['C04'], A + 'dfa_algorithms.py', '        return all(x in B for x in A) and all(x in A for x in B)', '        return all(x in B for x in A)', 'R-WORK.W5'),
    ('work-hopcroft-no-split-test', ['C04'], A + 'dfa_algorithms.py', "            if len(P1) == 0 or len(P2) == 0:\n                log('continue')\n                continue\n", '', 'R-WORK.hopcroft'),
    ('work-reachable-exit', ['C14'], A + 'dfa_algorithms.py', '        if not Vnext:\n            break', '        if d > len(D.Q):\n            break', 'R-WORK.W4'),
    ('work-reachable-no-mark', ['C14'], A + 'dfa_algorithms.py', '            if v not in discovered:\n                discovered.add(v)\n                Vnext.add(v)', '            if v not in discovered:\n                Vnext.add(v)', 'R-WORK.W2'),
    # ---- R-EFFECT / R-TWIN / R-STATE -----------------------------------------------------------------------------------------
    ('effect-complement-shares', ['C19', 'C14'], A + 'dfa_algorithms.py', '    return DFA(set(Q), Sigma, dict(delta), q0, Q - F)', '    return DFA(Q, Sigma, delta, q0, Q - F)', 'R-EFFECT.b'),
    ('effect-noextend-shares', ['C19', 'C14'], A + 'dfa_algorithms.py', '    Q = D.Q.copy()\n    Sigma = D.Sigma.copy()\n    delta = dict(D.delta)', '    Q = D.Q\n    Sigma = D.Sigma.copy()\n    delta = D.delta', 'R-EFFECT.b'),
    ('effect-unguarded-read', ['C19', 'C01'], A + 'nfa_algorithms.py', 'N.delta.get((q, N.epsilon), set()) - result', 'N.delta[q, N.epsilon] - result', 'R-EFFECT.c'),
    ('effect-product-mutates', ['C19', 'C14'], A + 'dfa_algorithms.py', '    Sigma = Sigma1\n    delta = {', '    Sigma = Sigma1\n    Q1.add(q01)\n    delta = {', 'R-EFFECT.a'),
    ('effect-chomsky-no-copy', ['C19', 'C08'], A + 'cfg_algorithms.py', 'def cfg_to_chomsky(G: CFG, verbose: bool = False) -> CFG:\n    G = copy.deepcopy(G)\n', 'def cfg_to_chomsky(G: CFG, verbose: bool = False) -> CFG:\n', 'R-TWIN.copy'),
    ('effect-pda2cfg-no-copy', ['C10', 'C19'], A + 'pda_algorithms.py', '    P = copy.deepcopy(P)\n\n    if len(P.F) != 1:', '    if len(P.F) != 1:', 'R-EFFECT.a'),
    ('effect-accepts-shallow', ['C19'], A + 'cfg_algorithms.py', 'def cfg_eliminate_terminals(G: CFG) -> CFG:\n    G = copy.deepcopy(G)', 'def cfg_eliminate_terminals(G: CFG) -> CFG:\n    G = copy.copy(G)', 'R-TWIN'),
    ('twin-self-call', ['C14', 'C19'], A + 'dfa_algorithms.py', '    D = copy.deepcopy(D)\n    dfa_make_total_in_place(D)', '    D = copy.deepcopy(D)\n    dfa_make_total(D)', 'R-TWIN.call'),
    ('twin-returns-original', ['C10'], A + 'pda_algorithms.py', 'def pda_to_push_pop(P: PDA) -> PDA:\n    """Brings the PDA P in push/pop format"""\n    P = copy.deepcopy(P)\n    pda_to_push_pop_in_place(P)\n    return P', 'def pda_to_push_pop(P: PDA) -> PDA:\n    """Brings the PDA P in push/pop format"""\n    P1 = copy.deepcopy(P)\n    pda_to_push_pop_in_place(P1)\n    return P', 'R-TWIN.return'),
    ('twin-hint-dropped', ['C08'], A + 'cfg_algorithms.py', "    G = copy.deepcopy(G)\n    cfg_add_new_start_variable_in_place(G, hint)", "    G = copy.deepcopy(G)\n    cfg_add_new_start_variable_in_place(G)", 'R-TWIN.args'),
    ('state-limit-in-default', ['C09', 'C19'], A + 'pda_algorithms.py', 'def pda_epsilon_closure(P: PDA, R: Iterable[PDAState]) -> Set[PDAState]:', 'def pda_epsilon_closure(P: PDA, R: Iterable[PDAState], limit=GambaTools.pda_epsilon_closure_max_iterations) -> Set[PDAState]:', 'R-STATE.a'),
    ('state-flag-mutates', ['C19'], A + 'cfg_algorithms.py', "    if verbose: print('--- cfg_remove_epsilon_rules_in_place ---\\n', G, '\\n variables =', *G.V)", "    if verbose: G.V.add(Variable('X'))", 'R-STATE.b'),
    ('state-module-memo', ['C19', 'C01'], A + 'nfa_algorithms.py', 'def epsilon_closure(N: NFA, q: Union[State, Set[State]]) -> Set[State]:\n', '_closure_memo = {}\n\n\ndef epsilon_closure(N: NFA, q: Union[State, Set[State]]) -> Set[State]:\n    key = (id(N), str(q))\n    if key in _closure_memo:\n        return _closure_memo[key]\n    _closure_memo[key] = set()\n', 'R-STATE.c'),
    ('state-lru-cache', ['C19', 'C04'], A + 'dfa_algorithms.py', 'def dfa_quotient(D: DFA) -> DFA:', 'import functools\n\n\n@functools.lru_cache(maxsize=None)\ndef dfa_quotient(D: DFA) -> DFA:', 'R-STATE.c'),
    # ---- R-FRESH / R-EPS ----------------------------------------------------------------------------------------------------------
    ('fresh-literal-trap', ['C14'], A + 'dfa_algorithms.py', "    q_trap = fresh_state(Q, 'trap')", "    q_trap = State('trap')", 'R-FRESH.site'),
    ('fresh-partial-universe', ['C18', 'C06'], A + 'nfa_algorithms.py', '    q0 = _fresh_nfa_state(N1.Q | N2.Q, id_generator)', '    q0 = _fresh_nfa_state(N1.Q, id_generator)', 'R-FRESH.site'),
    ('fresh-provider-weakened', ['C14', 'C10'], A + 'dfa_algorithms.py', "        q = State('{}{}'.format(hint, index))\n        if q not in Q:\n            return q", "        q = State('{}{}'.format(hint, index))\n        if index > 0:\n            return q", 'R-FRESH.provider'),
    ('fresh-no-add-between', ['C10'], A + 'pda_algorithms.py', "    q_drain = fresh_state(Q, 'q_drain')\n    Q.add(q_drain)\n    q_accept = fresh_state(Q, 'q_accept')", "    q_drain = fresh_state(Q, 'q')\n    q_accept = fresh_state(Q, 'q')\n    Q.add(q_drain)", 'R-FRESH.order'),
    ('fresh-cfg-literal', ['C08'], A + 'cfg_algorithms.py', '    S0 = cfg_fresh_variable(G, hint)', "    S0 = Variable('S0')", 'R-FRESH.site'),
    ('fresh-cfg-falloff', ['C08'], A + 'cfg_algorithms.py', '    if len(V) >= 26:', '    if len(V) > 26:', 'R-FRESH.provider'),
    ('eps-default-ctor', ['C18', 'C06'], A + 'nfa_algorithms.py', '    delta[q0, epsilon] = {N1.q0, N2.q0}\n    return NFA(Q, Sigma, delta, q0, F, epsilon)', '    delta[q0, epsilon] = {N1.q0, N2.q0}\n    return NFA(Q, Sigma, delta, q0, F)', 'R-EPS'),
    ('eps-reverse-mismatch', ['C14'], A + 'dfa_algorithms.py', '    delta[q0, epsilon] = D.F.copy()\n    F = {D.q0}\n\n    return NFA(Q, Sigma, delta, q0, F, epsilon)', "    delta[q0, epsilon] = D.F.copy()\n    F = {D.q0}\n\n    return NFA(Q, Sigma, delta, q0, F, Symbol('_'))", 'R-EPS'),
    ('eps-no-translation', ['C18', 'C06'], A + 'nfa_algorithms.py', '        a1 = epsilon if a == N.epsilon else a\n', '        a1 = a\n', 'R-EPS'),
    # ---- R-MODEL ----------------------------------------------------------------------------------------------------------------------
    ('m1-union-and', ['C14'], A + 'dfa_algorithms.py', "final_states = list((q1, q2) for (q1, q2) in states if q1 in F1 or q2 in F2)", "final_states = list((q1, q2) for (q1, q2) in states if q1 in F1 and q2 in F2)", 'R-MODEL.M1'),
    ('m1-xor-half', ['C14'], A + 'dfa_algorithms.py', "if (q1 in F1 and q2 not in F2) or (q1 not in F1 and q2 in F2))", "if (q1 in F1 and q2 not in F2))", 'R-MODEL.M1'),
    ('m1-complement-F', ['C14'], A + 'dfa_algorithms.py', 'dict(delta), q0, Q - F)', 'dict(delta), q0, F)', 'R-MODEL.M1'),
    ('m1-wrapper-swapped', ['C14'], A + 'dfa_algorithms.py', "    return dfa_product(D1, D2, 'intersection')", "    return dfa_product(D1, D2, 'union')", 'R-MODEL.M1'),
    ('m2-reverse-roles', ['C14'], A + 'dfa_algorithms.py', '        delta[q1, a].add(q)\n    delta[q0, epsilon] = D.F.copy()', '        delta[q, a].add(q1)\n    delta[q0, epsilon] = D.F.copy()', 'R-MODEL.M2'),
    ('m2-noprefix-target', ['C14'], A + 'dfa_algorithms.py', '        if q not in D.F:\n            delta[q, a].add(q1)', '        if q1 not in D.F:\n            delta[q, a].add(q1)', 'R-MODEL.M2'),
    ('m2-product-symbol', ['C14'], A + 'dfa_algorithms.py', 'make_state(delta1[q1, a], delta2[q2, a])', 'make_state(delta1[q1, a], delta2[q1, a])', 'R-MODEL.M2'),
    ('m2-total-overwrite', ['C14'], A + 'dfa_algorithms.py', '            if not (q, a) in delta:\n                delta[q, a] = q_trap', '            delta[q, a] = q_trap', 'R-MODEL.M2'),
    ('m3-rule-wrong', ['C05', 'C06'], A + 'regexp_algorithms.py', '        if isinstance(left, Zero):\n            result = right\n        elif isinstance(right, Zero):\n            result = left', '        if isinstance(left, Zero):\n            result = Zero()\n        elif isinstance(right, Zero):\n            result = left', 'R-MODEL.M3'),
    ('m3-one-as-zero', ['C05', 'C06'], A + 'regexp_algorithms.py', '        elif isinstance(left, One):\n            result = right', '        elif isinstance(left, One):\n            result = Zero()', 'R-MODEL.M3'),
    ('m3-child-not-simplified', ['C05'], A + 'regexp_algorithms.py', '        left = regexp_simplify(r.left)\n        right = regexp_simplify(r.right)\n        if isinstance(left, Zero):\n            result = right', '        left = regexp_simplify(r.left)\n        right = left\n        if isinstance(left, Zero):\n            result = right', 'R-MODEL.M3'),
    ('m3m-star-from-zero', ['C05'], A + 'regexp_algorithms.py', 'regexp_accepts_word(r, w[k:]) for k in range(1, len(w) + 1))', 'regexp_accepts_word(r, w[k:]) for k in range(0, len(w)))', 'R-MODEL.M3m'),
    ('m3m-concat-range', ['C05'], A + 'regexp_algorithms.py', 'regexp_accepts_word(r.right, w[k:]) for k in range(len(w) + 1))', 'regexp_accepts_word(r.right, w[k:]) for k in range(len(w)))', 'R-MODEL.M3m'),
    ('m4-no-direct', ['C06'], A + 'regexp_algorithms.py', 'R = regexp_simplify(Sum(Concat(R1, Concat(Iteration(R2), R3)), R4))', 'R = regexp_simplify(Concat(R1, Concat(Iteration(R2), R3)))', 'R-MODEL.M4'),
    ('m4-roles', ['C06'], A + 'regexp_algorithms.py', '                R3 = delta[q_rip, q_j]', '                R3 = delta[q_j, q_rip]', 'R-MODEL.M4'),
    ('m4-overwrite-edge', ['C06'], A + 'regexp_algorithms.py', '        if (q, q1) in delta1:\n            delta1[q, q1] = regexp.Sum(delta1[q, q1], regexp.Symbol(a))\n        else:\n            delta1[q, q1] = regexp.Symbol(a)', '        delta1[q, q1] = regexp.Symbol(a)', 'R-MODEL.M4'),
    ('m5-elif-changed', ['C10'], A + 'pda_algorithms.py', '            elif u != epsilon and v != epsilon:', '            elif u != epsilon and v != epsilon and u != v:', 'R-MODEL.M5'),
    ('m5-lost-pop', ['C10'], A + 'pda_algorithms.py', '                delta1[p, a, u].add((q_mid, epsilon))\n                delta1[q_mid, epsilon, epsilon].add((q, v))', '                delta1[p, a, epsilon].add((q_mid, dummy))\n                delta1[q_mid, epsilon, dummy].add((q, epsilon))', 'R-MODEL.M5'),
    ('m6-no-clamp', ['C11'], A + 'tm_algorithms.py', "head1 = max(head - 1, 0) if d == 'L' else head + 1", "head1 = head - 1 if d == 'L' else head + 1", 'R-MODEL.M6'),
    ('m6-default-left', ['C11'], A + 'tm_algorithms.py', "q, b, d = T.q_reject, a, Direction('R')", "q, b, d = T.q_reject, a, Direction('L')", 'R-MODEL.M6'),
    ('m6-default-accept', ['C11'], A + 'tm_algorithms.py', "q, b, d = T.q_reject, a, Direction('R')", "q, b, d = T.q_accept, a, Direction('R')", 'R-MODEL.M6'),
    ('m7-range-shift', ['C07'], A + 'cfg_algorithms.py', '            for k in range(i, j):\n                if verbose: print', '            for k in range(i + 1, j):\n                if verbose: print', 'R-MODEL.M7'),
    ('m7-outer-order', ['C07'], A + 'cfg_algorithms.py', '    for m in range(1, n):\n        for i in range(n - m):', '    for m in range(n - 1, 0, -1):\n        for i in range(n - m):', 'R-MODEL.M7'),
    ('m7-pair-swapped', ['C07'], A + 'cfg_algorithms.py', 'X[i, j] |= set(A for A in V if [B, C] in P[A])', 'X[i, j] |= set(A for A in V if [C, B] in P[A])', 'R-MODEL.M7'),
    ('m8-suffix', ['C14'], A + 'language_algorithms.py', 'return any(w[:i] in L for i in range(len(w)))', 'return any(w[i:] in L for i in range(len(w)))', 'R-MODEL.M8'),
    ('m8-skip-empty-prefix', ['C14'], A + 'language_algorithms.py', 'return any(w[:i] in L for i in range(len(w)))', 'return any(w[:i] in L for i in range(1, len(w)))', 'R-MODEL.M8'),
    ('m8-dfa-column', ['C15'], A + 'dfa_algorithms.py', '        result.append((q, word[k:]))', '        result.append((q, word[:-k]))', 'R-MODEL.M8'),
    ('m8-append-not-prepend', ['C15'], A + 'nfa_algorithms.py', '            word = a + word\n            result = [(front, word)] + result', '            word = word + a\n            result = [(front, word)] + result', 'R-MODEL.M8'),
    # ---- R-CLOSED ------------------------------------------------------------------------------------------------------------------------
    ('closed-accept-raw', ['C01'], A + 'nfa_algorithms.py', '    q: Set[State] = Eq[q0]\n', '    q: Set[State] = {q0}\n', 'R-CLOSED'),
    ('closed-subset-raw', ['C03'], A + 'nfa_algorithms.py', '            Q2 = epsilon_closure(N, Q2)\n            stateQ2 = state(Q2)', '            stateQ2 = state(Q2)', 'R-CLOSED'),
    ('closed-initial-raw', ['C03'], A + 'nfa_algorithms.py', '    Q0: Set[State] = epsilon_closure(N, {N.q0})', '    Q0: Set[State] = {N.q0}', 'R-CLOSED'),
    ('closed-pda-no-final-closure', ['C09'], A + 'pda_algorithms.py', '        R = pda_do_transition(P, Symbol(a), R)\n        R = pda_epsilon_closure(P, R)\n    return any(r.q in F for r in R)', '        R = pda_do_transition(P, Symbol(a), R)\n    return any(r.q in F for r in R)', 'R-CLOSED'),
    ('closed-cache-raw', ['C01'], A + 'nfa_algorithms.py', '        Eq[q] = epsilon_closure(N, q)', '        Eq[q] = {q}', 'R-CLOSED'),
    ('closed-history', ['C15'], A + 'nfa_algorithms.py', '    R = {N.q0}\n    H.append(R)\n    R = epsilon_closure(N, R)\n    H.append(R)', '    R = {N.q0}\n    R = epsilon_closure(N, R)\n    H.append(R)', 'R-CLOSED.iv'),
    ('closed-checker-target', ['C12'], A + 'notebook_nfa2dfa.py', '        q1_states_expected = epsilon_closure(N, q1_states_expected)\n', '', 'R-CLOSED'),
    # ---- R-FEEDBACK --------------------------------------------------------------------------------------------------------------------------
    ('fb-kill', ['C12'], A + 'notebook_dfa.py', "            feedback.append('The state {} should not be final'.format(q))\n\n        print_feedback(feedback)", "            feedback.append('The state {} should not be final'.format(q))\n\n        feedback = []\n        print_feedback(feedback)", 'R-FEEDBACK.K1'),
    ('fb-overwrite', ['C12'], A + 'notebook_dfa.py', '        feedback = feedback + compare_languages(L, union(L1, L2))', '        feedback = compare_languages(L, union(L1, L2))', 'R-FEEDBACK.K1'),
    ('fb-dropped-call', ['C12'], A + 'notebook.py', '        feedback.extend(compare_languages(A_words, words))', '        compare_languages(A_words, words)', 'R-FEEDBACK.K1'),
    ('fb-ok-after-error', ['C12'], A + 'notebook.py', "            print(\"Error: word '{}' should be accepted\".format(word))\n            return\n", "            print(\"Error: word '{}' should be accepted\".format(word))\n", 'R-FEEDBACK.K2'),
    ('fb-handler-ok', ['C12'], A + 'notebook.py', "        feedback = check_equal_languages(R, D, length)\n        print_feedback(feedback)\n    except Exception as e:\n        print('Error: {}'.format(e))", "        feedback = check_equal_languages(R, D, length)\n        print_feedback(feedback)\n    except Exception as e:\n        print('OK')", 'R-FEEDBACK.K3'),
    ('fb-args-swapped', ['C12'], A + 'notebook_dfa.py', '        feedback = feedback + compare_languages(L1, L2)\n\n        print_feedback(feedback)\n\n    except', '        feedback = feedback + compare_languages(L2, L1)\n\n        print_feedback(feedback)\n\n    except', 'R-FEEDBACK.K4'),
    ('fb-messages-swapped', ['C12'], A + 'language_generator.py', "    A1minusA2 = sorted(A1 - A2, key=lambda x: (len(x)))\n    A2minusA1 = sorted(A2 - A1, key=lambda x: (len(x)))", "    A1minusA2 = sorted(A2 - A1, key=lambda x: (len(x)))\n    A2minusA1 = sorted(A1 - A2, key=lambda x: (len(x)))", 'R-FEEDBACK.K4'),
    ('fb-last-word', ['C12'], A + 'language_generator.py', '        word = A1minusA2[0]', '        word = A1minusA2[-1]', 'R-FEEDBACK.K5'),
    ('fb-reverse-sort', ['C12'], A + 'language_generator.py', 'A2minusA1 = sorted(A2 - A1, key=lambda x: (len(x)))', 'A2minusA1 = sorted(A2 - A1, key=lambda x: (len(x)), reverse=True)', 'R-FEEDBACK.K5'),
    ('fb-different-bounds', ['C12'], A + 'notebook_dfa.py', '        L1 = generate_language(answer, length)\n        L2 = language_reverse(generate_language(D, length))', '        L1 = generate_language(answer, length)\n        L2 = language_reverse(generate_language(D, length + 1))', 'R-FEEDBACK.K6'),
    ('fb-max-states-polarity', ['C12'], A + 'notebook.py', '    if 0 < max_states < len(A.Q):', '    if 0 < len(A.Q) < max_states:', 'R-FEEDBACK.K7'),
    ('fb-own-compare', ['C12'], A + 'notebook.py', '        feedback = check_equal_languages(R, D, length)', '        feedback = check_equal_languages(D, D, length)', 'R-FEEDBACK.K4'),
    # ---- R-BUILD / R-IO / R-DISPATCH -------------------------------------------------------------------------------------------------------------
    ('build-check-dropped', ['C17'], A + 'nfa_algorithms.py', '        self._check_states_are_declared()\n        self._check_state_labels()\n        self._check_one_initial_state()\n        epsilon = self.parse_symbol()\n        input_symbols = self.get_symbol_set(\'input_symbols\', self.used_input_symbols(epsilon))\n        self._check_symbols(input_symbols)\n\n        Q = set(State(s) for s in A.states)\n        Sigma = set(Symbol(s) for s in input_symbols)\n        delta = defaultdict(set)\n        q0 = State(next(iter(A.initial_states)))\n        F = set(State(s) for s in A.final_states)\n        epsilon = Symbol(epsilon)', '        self._check_states_are_declared()\n        self._check_state_labels()\n        epsilon = self.parse_symbol()\n        input_symbols = self.get_symbol_set(\'input_symbols\', self.used_input_symbols(epsilon))\n        self._check_symbols(input_symbols)\n\n        Q = set(State(s) for s in A.states)\n        Sigma = set(Symbol(s) for s in input_symbols)\n        delta = defaultdict(set)\n        q0 = State(next(iter(A.initial_states)))\n        F = set(State(s) for s in A.final_states)\n        epsilon = Symbol(epsilon)', 'R-BUILD.checks'),
    ('build-total-dropped', ['C17'], A + 'dfa_algorithms.py', '        self._check_symbols(input_symbols)\n        self._check_is_total(input_symbols)\n', '        self._check_symbols(input_symbols)\n', 'R-BUILD.checks'),
    ('build-no-validity', ['C17'], A + 'dfa_algorithms.py', '            delta[p, a] = q\n        return DFA(Q, Sigma, delta, q0, F)', '            delta[p, a] = q\n        return DFA(Q, Sigma, delta, q0, F, check_validity=False)', 'R-BUILD.checks'),
    ('build-initial-polarity', ['C17'], A + 'automaton_algorithms.py', "        elif len(A.initial_states) > 1:\n            raise RuntimeError('the automaton has multiple initial states')", "        elif len(A.initial_states) > 2:\n            raise RuntimeError('the automaton has multiple initial states')", 'R-BUILD.guard'),
    ('build-dup-key-skipped', ['C17'], A + 'automaton_algorithms.py', "            keyword = words[0]\n            self._check_no_duplicate_keys(keyword)\n            self.items[keyword] = words[1:]", "            keyword = words[0]\n            self.items[keyword] = words[1:]", 'R-BUILD.dup'),
    ('build-invariant-dropped', ['C17', 'C01'], A + 'nfa.py', '        assert epsilon not in Sigma\n', '', 'R-BUILD.inv'),
    ('build-deterministic-polarity', ['C17'], A + 'dfa_algorithms.py', "            if (p, a) in V:\n                raise RuntimeError('the automaton is not deterministic", "            if (p, a) not in V:\n                raise RuntimeError('the automaton is not deterministic", 'R-BUILD.guard'),
    ('build-optional-truthy', ['C16', 'C17'], A + 'tm_algorithms.py', '        if input_symbols is None:', '        if not input_symbols:', 'R-BUILD.optional'),
    ('io-keyword-renamed', ['C16', 'C13'], A + 'nfa_algorithms.py', "    out.write('input_symbols {}\\n'.format(' '.join(sorted(Sigma))))\n    out.write('epsilon {}\\n'.format(epsilon))", "    out.write('alphabet {}\\n'.format(' '.join(sorted(Sigma))))\n    out.write('epsilon {}\\n'.format(epsilon))", 'R-IO.a'),
    ('io-format-permuted', ['C16', 'C17'], A + 'pda_algorithms.py', "append('{},{}{}'.format(a, u, v))", "append('{},{}{}'.format(a, v, u))", 'R-IO.b'),
    ('io-unpack-permuted', ['C16', 'C17'], A + 'tm_algorithms.py', '            a, b, _, d = label', '            b, a, _, d = label', 'R-IO.b'),
    ('io-product-format', ['C13'], A + 'dfa_algorithms.py', "        return State('({},{})'.format(q1,q2))\n\n    states = list(itertools.product(Q1, Q2))", "        return State('<{},{}>'.format(q1,q2))\n\n    states = list(itertools.product(Q1, Q2))", 'R-IO.c'),
    ('io-state-regex', ['C13'], A + 'automaton_algorithms.py', "    return r'\\{[\\w,]*\\}'", "    return r'\\{\\w*\\}'", 'R-IO.c'),
    ('io-precedence', ['C16'], A + 'regexp.py', '    elif isinstance(r, Concat):\n        return 8\n    elif isinstance(r, Sum):\n        return 7', '    elif isinstance(r, Concat):\n        return 7\n    elif isinstance(r, Sum):\n        return 8', 'R-IO.d'),
    ('io-cfg-epsilon', ['C16', 'C13'], A + 'cfg_algorithms.py', "        if not a.symbols:\n            return 'ε'\n        return ''.join(a.symbols)", "        if not a.symbols:\n            return G.epsilon\n        return ''.join(a.symbols)", 'R-IO.e'),
    ('dispatch-callee-swapped', ['C02', 'C12'], A + 'language_generator.py', '        result = gambatools.nfa_algorithms.nfa_words_up_to_n(L, n)', '        result = gambatools.dfa_algorithms.dfa_words_up_to_n(L, n)', 'R-DISPATCH.b'),
    ('dispatch-branch-deleted', ['C02'], A + 'language_generator.py', '    elif isinstance(L, gambatools.tm.TM):\n        result = gambatools.tm_algorithms.tm_words_up_to_n(L, n)\n', '', 'R-DISPATCH.b'),
    ('dispatch-ext-swapped', ['C02', 'C12'], A + 'notebook.py', "    elif filename.endswith('.nfa'):\n        return parse_nfa", "    elif filename.endswith('.nfa'):\n        return parse_dfa", 'R-DISPATCH.b'),
    ('dispatch-regexp-case-missing', ['C05'], A + 'regexp_algorithms.py', '    elif isinstance(r, Iteration):\n        return regexp_size(r.operand) + 1\n', '', 'R-DISPATCH.a'),
    ('dispatch-generator-default', ['C06'], A + 'regexp_algorithms.py', 'return nfa_repetition(self.generate(x.operand), self.id_generator)', 'return nfa_repetition(self.generate(x.operand))', 'R-DISPATCH.a'),
    ('dispatch-generator-wrong-block', ['C06'], A + 'regexp_algorithms.py', 'return nfa_union(self.generate(x.left), self.generate(x.right), self.id_generator)', 'return nfa_concatenation(self.generate(x.left), self.generate(x.right))', 'R-DISPATCH.a'),
    ('dispatch-template-command', ['C13'], 'notebooks/templates/dfa-reverse.ipynb', '<<dfa_reverse(inputfile)?>>', '<<dfa_mirror(inputfile)?>>', 'R-DISPATCH.c'),
    ('dispatch-command-arity', ['C13'], 'notebooks/make_notebook.py', "    elif command == 'dfa_union':\n        inputfile1, inputfile2 = arguments", "    elif command == 'dfa_union':\n        inputfile1, inputfile2, extra = arguments", 'R-DISPATCH.c'),
    # ---- R-BOUND / R-TM / misc ------------------------------------------------------------------------------------------------------------------------
    ('bound-dfa-range', ['C02'], A + 'dfa_algorithms.py', "    W = {(D.q0, '')}\n    for i in range(n):", "    W = {(D.q0, '')}\n    for i in range(n + 1):", 'R-BOUND'),
    ('bound-nfa-range', ['C02'], A + 'nfa_algorithms.py', "    for i in range(n):\n        W1 = defaultdict(lambda: set([]))  # W1", "    for i in range(n - 1):\n        W1 = defaultdict(lambda: set([]))  # W1", 'R-BOUND'),
    ('bound-tm-range', ['C02'], A + 'tm_algorithms.py', '    for i in range(n + 1):\n        for w in itertools.product(Sigma, repeat = i):', '    for i in range(1, n + 1):\n        for w in itertools.product(Sigma, repeat = i):', 'R-BOUND'),
    ('bound-cfg-unguarded', ['C02'], A + 'cfg_algorithms.py', '    if n >= 1:\n        words = words | make_words([G.S])', '    words = words | make_words([G.S])', 'R-BOUND'),
    ('bound-cfg-range', ['C02'], A + 'cfg_algorithms.py', '    for i in range(2, n + 1):\n        W = remove_duplicates', '    for i in range(2, n + 2):\n        W = remove_duplicates', 'R-BOUND'),
    ('bound-regexp-symbol', ['C02'], A + 'regexp_algorithms.py', '        result = {r.symbol} if n > 0 else set([])', '        result = {r.symbol}', 'R-BOUND.regexp'),
    ('bound-regexp-budget', ['C02'], A + 'regexp_algorithms.py', 'concatenate(regexp_words_up_to_n(r.left, k), regexp_words_up_to_n(r.right, n - k)) for k in range(n + 1)', 'concatenate(regexp_words_up_to_n(r.left, k), regexp_words_up_to_n(r.right, n)) for k in range(n + 1)', 'R-BOUND.regexp'),
    ('bound-regexp-star-zero', ['C02'], A + 'regexp_algorithms.py', 'regexp_words_up_to_n(r, n - k)) for k in range(1, n + 1)', 'regexp_words_up_to_n(r, n - k)) for k in range(0, n + 1)', 'R-BOUND.regexp'),
    ('bound-words-range', ['C02', 'C14'], A + 'language_algorithms.py', 'for i in range(n+1)])', 'for i in range(n)])', 'R-BOUND'),
    ('tm-loops-differ', ['C11'], A + 'tm_algorithms.py', '    for _ in range(max_steps):\n        q, head = tm_do_transition(T, q, tape, head)\n        result.append((q, tape[:], head))', '    for _ in range(max_steps + 1):\n        q, head = tm_do_transition(T, q, tape, head)\n        result.append((q, tape[:], head))', 'R-TM.agree'),
    ('tm-no-initial-test', ['C11'], A + 'tm_algorithms.py', '    if q == q_accept:\n        return True\n    if q == q_reject:\n        return False\n\n    for _ in range(max_steps):', '    for _ in range(max_steps):', 'R-TM.pre'),
    ('tm-verdict-swapped', ['C11'], A + 'tm_algorithms.py', '        if q == q_accept:\n            return True\n        if q == q_reject:\n            return False\n    return None', '        if q == q_accept:\n            return False\n        if q == q_reject:\n            return True\n    return None', 'R-TM.verdict'),
    ('tm-budget-default', ['C11', 'C02'], A + 'tm_algorithms.py', 'def tm_words_up_to_n(T: TM, n: int, max_steps: int = 1000) -> Set[str]:', 'def tm_words_up_to_n(T: TM, n: int, max_steps: int = 100) -> Set[str]:', 'R-TM.budget'),
    ('tm-budget-not-forwarded', ['C11', 'C02'], A + 'tm_algorithms.py', '            if tm_accepts_word(T, word, max_steps):', '            if tm_accepts_word(T, word):', 'R-TM.budget'),
    ('arity-no-length-test', ['C15', 'C07'], A + 'cfg_algorithms.py', '            if len(BC) != 2:\n                continue\n            B, C = BC', '            B, C = BC', 'R-ARITY'),
    ('slot-unfiltered', ['C04'], A + 'dfa_algorithms.py', '    Q_r: Set[State] = set(state(Q_i) for Q_i in Q_ if Q_i)', '    Q_r: Set[State] = set(map(state, Q_))', 'R-SLOT'),
    ('sym-no-inverse', ['C20'], A + 'dfa_algorithms.py', '        matching[q1] = q2\n        inverse[q2] = q1', '        matching[q1] = q2', 'R-SYM'),
    ('sym-and', ['C20'], A + 'dfa_algorithms.py', '        if matching.get(q1, q2) != q2 or inverse.get(q2, q1) != q1:', '        if matching.get(q1, q2) != q2 and inverse.get(q2, q1) != q1:', 'R-SYM.or'),
    ('sibling-hopcroft-reachable', ['C04', 'C13'], A + 'dfa_algorithms.py', '    # D = dfa_remove_unreachable_states(D)\n', '    D = dfa_remove_unreachable_states(D)\n', 'R-SIBLING'),
    ('cnf-epsilon-before-conversion', ['C07'], A + 'cfg_algorithms.py', '    if not G.is_chomsky():\n        G = cfg_to_chomsky(G)\n        if verbose:\n            print(\'grammar converted to Chomsky:\')\n            print(G)\n\n    R = G.R\n    S = G.S\n', '    R = G.R\n    S = G.S\n\n    if not G.is_chomsky():\n        G = cfg_to_chomsky(G)\n', 'R-CNF'),
    ('cnf-no-conversion-guard', ['C02'], A + 'cfg_algorithms.py', 'def cfg_words_up_to_n(G: CFG, n: int) -> Set[str]:\n    if not G.is_chomsky():\n        G = cfg_to_chomsky(G)\n    S = G.S', 'def cfg_words_up_to_n(G: CFG, n: int) -> Set[str]:\n    S = G.S\n    if not G.is_chomsky():\n        G = cfg_to_chomsky(G)', 'R-CNF'),
    ('pdaform-no-drain', ['C10'], A + 'pda_algorithms.py', '        for X in Gamma - {stack_bottom}:\n            delta[q, epsilon, X].add((q_drain, epsilon))\n', '', 'R-PDAFORM.drain'),
    ('pdaform-wrong-skip', ['C10'], A + 'pda_algorithms.py', '    if not accepts_on_empty_stack:\n        pda_to_accept_on_empty_stack_in_place(P)', '    if accepts_on_empty_stack:\n        pda_to_accept_on_empty_stack_in_place(P)', 'R-PDAFORM'),
    ('pdaform-guard-dropped', ['C09'], A + 'pda_algorithms.py', '            for (q, v) in Q1:\n                if pda_can_pop_push(P, stack, u, v):\n                    stack1 = pda_pop_push(P, stack, u, v)\n                    r1 = PDAState(q, stack1)', '            for (q, v) in Q1:\n                if True:\n                    stack1 = pda_pop_push(P, stack, u, v)\n                    r1 = PDAState(q, stack1)', 'R-PDAFORM.guard'),
    ('phase-swapped', ['C08'], A + 'notebook_chomsky.py', '    if phase >= 2:\n        cfg_remove_epsilon_rules_in_place(G1)\n    if phase >= 3:\n        cfg_eliminate_unit_rules_in_place(G1)', '    if phase >= 2:\n        cfg_eliminate_unit_rules_in_place(G1)\n    if phase >= 3:\n        cfg_remove_epsilon_rules_in_place(G1)', 'R-PHASE'),
    ('w6-iterator-hoisted', ['C04', 'C19'], A + 'dfa_algorithms.py', '    changed = True\n    while changed:\n        changed = False\n        for i, j in itertools.combinations(range(n), 2):', '    pairs = itertools.combinations(range(n), 2)\n    changed = True\n    while changed:\n        changed = False\n        for i, j in pairs:', 'R-WORK.W6'),
]

# (id, properties, file, old, new) -- behaviour-preserving; must stay quiet
REFACTORINGS = [
    ('rf-closure-augassign', ['C01', 'C19'], A + 'nfa_algorithms.py', '        result = result | Q1\n        todo = todo | Q1', '        result = result | Q1\n        todo |= Q1'),
    ('rf-closure-len-test', ['C01'], A + 'nfa_algorithms.py', '    while todo:\n        q = todo.pop()\n        Q1: Set[State]', '    while len(todo) > 0:\n        q = todo.pop()\n        Q1: Set[State]'),
    ('rf-accept-bool-and', ['C01'], A + 'nfa_algorithms.py', '    return not q.isdisjoint(F)\n\n\ndef nfa_words_up_to_n', '    return not q.isdisjoint(F) and True\n\n\ndef nfa_words_up_to_n'),
    ('rf-subset-rename', ['C03'], A + 'nfa_algorithms.py', '    todo = [Q0]\n\n    while todo:\n        Q1 = todo.pop()', '    todo = [Q0]\n\n    while len(todo) != 0:\n        Q1 = todo.pop()'),
    ('rf-minimize-flag-name', ['C04'], A + 'dfa_algorithms.py', '    changed = True\n    while changed:\n        changed = False\n        for i, j in itertools.combinations(range(n), 2):\n            if table[i, j]:\n                for a in Sigma:\n                    k = q.index(delta[q[i], a])\n                    l = q.index(delta[q[j], a])\n                    if not table[min(k, l), max(k, l)]:\n                        table[i, j] = False\n                        changed = True', '    dirty = True\n    while dirty:\n        dirty = False\n        for i, j in itertools.combinations(range(n), 2):\n            if table[i, j]:\n                for a in Sigma:\n                    k = q.index(delta[q[i], a])\n                    l = q.index(delta[q[j], a])\n                    if not table[min(k, l), max(k, l)]:\n                        table[i, j] = False\n                        dirty = True'),
    ('rf-complement-copy-style', ['C14', 'C19'], A + 'dfa_algorithms.py', '    return DFA(set(Q), Sigma, dict(delta), q0, Q - F)', '    return DFA(Q.copy(), Sigma, delta.copy(), q0, Q.difference(F))'),
    ('rf-product-truth', ['C14'], A + 'dfa_algorithms.py', "if (q1 in F1 and q2 not in F2) or (q1 not in F1 and q2 in F2))", "if (q1 in F1) != (q2 in F2))"),
    ('rf-noprefix-slice-name', ['C14'], A + 'language_algorithms.py', 'return any(w[:i] in L for i in range(len(w)))', 'return any(w[:k] in L for k in range(0, len(w)))'),
    ('rf-simplify-extra-sound-rule', ['C05', 'C06'], A + 'regexp_algorithms.py', '        elif isinstance(right, Zero):\n            result = left\n        else:\n            result = Sum(left, right)', '        elif isinstance(right, Zero):\n            result = left\n        elif left is right:\n            result = left\n        else:\n            result = Sum(left, right)'),
    ('rf-rip-term-reassociated', ['C06'], A + 'regexp_algorithms.py', 'R = regexp_simplify(Sum(Concat(R1, Concat(Iteration(R2), R3)), R4))', 'R = regexp_simplify(Sum(R4, Concat(Concat(R1, Iteration(R2)), R3)))'),
    ('rf-cyk-comment', ['C07'], A + 'cfg_algorithms.py', '    for m in range(1, n):\n        for i in range(n - m):\n            j = i + m', '    for m in range(1, n):  # span length minus one\n        for i in range(0, n - m):\n            j = m + i'),
    ('rf-chomsky-logging', ['C08', 'C19'], A + 'cfg_algorithms.py', "def cfg_to_chomsky(G: CFG, verbose: bool = False) -> CFG:\n    G = copy.deepcopy(G)\n", "def cfg_to_chomsky(G: CFG, verbose: bool = False) -> CFG:\n    if verbose: print('converting')\n    G = copy.deepcopy(G)\n"),
    ('rf-pda-bound-lte', ['C09'], A + 'pda_algorithms.py', '    iteration = 0\n\n    while len(todo) > 0 and iteration < max_iterations:\n        iteration += 1', '    iteration = 0\n\n    while len(todo) > 0 and iteration < max_iterations:\n        iteration = iteration + 1'),
    ('rf-pushpop-or-order', ['C10'], A + 'pda_algorithms.py', '            elif u == epsilon and v == epsilon:', '            elif v == epsilon and u == epsilon:'),
    ('rf-tm-max-form', ['C11'], A + 'tm_algorithms.py', "head1 = max(head - 1, 0) if d == 'L' else head + 1", "head1 = (head - 1 if head > 0 else 0) if d == 'L' else head + 1"),
    ('rf-feedback-plus-equal', ['C12'], A + 'notebook_dfa.py', '        feedback = feedback + compare_languages(L, union(L1, L2))', '        feedback += compare_languages(L, union(L1, L2))'),
    ('rf-feedback-min', ['C12'], A + 'language_generator.py', "    A1minusA2 = sorted(A1 - A2, key=lambda x: (len(x)))", "    A1minusA2 = sorted(A1 - A2, key=len)"),
    ('rf-template-whitespace', ['C13'], 'notebooks/templates/dfa-union.ipynb', '<<dfa_union(inputfile1,inputfile2)?>>', '<<dfa_union(inputfile1, inputfile2)?>>'),
    ('rf-sim-column-len', ['C15'], A + 'dfa_algorithms.py', '        result.append((q, word[k:]))', '        result.append((q, word[k:len(word)]))'),
    ('rf-printer-fstring-free', ['C16'], A + 'tm_algorithms.py', "    out.write('blank {}\\n'.format(blank))", "    out.write('blank ' + '{}\\n'.format(blank))"),
    ('rf-builder-order', ['C17'], A + 'dfa_algorithms.py', '        self._check_states_are_declared()\n        self._check_state_labels()\n        self._check_one_initial_state()\n        self._check_is_deterministic()', '        self._check_state_labels()\n        self._check_states_are_declared()\n        self._check_one_initial_state()\n        self._check_is_deterministic()'),
    ('rf-union-sigma-order', ['C18', 'C06'], A + 'nfa_algorithms.py', 'def nfa_union(N1: NFA, N2: NFA, id_generator: IdentifierGenerator = IdentifierGenerator()) -> NFA:\n    assert N1.Q.isdisjoint(N2.Q)\n    Sigma = N1.Sigma | N2.Sigma', 'def nfa_union(N1: NFA, N2: NFA, id_generator: IdentifierGenerator = IdentifierGenerator()) -> NFA:\n    assert N1.Q.isdisjoint(N2.Q)\n    Sigma = N2.Sigma | N1.Sigma'),
    ('rf-iso-loop-form', ['C20'], A + 'dfa_algorithms.py', '    while len(todo) > 0:\n        (q1, q2) = set_element(todo)\n        todo.remove((q1, q2))\n        if (q1 in F1) != (q2 in F2):', '    while todo:\n        (q1, q2) = set_element(todo)\n        todo.remove((q1, q2))\n        if (q1 in F1) != (q2 in F2):'),
    ('rf-bound-while-free', ['C02'], A + 'tm_algorithms.py', '    for i in range(n + 1):\n        for w in itertools.product(Sigma, repeat = i):', '    for i in range(0, n + 1):\n        for w in itertools.product(Sigma, repeat=i):'),
]


def seeded_patches():
    """the independently written regressions under /verif/seeded, as (id, property, patch text)"""
    out = []
    root = os.path.join(os.path.dirname(os.path.dirname(os.path.dirname(os.path.abspath(__file__)))), 'seeded')
    for d in sorted(glob.glob(os.path.join(root, '*'))):
        try:
            meta = json.load(open(os.path.join(d, 'meta.json'), encoding='utf8'))
            patch = open(os.path.join(d, 'patch.diff'), encoding='utf8').read()
        except OSError:
            continue
        out.append((os.path.basename(d), meta.get('property'), patch, meta))
    return out


def run(prop, tier, seed, base_keys=None):
    from . import runner
    return runner.run(prop, tier, seed, base_keys)
