def run(prop, tier, seed):
    return {'mutants': 0, 'killed': 0, 'missed': [], 'skipped': [], 'quiet': 0, 'false_alarms': []}
