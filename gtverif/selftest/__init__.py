"""Self-test: in-memory mutants (must fire) and refactorings (must stay quiet)."""


def run(prop, tier, seed):
    from . import corpus
    return corpus.run(prop, tier, seed)
