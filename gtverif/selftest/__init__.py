"""Self-test: in-memory mutants (must fire) and refactorings (must stay quiet)."""


def run(prop, tier, seed, base_keys=None):
    from . import runner
    return runner.run(prop, tier, seed, base_keys)
