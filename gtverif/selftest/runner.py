"""Runs the self-test corpora against the current tree: mutants must be reported by their rule, refactorings must not
raise any new violation.  Everything happens in memory (file overrides of the program model)."""
import multiprocessing
import os
import random
import re
import time

from ..model import AnalysisError, Program, REPO
from ..report import VIOLATES
from . import corpus


def _read(rel):
    with open(os.path.join(REPO, rel), 'r', encoding='utf8') as f:
        return f.read()


def apply_text_edit(rel, old, new):
    """override dict or None when the edit does not apply to the current source"""
    try:
        src = _read(rel)
    except OSError:
        return None
    if src.count(old) != 1:
        return None
    return {rel: src.replace(old, new)}


def apply_unified_diff(patch):
    """override dict for a unified diff, or None if a hunk does not apply"""
    files = re.split(r'^diff --git .*$', patch, flags=re.M)
    out = {}
    for chunk in files:
        m = re.search(r'^\+\+\+ b/(.+)$', chunk, flags=re.M)
        if not m:
            continue
        rel = m.group(1).strip()
        try:
            text = out.get(rel) or _read(rel)
        except OSError:
            return None
        lines = text.split('\n')
        starts = [int(x) for x in re.findall(r'^@@ -(\d+)(?:,\d+)? \+\d+(?:,\d+)? @@.*$', chunk, flags=re.M)]
        hunks = re.split(r'^@@ .*?@@.*$', chunk, flags=re.M)[1:]
        shift = 0
        for hi, h in enumerate(hunks):
            old, new = [], []
            for ln in h.split('\n')[1:]:
                if ln.startswith('\\'):
                    continue
                if ln.startswith('-'):
                    old.append(ln[1:])
                elif ln.startswith('+'):
                    new.append(ln[1:])
                elif ln.startswith(' ') or ln == '':
                    old.append(ln[1:] if ln else '')
                    new.append(ln[1:] if ln else '')
            while old and new and old[-1] == '' and new[-1] == '':
                old.pop()
                new.pop()
            # all places where the old text matches; take the one nearest to the line number of the hunk header (the same
            # context can occur in several functions)
            cands = [i for i in range(0, len(lines) - len(old) + 1) if lines[i:i + len(old)] == old]
            if not cands:
                return None
            want = (starts[hi] - 1 + shift) if hi < len(starts) else cands[0]
            pos = min(cands, key=lambda i: abs(i - want))
            lines[pos:pos + len(old)] = new
            shift += len(new) - len(old)
        out[rel] = '\n'.join(lines)
    return out or None


def _violations(prop, overrides=None):
    from ..__main__ import run_property
    rep = run_property(prop, overrides=overrides)
    return {i.key(): i for i in rep.instances if i.verdict == VIOLATES}


def _one(job):
    kind, ident, prop, overrides, expect, base = job
    t0 = time.time()
    try:
        if base is None:
            base = set(_violations(prop))
        got = _violations(prop, overrides)
    except AnalysisError as e:
        return (kind, ident, prop, 'analysis-error', str(e)[:200], time.time() - t0)
    except Exception as e:      # pragma: no cover
        return (kind, ident, prop, 'crash', repr(e)[:200], time.time() - t0)
    new = [v for k, v in got.items() if k not in base]
    if kind in ('mutant', 'seeded'):
        hit = [v for v in new if expect is None or v.rule.startswith(expect)]
        if hit:
            return (kind, ident, prop, 'killed', '{} {} :: {}'.format(hit[0].rule, hit[0].where, hit[0].construct[:60]), time.time() - t0)
        if new:
            return (kind, ident, prop, 'killed-other', '{} (expected {})'.format(new[0].rule, expect), time.time() - t0)
        return (kind, ident, prop, 'missed', expect or '', time.time() - t0)
    if new:
        return (kind, ident, prop, 'false-alarm', '{} {} :: {}'.format(new[0].rule, new[0].where, new[0].construct[:60]), time.time() - t0)
    return (kind, ident, prop, 'quiet', '', time.time() - t0)


def jobs_for(prop, tier, seed):
    rnd = random.Random(seed)
    muts = [m for m in corpus.MUTANTS if prop in m[1]]
    refs = [r for r in corpus.REFACTORINGS if prop in r[1]]
    seeds = [s for s in corpus.seeded_patches() if s[1] == prop]
    if tier == 'quick':
        rnd.shuffle(muts)
        muts = muts[:2]
        refs = refs[:1]
        seeds = []
    jobs, skipped = [], []
    for (ident, props, rel, old, new, expect) in muts:
        ov = apply_text_edit(rel, old, new)
        if ov is None:
            skipped.append(ident)
        else:
            jobs.append(('mutant', ident, prop, ov, expect))
    for (ident, props, rel, old, new) in refs:
        ov = apply_text_edit(rel, old, new)
        if ov is None:
            skipped.append(ident)
        else:
            jobs.append(('refactoring', ident, prop, ov, None))
    if tier != 'quick':
        for (ident, p, patch) in corpus.benign_patches():
            if p != prop:
                continue
            ov = apply_unified_diff(patch)
            if ov is None:
                skipped.append('benign/' + ident)
            else:
                jobs.append(('refactoring', 'benign/' + ident, prop, ov, None))
    for (ident, p, patch, meta) in seeds:
        ov = apply_unified_diff(patch)
        if ov is None:
            skipped.append('seeded/' + ident)
        else:
            # a seeded regression counts as detected by any new violation; those known to leave the fragment are
            # recorded as such in their meta.json
            jobs.append(('seeded', ident, prop, ov, None))
    return jobs, skipped


def run(prop, tier, seed, base_keys=None):
    jobs, skipped = jobs_for(prop, tier, seed)
    t0 = time.time()
    if base_keys is None:
        base_keys = set(_violations(prop))
    jobs = [j + (set(base_keys),) for j in jobs]
    if tier == 'thorough' and len(jobs) > 2:
        with multiprocessing.Pool(min(16, len(jobs))) as pool:
            results = pool.map(_one, jobs)
    else:
        results = [_one(j) for j in jobs]
    out = {'mutants': 0, 'killed': 0, 'missed': [], 'skipped': skipped, 'quiet': 0, 'false_alarms': [], 'seeded': {}, 'details': [], 'wall_s': 0}
    for (kind, ident, p, status, info, dt) in results:
        out['details'].append({'kind': kind, 'id': ident, 'status': status, 'info': info, 's': round(dt, 2)})
        if kind == 'mutant':
            out['mutants'] += 1
            if status in ('killed', 'killed-other', 'analysis-error'):
                out['killed'] += 1
                if status == 'analysis-error':
                    out['details'][-1]['note'] = 'the mutant leaves the fragment; reported as ANALYSIS-ERROR, not as a violation'
            else:
                out['missed'].append(ident)
        elif kind == 'refactoring':
            if status == 'quiet':
                out['quiet'] += 1
            elif status == 'analysis-error':
                # the variant leaves the fragment of some rule: the check would answer "cannot decide" (exit 2) on it,
                # which is not an alarm; recorded, not gating
                out.setdefault('undecided_variants', []).append('{} ({})'.format(ident, info))
            else:
                out['false_alarms'].append('{} ({}: {})'.format(ident, status, info))
        else:
            out['seeded'][ident] = {'killed': 'detected: ' + info, 'killed-other': 'detected: ' + info, 'missed': 'not detected',
                                    'analysis-error': 'leaves the fragment (ANALYSIS-ERROR): ' + info}.get(status, status)
    out['wall_s'] = round(time.time() - t0, 2)
    return out
