"""R-TWIN -- in-place / pure twin pairing, and no unconditional self-call."""
import ast

from ..astutil import u, walk_no_nested
from ..cfg import cfg_of
from ..model import norm

RULE = 'R-TWIN'


def _is_deepcopy(ctx, f, e):
    if isinstance(e, ast.Call):
        r = ctx.resolve_call(f, e)
        if r is not None and r.kind == 'external' and r.name == 'copy.deepcopy' and len(e.args) == 1:
            return e.args[0]
    return None


def conditional_subexprs(stmt_root):
    """ids of AST nodes inside ``stmt_root`` that are only conditionally evaluated (short-circuit operands,
    conditional-expression arms, comprehension/generator/lambda bodies)."""
    cond = set()

    def mark(n):
        for c in ast.walk(n):
            cond.add(id(c))

    for n in ast.walk(stmt_root):
        if isinstance(n, ast.BoolOp):
            for v in n.values[1:]:
                mark(v)
        elif isinstance(n, ast.IfExp):
            mark(n.body)
            mark(n.orelse)
        elif isinstance(n, (ast.ListComp, ast.SetComp, ast.GeneratorExp)):
            mark(n.elt)
            for g in n.generators[1:]:
                mark(g.iter)
            for g in n.generators:
                for c in g.ifs:
                    mark(c)
        elif isinstance(n, ast.DictComp):
            mark(n.key)
            mark(n.value)
        elif isinstance(n, ast.Lambda):
            mark(n.body)
    return cond


def twin_pairs(ctx, modules=None):
    """(pure, in_place) pairs enumerated from the current source."""
    out = []
    for f in ctx.prog.functions.values():
        if f.parent is not None or f.cls is not None:
            continue
        if not f.name.endswith('_in_place'):
            continue
        if modules is not None and f.module.base[:-3] not in modules:
            continue
        pure = f.module.functions.get(f.name[:-len('_in_place')])
        if pure is not None:
            out.append((pure, f))
    return out


def _check_twin_model(ctx, rep, pure, inplace):
    """the pure twin, evaluated with the analyser's finite-model evaluator on an opaque operand: copy.deepcopy and the
    in-place sibling are replaced by recorders.  Required: the sibling is applied exactly once, to a deep copy of the
    operand (never to the operand itself), with every shared parameter passed through, and the copy is what is returned.
    Used when the twin does not call its sibling directly (the pattern was moved into a helper).  True when decided."""
    from ..miniexec import Interp, Obj, Raised
    from ..abseval import Unsupported
    f = pure
    G = Obj('operand')
    copies, calls = [], []

    def copier(interp, args, kwargs):
        c = Obj('copy', of=args[0] if args else None)
        copies.append(c)
        return c

    def recorder(interp, args, kwargs):
        calls.append((list(args), dict(kwargs)))
        return None
    params = [p.arg for p in f.pos_params]
    actual = [G] + ['<{}>'.format(p) for p in params[1:]]
    try:
        r = Interp(ctx, stubs={inplace.name: recorder, 'copy.deepcopy': copier, 'deepcopy': copier}).call(f, actual)
    except Raised as ex:
        rep.violates(RULE + '.call', f, 'def ' + f.name, 'the pure twin raises {} on every call'.format(ex.name))
        return True
    except Unsupported:
        return False
    if len(calls) != 1:
        rep.violates(RULE + '.call', f, 'def ' + f.name, 'the in-place sibling {} is applied {} times on the straight path through {} (exactly once is required)'.format(inplace.name, len(calls), f.name))
        return True
    args, kwargs = calls[0]
    tgt = args[0] if args else None
    if tgt is G:
        rep.violates(RULE + '.copy', f, 'def ' + f.name, 'in-place sibling {} is applied to the operand itself, not to a deep copy'.format(inplace.name))
        return True
    if not (isinstance(tgt, Obj) and tgt._cls == 'copy' and tgt._f.get('of') is G):
        rep.violates(RULE + '.copy', f, 'def ' + f.name, 'in-place sibling {} is not applied to a deep copy of the operand'.format(inplace.name))
        return True
    rep.holds(RULE + '.copy', f, 'def ' + f.name, 'the in-place sibling {} is applied once, to a deep copy of the operand (evaluated on an opaque operand)'.format(inplace.name))
    in_params = [p.arg for p in inplace.pos_params]
    passed = dict(zip(in_params, args))
    passed.update(kwargs)
    for p in params[1:]:
        if p in in_params:
            if passed.get(p) == '<{}>'.format(p):
                rep.holds(RULE + '.args', f, 'parameter ' + p, 'parameter {} passed through'.format(p), nontrivial=False)
            else:
                rep.violates(RULE + '.args', f, 'parameter ' + p, 'parameter {} of {} is not passed through to {}'.format(p, f.name, inplace.name))
    if r is tgt:
        rep.holds(RULE + '.return', f, 'def ' + f.name, 'returns the copy after the in-place call')
    else:
        rep.violates(RULE + '.return', f, 'def ' + f.name, 'the pure twin does not return the modified copy')
    return True


def check_twin(ctx, rep, pure, inplace):
    f = pure
    fx = ctx.facts(f)
    cfg = fx.cfg
    rep.analysed(pure, inplace)
    calls_twin, calls_self = [], []
    for c in ctx.prog.calls_in(f):
        cal = ctx.callee(f, c)
        if cal is inplace:
            calls_twin.append(c)
        elif cal is f:
            calls_self.append(c)
    operand = f.pos_params[0].arg if f.pos_params else None
    # deep copies bound in f
    copies = {}   # var -> (assign stmt, source name)
    for st in walk_no_nested(f.node):
        if isinstance(st, ast.Assign) and len(st.targets) == 1 and isinstance(st.targets[0], ast.Name):
            src = _is_deepcopy(ctx, f, st.value)
            if src is not None:
                copies[st.targets[0].id] = (st, u(src))
    if not calls_twin:
        if calls_self:
            rep.violates(RULE + '.call', f, calls_self[0],
                         'pure twin {} calls itself instead of its in-place sibling {}: it can never return'.format(f.name, inplace.name))
            return
        # identity: returns an untouched deep copy
        rets = [s for s in walk_no_nested(f.node) if isinstance(s, ast.Return)]
        if copies and rets and all(isinstance(r.value, ast.Name) and r.value.id in copies for r in rets):
            other_uses = False
            for c in ctx.prog.calls_in(f):
                if _is_deepcopy(ctx, f, c) is not None:
                    continue
                for a in list(c.args) + [k.value for k in c.keywords]:
                    if isinstance(a, ast.Name) and a.id in copies:
                        other_uses = True
                if isinstance(c.func, ast.Attribute) and isinstance(c.func.value, ast.Name) and c.func.value.id in copies:
                    other_uses = True
            if not other_uses:
                rep.violates(RULE + '.call', f, rets[0],
                             'pure twin {} returns an untouched deep copy: the in-place operation {} is never applied'.format(f.name, inplace.name))
                return
        if _check_twin_model(ctx, rep, pure, inplace):
            return
        rep.undecided(RULE + '.call', f, 'def ' + f.name, 'no call of the in-place sibling found; different style')
        return
    ok = True
    for c in calls_twin:
        st_id = fx.stmt_of_expr(c)
        arg0 = c.args[0] if c.args else None
        if not isinstance(arg0, ast.Name):
            rep.undecided(RULE + '.copy', f, c, 'first argument of the in-place call is not a plain name')
            ok = False
            continue
        v = arg0.id
        if v not in copies:
            if v == operand or v in f.params:
                rep.violates(RULE + '.copy', f, c, 'in-place sibling {} is applied to the operand {} itself, not to a deep copy'.format(inplace.name, v))
            else:
                rep.undecided(RULE + '.copy', f, c, 'argument {} is not bound by copy.deepcopy in this function'.format(v))
            ok = False
            continue
        cst, src = copies[v]
        # the copy assignment must dominate the call and copy the operand
        assigns_v = [s for s in walk_no_nested(f.node) if isinstance(s, ast.Assign) and any(isinstance(t, ast.Name) and t.id == v for t in s.targets)]
        if len(assigns_v) != 1 or not cfg.dominates(cfg.n_of(cst), st_id):
            rep.violates(RULE + '.copy', f, c, 'the deep copy of {} does not reach the in-place call on every path'.format(src))
            ok = False
            continue
        if src not in f.params:
            rep.undecided(RULE + '.copy', f, cst, 'deep copy source {} is not a parameter'.format(src))
            ok = False
            continue
        rep.holds(RULE + '.copy', f, c, '{} = copy.deepcopy({}) dominates {}({}, ...)'.format(v, src, inplace.name, v))
        # pass-through of the remaining parameters that both share
        in_params = [p.arg for p in inplace.pos_params]
        passed = {}
        for i, a in enumerate(c.args):
            if i < len(in_params):
                passed[in_params[i]] = a
        for k in c.keywords:
            if k.arg:
                passed[k.arg] = k.value
        for p in [p.arg for p in f.pos_params][1:]:
            if p in in_params:
                a = passed.get(p)
                if a is None or not (isinstance(a, ast.Name) and a.id == p):
                    rep.violates(RULE + '.args', f, c, 'parameter {} of {} is not passed through to {}'.format(p, f.name, inplace.name))
                    ok = False
                else:
                    rep.holds(RULE + '.args', f, c, 'parameter {} passed through'.format(p), nontrivial=False)
        # every normal return is dominated by the twin call and returns the copy
        for r in [s for s in walk_no_nested(f.node) if isinstance(s, ast.Return)]:
            rn = cfg.n_of(r)
            if not cfg.must_pass({st_id}, rn):
                rep.violates(RULE + '.path', f, r, 'a path reaches this return without calling {}'.format(inplace.name))
                ok = False
            elif not (isinstance(r.value, ast.Name) and r.value.id == v):
                rep.violates(RULE + '.return', f, r, 'the pure twin returns {} instead of the modified copy {}'.format(u(r.value) if r.value else 'None', v))
                ok = False
            else:
                rep.holds(RULE + '.return', f, r, 'returns the copy after the in-place call')
        # falling off the end
        if cfg.exit in cfg.reachable(cfg.entry) and any(not isinstance(cfg.node[p].stmt, ast.Return) for (p, _) in cfg.pred[cfg.exit]):
            rep.violates(RULE + '.return', f, 'def ' + f.name, 'a path falls off the end of the pure twin and returns None')
            ok = False
    return ok


def check_no_unconditional_self_call(ctx, rep, funcs, rule=RULE + '.selfcall'):
    """No function calls itself on every path from entry to a normal return."""
    n = 0
    for f in funcs:
        selfcalls = [c for c in ctx.prog.calls_in(f) if ctx.callee(f, c) is f]
        if not selfcalls:
            continue
        n += 1
        fx = ctx.facts(f)
        cfg = fx.cfg
        via = set()
        for c in selfcalls:
            nid = fx.stmt_of_expr(c)
            if nid is None:
                continue
            node = cfg.node[nid]
            roots = fx._own_roots(node)
            cond = set()
            for r in roots:
                cond |= conditional_subexprs(r)
            if id(c) in cond:
                continue
            via.add(nid)
        reach_exit = cfg.exit in cfg.reachable(cfg.entry)
        if via and reach_exit and cfg.must_pass(via, cfg.exit):
            rep.violates(rule, f, selfcalls[0], 'every path through {} to a normal return evaluates a call of {} itself: it cannot terminate'.format(f.name, f.name))
        else:
            rep.holds(rule, f, selfcalls[0], 'recursive call is avoidable (base case exists)')
    return n
