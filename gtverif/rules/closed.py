"""R-CLOSED -- epsilon-closure typestate.

Tags of state-set expressions:  C closed | R raw | MAPC map whose values are closed | LISTC list of closed sets |
KEYSC map whose key set is closed | FBACK accepting set closed backwards (states whose closure meets F) | U unknown.
Requirements: (i) acceptance decisions on closed sets, (ii) symbol steps start from closed sets, (iii) subsets that become
DFA states are closed, (iv) simulation histories alternate raw / closed.  A construct outside the fragment gives U and
the requirement is UNDECIDED (never a violation)."""
import ast

from ..astutil import u, names_in, walk_no_nested
from ..cfg import cfg_of
from ..model import norm

RULE = 'R-CLOSED'
C, R, U, MAPC, LISTC, KEYSC, FBACK = 'C', 'R', 'U', 'MAPC', 'LISTC', 'KEYSC', 'FBACK'
CLOSURES = {'epsilon_closure', 'pda_epsilon_closure', 'E'}
STEPS = {'nfa_do_transition', 'pda_do_transition'}


def join(a, b):
    if a == b:
        return a
    if a is None:
        return b
    if b is None:
        return a
    if a == 'EMPTYMAP' and b in (MAPC, KEYSC):
        return b
    if b == 'EMPTYMAP' and a in (MAPC, KEYSC):
        return a
    if a == 'EMPTYLIST' and b == LISTC:
        return b
    if b == 'EMPTYLIST' and a == LISTC:
        return a
    if R in (a, b):
        return R
    return U


def _dead_for_none(g, nones):
    """ids of the AST nodes of g that cannot run when the parameters `nones` are None: bodies of `if p is not None:` and else
    branches of `if p is None:` (p never re-bound before the test is assumed only when p is not assigned in g at all)"""
    dead = set()
    if not nones:
        return dead
    assigned = {t.id for n in ast.walk(g.node) for t in ast.walk(n) if isinstance(t, ast.Name) and isinstance(t.ctx, ast.Store)}
    for n in ast.walk(g.node):
        if isinstance(n, ast.If) and isinstance(n.test, ast.Compare) and len(n.test.ops) == 1 and isinstance(n.test.left, ast.Name) and n.test.left.id in nones \
                and n.test.left.id not in assigned and isinstance(n.test.comparators[0], ast.Constant) and n.test.comparators[0].value is None:
            branch = n.body if isinstance(n.test.ops[0], ast.IsNot) else (n.orelse if isinstance(n.test.ops[0], ast.Is) else [])
            for b in branch:
                for x in ast.walk(b):
                    dead.add(id(x))
    return dead


class _NullReport:
    def holds(self, *a, **k):
        pass

    def violates(self, *a, **k):
        pass

    def undecided(self, *a, **k):
        pass

    def note(self, *a, **k):
        pass


class Closed:
    def __init__(self, ctx, rep, f, cache_summary=None):
        self.ctx = ctx
        self.rep = rep
        self.f = f
        self.cfg = cfg_of(f.node)
        self.cache_summary = cache_summary or {}
        self.states = {}
        self.map_store_tags = {}     # name -> joined tag of values stored into it
        self.key_tags = {}           # name -> joined tag of the sets its keys were drawn from
        self.list_tags = {}
        self.history = []
        self.reported = set()

    # -- expression tags ------------------------------------------------------------------------------------------
    def tag(self, e, st):
        if e is None:
            return U
        if isinstance(e, ast.Name):
            return st.get(e.id, U)
        if isinstance(e, ast.Call):
            nm = self.ctx.callee_name(self.f, e)
            if nm in CLOSURES or (isinstance(e.func, ast.Attribute) and e.func.attr == 'E'):
                return C
            if nm in STEPS:
                return R
            if isinstance(e.func, ast.Name) and e.func.id in ('set', 'frozenset'):
                if not e.args or (isinstance(e.args[0], ast.List) and not e.args[0].elts):
                    return C
                return self.tag(e.args[0], st)
            if isinstance(e.func, ast.Attribute) and e.func.attr == 'union':
                # set().union(*[X[k] for k in Y])
                unbound = isinstance(e.func.value, ast.Name) and e.func.value.id in ('set', 'frozenset') and e.func.value.id not in st
                ts = [C if unbound else self.tag(e.func.value, st)]      # set.union(*sets): no receiver, the empty union is closed
                for a in e.args:
                    if isinstance(a, ast.Starred) and isinstance(a.value, (ast.ListComp, ast.GeneratorExp)):
                        ts.append(self.tag(a.value.elt, self._comp_env(a.value, st)))
                    else:
                        ts.append(self.tag(a.value if isinstance(a, ast.Starred) else a, st))
                out = ts[0]
                for t in ts[1:]:
                    out = C if out == C and t == C else (R if R in (out, t) else U)
                return out
            if isinstance(e.func, ast.Attribute) and e.func.attr == 'copy':
                return self.tag(e.func.value, st)
            if isinstance(e.func, ast.Attribute) and e.func.attr == 'pop':
                base = self.tag(e.func.value, st)
                return C if base == LISTC else U
            if isinstance(e.func, ast.Attribute) and e.func.attr == 'get':
                base = e.func.value
                if u(base).endswith('delta'):
                    return R
                bt = self.tag(base, st)
                return C if bt in (MAPC, 'EMPTYMAP') else U
            if nm == '_nfa_cache':
                return ('tuple', self.cache_summary.get('ret', (U, U)))
            h = self._local_wrapper(e)
            if h is not None:
                return self.tag(h[0], h[1](st))
            s0 = self._nested_summary(e, st)
            if s0 is not None:
                return s0
            return U
        if isinstance(e, ast.Subscript):
            if u(e.value).endswith('delta'):
                return R
            bt = self.tag(e.value, st)
            if bt in (MAPC, 'EMPTYMAP'):
                return C      # an empty map has no values: vacuously closed
            if bt == LISTC and not isinstance(e.slice, ast.Slice):
                return C      # an element of a list of closed sets
            return U
        if isinstance(e, ast.Set):
            return R if e.elts else C
        if isinstance(e, ast.IfExp):
            return join(self.tag(e.body, st), self.tag(e.orelse, st))
        if isinstance(e, ast.BinOp) and isinstance(e.op, ast.BitOr):
            a, b = self.tag(e.left, st), self.tag(e.right, st)
            return C if a == C and b == C else (R if R in (a, b) else U)
        if isinstance(e, ast.Tuple):
            return ('tuple', tuple(self.tag(x, st) for x in e.elts))
        return U

    def _local_wrapper(self, e):
        """call of a nested one-expression helper  def h(p..): return <expr>  -> (<expr>, env builder) ; the helper is
        read as if its body stood at the call site (parameters bound to the tags of the arguments)"""
        if not (isinstance(e, ast.Call) and isinstance(e.func, ast.Name) and e.func.id in self.f.nested) or e.keywords:
            return None
        g = self.f.nested[e.func.id]
        body = [s for s in g.node.body if not (isinstance(s, ast.Expr) and isinstance(s.value, ast.Constant))]
        if len(body) != 1 or not isinstance(body[0], ast.Return) or body[0].value is None:
            return None
        ps = [p for p in g.params]
        if len(ps) != len(e.args) or any(isinstance(a, ast.Starred) for a in e.args):
            return None

        def env(st, ps=ps, args=e.args):
            st2 = dict(st)
            for p, a in zip(ps, args):
                st2[p] = self.tag(a, st)
            return st2
        return body[0].value, env

    def _nested_summary(self, e, st, depth=0):
        """tag of the value a nested multi-statement helper returns, analysed with its parameters bound to the tags of the
        arguments and its free variables to their tags at the call (the helper is a closure of this function)"""
        if not (isinstance(e, ast.Call) and isinstance(e.func, ast.Name) and e.func.id in self.f.nested) or getattr(self, '_depth', 0) > 2:
            return None
        g = self.f.nested[e.func.id]
        ps = list(g.params)
        if len(ps) < len(e.args) or any(isinstance(a, ast.Starred) for a in e.args) or any(k.arg is None or k.arg not in ps for k in e.keywords):
            return None
        # keyword arguments and defaults: step(R, a=Symbol(a)) / step(R) for def step(R, a=None)
        bound = dict(zip(ps, e.args))
        for k in e.keywords:
            bound[k.arg] = k.value
        ndef = len(g.node.args.defaults)
        for p0 in ps:
            if p0 not in bound and p0 not in ps[len(ps) - ndef:]:
                return None
        memo = self.__dict__.setdefault('_nested_memo', {})
        key = (g.qualname, tuple((p0, repr(self.tag(bound[p0], st))) for p0 in ps if p0 in bound), tuple(sorted((k, repr(v)) for k, v in st.items() if isinstance(k, str))))
        if key in memo:
            return memo[key]
        memo[key] = U       # recursion guard
        sub = Closed(self.ctx, _NullReport(), g, cache_summary=self.cache_summary)
        sub._depth = getattr(self, '_depth', 0) + 1
        sub.init = dict(st)
        for p in ps:
            sub.init[p] = self.tag(bound[p], st) if p in bound else U
        sub.run()
        out = None
        for n in walk_no_nested(g.node):
            if isinstance(n, ast.Return) and n.value is not None:
                nid = sub.cfg.n_of(n) if hasattr(sub.cfg, 'n_of') else None
                stn = sub.states.get(nid, {}) if nid is not None else {}
                out = join(out, sub.tag(n.value, stn))
        memo[key] = out if out is not None else U
        return memo[key]

    def _comp_env(self, comp, st):
        env = dict(st)
        for g in comp.generators:
            it = self.tag(g.iter, st)
            if isinstance(g.target, ast.Name):
                env[g.target.id] = ('elem', it)
        return env

    # -- dataflow -------------------------------------------------------------------------------------------------------
    def run(self):
        cfg = self.cfg
        init = dict(getattr(self, 'init', {}) or {})
        states = {cfg.entry: init}
        work = [cfg.entry]
        it = 0
        while work:
            it += 1
            if it > 5000:
                break
            n = work.pop()
            st = dict(states[n])
            node = cfg.node[n]
            self.transfer(node, st)
            for (s, lab) in cfg.succ[n]:
                old = states.get(s)
                if old is None:
                    states[s] = dict(st)
                    work.append(s)
                else:
                    ch = False
                    for k, v in st.items():
                        nv = join(old.get(k), v) if k in old else v
                        if old.get(k) != nv:
                            old[k] = nv
                            ch = True
                    if ch:
                        work.append(s)
        self.states = states
        return states

    def transfer(self, node, st):
        s = node.stmt
        if s is None or id(s) in getattr(self, 'dead', ()):
            return
        if node.kind == 'for':
            it = self.tag(s.iter, st)
            tgt = s.target
            # for (q, words) in W.items()  /  for q in Eq[...]
            if isinstance(s.iter, ast.Call) and isinstance(s.iter.func, ast.Attribute) and s.iter.func.attr == 'items' and isinstance(tgt, ast.Tuple):
                mt = self.tag(s.iter.func.value, st)
                if isinstance(tgt.elts[0], ast.Name):
                    st[tgt.elts[0].id] = ('elem', C) if mt in (KEYSC, 'EMPTYMAP') else U
            elif isinstance(tgt, ast.Name):
                st[tgt.id] = C if it == LISTC else ('elem', it)
            return
        if isinstance(s, ast.AnnAssign) and node.kind == 'stmt' and s.value is not None:
            s = ast.Assign(targets=[s.target], value=s.value)
        if isinstance(s, ast.Assign) and node.kind == 'stmt':
            t = self.tag(s.value, st)
            for tg in s.targets:
                if isinstance(tg, ast.Name):
                    # defaultdict / dict / list creation: start as empty containers
                    if isinstance(s.value, ast.Call) and self.ctx.callee_name(self.f, s.value) in ('collections.defaultdict', 'dict') or isinstance(s.value, ast.Dict):
                        st[tg.id] = 'EMPTYMAP'
                    elif isinstance(s.value, ast.List):
                        ts = [self.tag(x, st) for x in s.value.elts]
                        st[tg.id] = LISTC if ts and all(x == C for x in ts) else ('EMPTYLIST' if not ts else U)
                    elif isinstance(s.value, ast.ListComp) and self._is_fback(s.value, st):
                        st[tg.id] = FBACK
                    elif isinstance(s.value, ast.ListComp) and len(s.value.generators) == 1 and self.tag(s.value.elt, self._comp_env(s.value, st)) == C:
                        st[tg.id] = LISTC
                    elif isinstance(s.value, ast.DictComp) and len(s.value.generators) == 1 and self.tag(s.value.value, self._comp_env(s.value, st)) == C:
                        st[tg.id] = MAPC
                    elif isinstance(s.value, ast.DictComp) and len(s.value.generators) == 1 and isinstance(s.value.key, ast.Name) \
                            and self.tag(s.value.key, self._comp_env(s.value, st)) == ('elem', C):
                        st[tg.id] = KEYSC       # {r: {''} for r in <closed set>}
                    else:
                        st[tg.id] = t
                elif isinstance(tg, ast.Tuple) and isinstance(t, tuple) and t[0] == 'tuple':
                    for x, tt in zip(tg.elts, t[1]):
                        if isinstance(x, ast.Name):
                            st[x.id] = tt
                elif isinstance(tg, ast.Subscript) and isinstance(tg.value, ast.Name):
                    m = tg.value.id
                    cur = st.get(m, U)
                    # value tags -> MAPC ; key provenance -> KEYSC
                    key = tg.slice
                    keytag = self.tag(key, st) if isinstance(key, ast.Name) else U
                    if t == C and cur in ('EMPTYMAP', MAPC):
                        st[m] = MAPC
                    elif isinstance(keytag, tuple) and keytag[0] == 'elem' and keytag[1] == C and cur in ('EMPTYMAP', KEYSC):
                        st[m] = KEYSC
                    elif cur in ('EMPTYMAP', KEYSC):
                        st[m] = U
            return
        if isinstance(s, ast.AugAssign) and node.kind == 'stmt':
            tg = s.target
            if isinstance(tg, ast.Name):
                a, b = st.get(tg.id, U), self.tag(s.value, st)
                st[tg.id] = C if a == C and b == C else (R if R in (a, b) else U)
            elif isinstance(tg, ast.Subscript) and isinstance(tg.value, ast.Name):
                m = tg.value.id
                key = tg.slice
                keytag = self.tag(key, st) if isinstance(key, ast.Name) else U
                cur = st.get(m, U)
                if isinstance(keytag, tuple) and keytag[0] == 'elem' and keytag[1] == C and cur in ('EMPTYMAP', KEYSC):
                    st[m] = KEYSC
                elif cur in ('EMPTYMAP', KEYSC):
                    st[m] = U
            return
        if isinstance(s, ast.Expr) and isinstance(s.value, ast.Call) and isinstance(s.value.func, ast.Attribute):
            # W1.setdefault(r1, set()).update(..) / W1.setdefault(r1, set()): a key enters the map
            sd = s.value if s.value.func.attr == 'setdefault' else s.value.func.value
            if isinstance(sd, ast.Call) and isinstance(sd.func, ast.Attribute) and sd.func.attr == 'setdefault' and isinstance(sd.func.value, ast.Name) and sd.args:
                m = sd.func.value.id
                cur = st.get(m, U)
                keytag = self.tag(sd.args[0], st) if isinstance(sd.args[0], ast.Name) else U
                if cur in ('EMPTYMAP', KEYSC):
                    st[m] = KEYSC if keytag == ('elem', C) else U
                return
        if isinstance(s, ast.Expr) and isinstance(s.value, ast.Call) and isinstance(s.value.func, ast.Attribute) and isinstance(s.value.func.value, ast.Name):
            m = s.value.func.value.id
            if s.value.func.attr == 'update' and s.value.args and st.get(m, U) in (C, R):
                a, b = st.get(m, U), self.tag(s.value.args[0], st)
                st[m] = C if a == C and b == C else (R if R in (a, b) else U)
                return
            if s.value.func.attr == 'append' and s.value.args:
                t = self.tag(s.value.args[0], st)
                cur = st.get(m, U)
                if cur in ('EMPTYLIST', LISTC) and t == C:
                    st[m] = LISTC
                elif cur in ('EMPTYLIST', LISTC, 'HIST'):
                    st[m] = 'HIST' if cur != LISTC or t != C else LISTC
                    if t != C:
                        st[m] = 'HIST'
                self.history.append((m, t, s))

    def _is_fback(self, comp, st):
        # [q for q in N.Q if not Eq[q].isdisjoint(N.F)]
        if len(comp.generators) != 1 or not comp.generators[0].ifs:
            return False
        c = comp.generators[0].ifs[0]
        for n in ast.walk(c):
            if isinstance(n, ast.Call) and isinstance(n.func, ast.Attribute) and n.func.attr == 'isdisjoint' and n.args and u(n.args[0]).endswith('.F'):
                return self.tag(n.func.value, st) == C
        return False

    # -- requirements ---------------------------------------------------------------------------------------------------
    def state_at(self, node_expr):
        fx = self.ctx.facts(self.f)
        nid = fx.stmt_of_expr(node_expr)
        return self.states.get(nid, {}), nid

    def _is_F(self, e):
        t = u(e)
        if t.endswith('.F'):
            return True
        if isinstance(e, ast.Name):
            from .models import single_def
            return any(u(d).endswith('.F') for d in single_def(self.f, e.id))
        return False

    def require(self, kind, node, tag, what, ok_tags=(C,)):
        key = (kind, id(node))
        if key in self.reported or id(node) in getattr(self, 'dead', ()):
            return
        self.reported.add(key)
        base = tag[1] if isinstance(tag, tuple) and tag[0] == 'elem' else tag
        if tag in ok_tags or (isinstance(tag, tuple) and tag[0] == 'elem' and tag[1] in ok_tags):
            self.rep.holds(RULE + '.' + kind, self.f, node, what + ': operand is epsilon-closed')
        elif base == R:
            self.rep.violates(RULE + '.' + kind, self.f, node, what + ': the operand is not epsilon-closed (a run that needs a further epsilon move is lost)')
        else:
            self.rep.undecided(RULE + '.' + kind, self.f, node, what + ': closedness of the operand is not established by a recognised closure')

    def check(self):
        self.run()
        n = 0
        # the requirement sites inside nested multi-statement helpers, analysed with the tags of their call sites (joined)
        if getattr(self, '_depth', 0) <= 2:
            calls_of = {}
            for e in walk_no_nested(self.f.node):
                if isinstance(e, ast.Call) and isinstance(e.func, ast.Name) and e.func.id in self.f.nested and self._local_wrapper(e) is None:
                    g = self.f.nested[e.func.id]
                    if len(g.params) < len(e.args) or any(isinstance(a, ast.Starred) for a in e.args) or any(k.arg is None or k.arg not in g.params for k in e.keywords):
                        continue
                    st, nid = self.state_at(e)
                    init = dict(st)
                    bound = dict(zip(g.params, e.args))
                    bound.update({k.arg: k.value for k in e.keywords})
                    for p in g.params:
                        init[p] = self.tag(bound[p], st) if p in bound else U
                    # parameters that are None at this call (left at a None default, or passed None): the helper's
                    # `if p is not None:` parts do not run for this call -- call sites are grouped by that pattern
                    ndef = len(g.node.args.defaults)
                    dflt = dict(zip(g.params[len(g.params) - ndef:], g.node.args.defaults))
                    nones = tuple(sorted(p for p in g.params if (p in bound and isinstance(bound[p], ast.Constant) and bound[p].value is None)
                                         or (p not in bound and isinstance(dflt.get(p), ast.Constant) and dflt[p].value is None)))
                    gkey = (g.name, nones)
                    prev = calls_of.get(gkey)
                    if prev is None:
                        calls_of[gkey] = (g, init)
                    else:
                        merged = {}
                        for k in set(prev[1]) | set(init):
                            merged[k] = join(prev[1].get(k), init.get(k)) if (k in prev[1] and k in init) else U
                        calls_of[gkey] = (g, merged)
            for (name, nones), (g, init) in sorted(calls_of.items()):
                sub = Closed(self.ctx, self.rep, g, cache_summary=self.cache_summary)
                sub._depth = getattr(self, '_depth', 0) + 1
                sub.init = init
                sub.dead = _dead_for_none(g, nones)
                sub.reported = self.__dict__.setdefault('_nested_reported', {}).setdefault(g.qualname, set())
                n += sub.check()
        for e in walk_no_nested(self.f.node):
            # (i) acceptance decisions
            if isinstance(e, ast.Call) and isinstance(e.func, ast.Attribute) and e.func.attr == 'isdisjoint' and e.args and self._is_F(e.args[0]):
                st, nid = self.state_at(e)
                # inside a comprehension defining FBACK the operand is Eq[q]
                self.require('i', e, self._tag_in_context(e.func.value, st, e), 'acceptance decision `{}`'.format(u(e)))
                n += 1
            if isinstance(e, ast.Call) and isinstance(e.func, ast.Name) and e.func.id == 'any' and e.args and isinstance(e.args[0], ast.GeneratorExp):
                g = e.args[0]
                c = g.elt
                if isinstance(c, ast.Compare) and isinstance(c.ops[0], ast.In) and self._is_F(c.comparators[0]):
                    st, nid = self.state_at(e)
                    self.require('i', e, self.tag(g.generators[0].iter, st), 'acceptance decision `{}`'.format(u(e)))
                    n += 1
            if isinstance(e, ast.Compare) and len(e.ops) == 1 and isinstance(e.ops[0], ast.In) and self._is_F(e.comparators[0]) and self._is_if_test(e):
                st, nid = self.state_at(e)
                lt = e.left
                base = lt.value if isinstance(lt, ast.Attribute) else lt
                t = self.tag(base, st)
                self.require('i', e, t, 'acceptance decision `{}`'.format(u(e)), ok_tags=(C,))
                n += 1
            # (i) a witness picked from the set:  next((r for r in X if r in F), None)  /  [r for r in X if r in F]
            if isinstance(e, (ast.GeneratorExp, ast.ListComp, ast.SetComp)) and len(e.generators) == 1 and len(e.generators[0].ifs) == 1 and isinstance(e.generators[0].target, ast.Name):
                c0 = e.generators[0].ifs[0]
                if isinstance(c0, ast.Compare) and len(c0.ops) == 1 and isinstance(c0.ops[0], ast.In) and u(c0.left) == e.generators[0].target.id and self._is_F(c0.comparators[0]) \
                        and not self._inside_any(e) and self._decides(e):
                    st, nid = self.state_at(e)
                    self.require('i', e, self.tag(e.generators[0].iter, st), 'accepting state picked from `{}`'.format(u(e.generators[0].iter)))
                    n += 1
            # (i) symmetric spelling:  F.isdisjoint(<state set>)
            if isinstance(e, ast.Call) and isinstance(e.func, ast.Attribute) and e.func.attr == 'isdisjoint' and e.args and self._is_F(e.func.value) and not self._is_F(e.args[0]):
                st, nid = self.state_at(e)
                self.require('i', e, self._tag_in_context(e.args[0], st, e), 'acceptance decision `{}`'.format(u(e)))
                n += 1
            # (i') acceptance decision delegated to a local helper:  def is_accepting(q): return not q.isdisjoint(N.F)
            if isinstance(e, ast.Call) and isinstance(e.func, ast.Name) and e.func.id in self.f.nested and len(e.args) == 1:
                g = self.f.nested[e.func.id]
                ps = [p for p in g.params if p != 'self']
                if len(ps) == 1 and any(isinstance(x, ast.Call) and isinstance(x.func, ast.Attribute) and x.func.attr == 'isdisjoint' and isinstance(x.func.value, ast.Name) and x.func.value.id == ps[0]
                                        and x.args and u(x.args[0]).endswith('.F') for x in ast.walk(g.node)):
                    st, nid = self.state_at(e)
                    self.require('i', e, self.tag(e.args[0], st), 'acceptance decision `{}` (through the local helper {})'.format(u(e), g.name))
                    n += 1
            # (t) the step is total: the unbound set.union(*sets) / set.intersection(*sets) needs at least one set, and the
            # current state set of a simulation is empty as soon as every run has died
            if isinstance(e, ast.Call) and isinstance(e.func, ast.Attribute) and e.func.attr in ('union', 'intersection') and isinstance(e.func.value, ast.Name) \
                    and e.func.value.id in ('set', 'frozenset') and e.args and all(isinstance(a, ast.Starred) for a in e.args) and not e.keywords:
                st, nid = self.state_at(e)
                if e.func.value.id not in st:
                    a0 = e.args[0].value
                    src = a0.generators[0].iter if isinstance(a0, (ast.ListComp, ast.GeneratorExp, ast.SetComp)) and len(a0.generators) == 1 and not a0.generators[0].ifs else None
                    t = self.tag(src, st) if src is not None else U
                    fx = self.ctx.facts(self.f)
                    atoms = fx.guard_atoms(nid) if nid is not None else []
                    nonempty = src is not None and any((a[0] == 'truthy' and a[3] is True and a[1] == u(src)) or (a[0] == 'empty' and a[3] is False and a[1] == u(src)) for a in atoms)
                    key = ('total', id(e))
                    if key not in self.reported:
                        self.reported.add(key)
                        n += 1
                        if nonempty:
                            self.rep.holds(RULE + '.total', self.f, e, '`{}` is evaluated only for a non-empty {}'.format(u(e), u(src)))
                        elif t in (C, R) and len(e.args) == 1:
                            self.rep.violates(RULE + '.total', self.f, e, '`{}` raises TypeError (unbound method needs an argument) when the state set {} is empty, i.e. when every run has died before the end of the word: the acceptance test must answer False there (`set().union(*...)` is total)'.format(u(e), u(src)))
                        else:
                            self.rep.undecided(RULE + '.total', self.f, e, 'unbound `{}`: non-emptiness of the argument list is not established'.format(u(e)))
            # (ii) symbol steps
            if isinstance(e, ast.Call) and self.ctx.callee_name(self.f, e) in STEPS and len(e.args) >= 3:
                st, nid = self.state_at(e)
                src = e.args[2]
                if isinstance(src, ast.Set) and len(src.elts) == 1:
                    t = self.tag(src.elts[0], st)
                else:
                    t = self.tag(src, st)
                self.require('ii', e, t, 'symbol step `{}`'.format(u(e)))
                n += 1
            # (ii') symbol step inside a local one-expression helper: decided at each call of the helper
            h = self._local_wrapper(e) if isinstance(e, ast.Call) else None
            if h is not None:
                for x in ast.walk(h[0]):
                    if isinstance(x, ast.Call) and self.ctx.callee_name(self.f.nested[e.func.id], x) in STEPS and len(x.args) >= 3:
                        st, nid = self.state_at(e)
                        st2 = h[1](st)
                        src = x.args[2]
                        t = self.tag(src.elts[0], st2) if isinstance(src, ast.Set) and len(src.elts) == 1 else self.tag(src, st2)
                        self.require('ii', e, t, 'symbol step `{}` (through the local helper {})'.format(u(x), e.func.id))
                        n += 1
        # (ii) iteration whose element indexes a transition map / step cache with a symbol
        for lp in walk_no_nested(self.f.node):
            gens = []
            if isinstance(lp, ast.For):
                gens.append((lp.target, lp.iter, lp.body, lp))
            if isinstance(lp, (ast.ListComp, ast.GeneratorExp, ast.SetComp)):
                for g in lp.generators:
                    gens.append((g.target, g.iter, [lp.elt], lp))
            for (tgt, it, body, node) in gens:
                if not isinstance(tgt, ast.Name):
                    continue
                uses = False
                for b in body:
                    for s in ast.walk(b):
                        key = None
                        if isinstance(s, ast.Subscript) and isinstance(s.slice, ast.Tuple) and len(s.slice.elts) == 2:
                            key = s.slice.elts
                        if isinstance(s, ast.Call) and isinstance(s.func, ast.Attribute) and s.func.attr == 'get' and s.args and isinstance(s.args[0], ast.Tuple) and len(s.args[0].elts) == 2:
                            key = s.args[0].elts
                        if key is not None and u(key[0]) == tgt.id and not u(key[1]).endswith('epsilon'):
                            uses = True
                if uses:
                    st, nid = self.state_at(it)
                    self.require('ii', node if isinstance(node, ast.For) else it, self.tag(it, st), 'symbol step from the states of `{}`'.format(u(it)))
                    n += 1
        return n

    def _decides(self, gen):
        """the generator is the first argument of next(.., default): the pick doubles as the acceptance decision"""
        for c in walk_no_nested(self.f.node):
            if isinstance(c, ast.Call) and isinstance(c.func, ast.Name) and c.func.id == 'next' and len(c.args) == 2 and c.args[0] is gen:
                return True
        return False

    def _is_if_test(self, e):
        for c in walk_no_nested(self.f.node):
            if isinstance(c, ast.If) and c.test is e:
                return True
        return False

    def _inside_any(self, e):
        for c in walk_no_nested(self.f.node):
            if isinstance(c, ast.Call) and isinstance(c.func, ast.Name) and c.func.id == 'any' and any(x is e for x in ast.walk(c)):
                return True
        return False

    def _tag_in_context(self, e, st, site):
        # operand inside a comprehension: bind the comprehension variables
        for c in walk_no_nested(self.f.node):
            if isinstance(c, (ast.ListComp, ast.GeneratorExp, ast.SetComp)) and any(x is site for x in ast.walk(c)):
                return self.tag(e, self._comp_env(c, st))
        return self.tag(e, st)


def cache_summary(ctx, rep, f):
    """_nfa_cache: both returned maps only ever receive closed sets"""
    a = Closed(ctx, rep, f)
    a.run()
    rets = [r for r in walk_no_nested(f.node) if isinstance(r, ast.Return) and isinstance(r.value, ast.Tuple)]
    if len(rets) != 1:
        rep.undecided(RULE + '.cache', f, 'def ' + f.name, 'return (Eq, Eqa) not recognised')
        return {}
    st = a.states.get(a.cfg.n_of(rets[0]), {})
    tags = tuple(st.get(x.id, U) if isinstance(x, ast.Name) else U for x in rets[0].value.elts)
    for x, t in zip(rets[0].value.elts, tags):
        if t == MAPC:
            rep.holds(RULE + '.cache', f, 'cache ' + u(x), 'every value stored in {} is an epsilon closure or a union of closures'.format(u(x)))
        else:
            # find a store that is not closed
            bad = None
            for s in walk_no_nested(f.node):
                if isinstance(s, ast.Assign) and isinstance(s.targets[0], ast.Subscript) and u(s.targets[0].value) == u(x):
                    stt = a.states.get(a.cfg.n_of(s), {})
                    if a.tag(s.value, stt) != C:
                        bad = s
            if bad is not None and a.tag(bad.value, a.states.get(a.cfg.n_of(bad), {})) == R:
                rep.violates(RULE + '.cache', f, bad, 'the cache {} receives a value that is not epsilon-closed'.format(u(x)))
            else:
                rep.undecided(RULE + '.cache', f, 'cache ' + u(x), 'closedness of the cached values not established')
    return {'ret': tags}


def check_history(ctx, rep, f):
    """(iv) the simulation history alternates raw and closed sets"""
    a = Closed(ctx, rep, f)
    a.run()
    seq = [(m, t, s) for (m, t, s) in a.history if not (isinstance(t, tuple) and t and t[0] == 'tuple')]
    if not seq:
        rep.undecided(RULE + '.iv', f, 'def ' + f.name, 'no history appends found')
        return
    # order by source position; the dataflow may visit twice.  Each list is judged on its own: a list that only ever
    # receives closed sets (or only raw ones) is a column of the history, a list that receives both must alternate
    seen = {}
    for (m, t, s) in seq:
        seen[id(s)] = (s.lineno, m, t, s)
    by_list = {}
    for v in sorted(seen.values(), key=lambda v: v[0]):
        by_list.setdefault(v[1], []).append(v)
    for m, ordered in sorted(by_list.items()):
        tags = [t for (_, _, t, _) in ordered]
        want = [R, C] * (len(tags) // 2)
        if tags == want and len(tags) % 2 == 0:
            rep.holds(RULE + '.iv', f, ordered[0][3], 'the history {} receives raw and epsilon-closed sets alternately ({} appends)'.format(m, len(tags)))
        elif all(t == C for t in tags) or all(t == R for t in tags):
            rep.holds(RULE + '.iv', f, ordered[0][3], 'the list {} only receives {} sets ({} appends): one column of the history'.format(m, 'epsilon-closed' if tags[0] == C else 'raw', len(tags)))
        elif any(t not in (R, C) for t in tags):
            rep.undecided(RULE + '.iv', f, ordered[0][3], 'closedness of a history entry is not established: {}'.format(tags))
        else:
            rep.violates(RULE + '.iv', f, ordered[0][3], 'the history must alternate raw and closed sets (the backward walk pops them in pairs); found {}'.format(tags))


def _is_namer(ctx, f, e):
    """call of a function that turns a set of states into the name of a DFA state (its body prints the set with
    print_state_set), or print_state_set itself"""
    if not (isinstance(e, ast.Call) and e.args):
        return False
    if ctx.callee_name(f, e) == 'print_state_set':
        return True
    cal = ctx.callee(f, e)
    if cal is None:
        return False
    ps = [p for p in cal.params if p != 'self']
    if len(ps) != 1:
        return False
    return any(isinstance(c, ast.Call) and ctx.callee_name(cal, c) == 'print_state_set' and c.args and u(c.args[0]) == ps[0] for c in ast.walk(cal.node))


def check_subset_names(ctx, rep, f):
    """(iii) nfa_to_dfa: every subset that is named, enqueued or tested against F is closed.  The namer is recognised by
    what it does (it prints the subset with print_state_set), the worklist by its loop (emptiness test + pop).  Sites
    inside nested helpers (def visit(R): label = state(R); ...; todo.append(R)) are judged with the tags of their callers."""
    from .work import find_worklist_loops
    worklists = {wl.wl for wl in find_worklist_loops(ctx, f)} or {'todo'}

    def sites(a, g, depth):
        n = 0
        for e in walk_no_nested(g.node):
            if _is_namer(ctx, g, e) and not any(_is_namer(ctx, g, x) for x in ast.walk(e.args[0]) if x is not e):
                st, nid = a.state_at(e)
                a.require('iii', e, a.tag(e.args[0], st), 'subset `{}` becomes a DFA state name'.format(u(e.args[0])))
                n += 1
            if isinstance(e, ast.Call) and isinstance(e.func, ast.Attribute) and e.func.attr in ('append', 'add') and u(e.func.value) in worklists and e.args:
                st, nid = a.state_at(e)
                arg = e.args[0]
                parts = [arg]
                if isinstance(arg, ast.Tuple):
                    # (name, subset) pairs: the subsets are the components with a closedness tag
                    parts = [x for x in arg.elts if a.tag(x, st) in (C, R)] or [x for x in arg.elts if not _is_namer(ctx, g, x)]
                for x in parts:
                    a.require('iii', e if len(parts) == 1 else x, a.tag(x, st), 'subset `{}` is enqueued for expansion'.format(u(x)))
                    n += 1
        if depth < 2:
            calls_of = {}
            for e in walk_no_nested(g.node):
                if isinstance(e, ast.Call) and isinstance(e.func, ast.Name) and e.func.id in g.nested and not e.keywords and a._local_wrapper(e) is None:
                    h = g.nested[e.func.id]
                    if len(h.params) != len(e.args) or any(isinstance(x, ast.Starred) for x in e.args):
                        continue
                    st, nid = a.state_at(e)
                    init = dict(st)
                    for p, x in zip(h.params, e.args):
                        init[p] = a.tag(x, st)
                    prev = calls_of.get(h.name)
                    if prev is None:
                        calls_of[h.name] = (h, init)
                    else:
                        calls_of[h.name] = (h, {k: (join(prev[1].get(k), init.get(k)) if (k in prev[1] and k in init) else U) for k in set(prev[1]) | set(init)})
            for name, (h, init) in sorted(calls_of.items()):
                sub = Closed(ctx, rep, h, cache_summary=a.cache_summary)
                sub._depth = depth + 1
                sub.init = init
                sub.run()
                n += sites(sub, h, depth + 1)
        return n
    a = Closed(ctx, rep, f)
    a.run()
    return sites(a, f, 0)


def check_function(ctx, rep, f, cache=None):
    a = Closed(ctx, rep, f, cache_summary=cache)
    return a.check()


def check_checker_targets(ctx, rep, f):
    """NFA->DFA checker: the recomputed target compared with the submitted one is epsilon-closed"""
    a = Closed(ctx, rep, f)
    a.run()
    n = 0
    for e in walk_no_nested(f.node):
        if isinstance(e, ast.Compare) and len(e.ops) == 1 and isinstance(e.ops[0], (ast.NotEq, ast.Eq)):
            st, nid = a.state_at(e)
            sides = [e.left, e.comparators[0]]
            tags = [a.tag(x, st) for x in sides]
            # the side that the checker computed from the NFA (a step, a closure, directly or in a local helper)
            computed = [i for i, t in enumerate(tags) if t in (C, R)]
            if len(computed) == 1:
                x = sides[computed[0]]
                a.require('iii', e, tags[computed[0]], 'recomputed target `{}` compared with the submitted target'.format(u(x)))
                n += 1
    return n
