"""R-ARITY, R-SLOT, R-TM, R-SYM."""
import ast

from ..astutil import u, names_in, walk_no_nested, atoms_of, must_atoms
from ..model import norm
from .models import single_def, resolve_alias

# ---- R-ARITY ------------------------------------------------------------------------------------------------


def _is_symbols_expr(e):
    """<x>.alternative.symbols / <x>.symbols"""
    return isinstance(e, ast.Attribute) and e.attr == 'symbols'


def symbols_containers(f):
    """names C with `C[...].append(<symbols expr>)` in f (maps from variables to right-hand sides), with the
    length guard under which the append happens (None if unguarded)"""
    out = {}
    for n in walk_no_nested(f.node):
        if isinstance(n, ast.Call) and isinstance(n.func, ast.Attribute) and n.func.attr == 'append' and n.args and _is_symbols_expr(n.args[0]):
            base = n.func.value
            if isinstance(base, ast.Subscript) and isinstance(base.value, ast.Name):
                out[base.value.id] = n
    return out


def _check_arity_direct(ctx, rep, f, rule):
    """positions of a right-hand side read directly (symbols = rule.alternative.symbols; (symbols[0], symbols[1])) or a
    right-hand side unpacked directly need len(symbols) == k known at the use"""
    n = 0
    for g in [f] + list(f.nested.values()):
        gx = ctx.facts(g)
        rhs_names = {}
        for st in walk_no_nested(g.node):
            if isinstance(st, ast.Assign) and len(st.targets) == 1 and isinstance(st.targets[0], ast.Name) and _is_symbols_expr(st.value):
                rhs_names[st.targets[0].id] = st
        groups = {}
        for x in walk_no_nested(g.node):
            if isinstance(x, ast.Subscript) and isinstance(x.ctx, ast.Load) and isinstance(x.slice, ast.Constant) and isinstance(x.slice.value, int) \
                    and ((isinstance(x.value, ast.Name) and x.value.id in rhs_names) or _is_symbols_expr(x.value)):
                groups.setdefault(u(x.value), []).append(x)
        for src, uses in sorted(groups.items()):
            n += 1
            bad = None
            ks = set()
            for x in uses:
                k = None
                st_id = gx.stmt_of_expr(x)
                for a in gx.guard_atoms(st_id) if st_id is not None else []:
                    if a[0] == 'lencmp' and a[1] == src and ((a[3] is True and a[2][0] == 'Eq') or (a[3] is False and a[2][0] == 'NotEq')):
                        k = a[2][1]
                if k is None and st_id is not None:
                    for root in gx._own_roots(gx.cfg.node[st_id]):
                        for e, pol in _local_guards(root, x):
                            k = _len_test(e, pol, src) if k is None else k
                if k is None or not (-k <= x.slice.value < k):
                    bad = x
                    break
                ks.add(k)
            if bad is not None:
                rep.violates(rule, g, bad, 'position {} of the right-hand side {} (of length 0, 1 or 2 in a grammar in normal form) is read without a len({}) == k test that covers it'.format(bad.slice.value, src, src))
            else:
                rep.holds(rule, g, uses[0], 'positions of the right-hand side `{}` are read only where len({}) == {} is known'.format(src, src, sorted(ks)[0]))
    return n


def check_arity(ctx, rep, f, rule='R-ARITY'):
    """Unpacking an element of a map of right-hand sides into k names requires a dominating len == k test."""
    conts = symbols_containers(f)
    if not conts:
        return _check_arity_direct(ctx, rep, f, rule)
    fx = ctx.facts(f)
    guarded_len = {}
    for cname, app in conts.items():
        nid = fx.stmt_of_expr(app)
        k = None
        for a in fx.guard_atoms(nid) if nid is not None else []:
            if a[0] == 'lencmp' and a[3] is True and a[2][0] == 'Eq' and a[1] == u(app.args[0]):
                k = a[2][1]
        guarded_len[cname] = k
    n = 0
    units = [f] + list(f.nested.values())
    # parameters of nested helpers that receive C[...] (elements: right-hand sides of arbitrary length)
    param_src = {}
    for g in units:
        for c in ctx.prog.calls_in(g):
            cal = ctx.callee(g, c)
            if cal is not None and cal in f.nested.values():
                for i, a in enumerate(c.args):
                    if isinstance(a, ast.Subscript) and isinstance(a.value, ast.Name) and a.value.id in conts and i < len(cal.pos_params):
                        param_src[(cal.qualname, cal.pos_params[i].arg)] = a.value.id
    for g in units:
        gx = ctx.facts(g)
        for st in walk_no_nested(g.node):
            if not (isinstance(st, ast.Assign) and len(st.targets) == 1 and isinstance(st.targets[0], ast.Tuple) and isinstance(st.value, ast.Name)):
                continue
            k = len(st.targets[0].elts)
            src = st.value.id
            # src iterates over a symbols container?
            cname = None
            for lp in walk_no_nested(g.node):
                if isinstance(lp, ast.For) and isinstance(lp.target, ast.Name) and lp.target.id == src:
                    it = lp.iter
                    if isinstance(it, ast.Subscript) and isinstance(it.value, ast.Name) and it.value.id in conts:
                        cname = it.value.id
                    elif isinstance(it, ast.Name) and (g.qualname, it.id) in param_src:
                        cname = param_src[(g.qualname, it.id)]
            if cname is None:
                continue
            n += 1
            if guarded_len.get(cname) == k:
                rep.holds(rule, g, st, 'elements of {} were stored under len == {}'.format(cname, k))
                continue
            atoms = gx.guard_atoms(gx.cfg.n_of(st))
            ok = any(a[0] == 'lencmp' and a[3] is True and a[1] == src and a[2] == ('Eq', k) for a in atoms) or \
                any(a[0] == 'lencmp' and a[3] is False and a[1] == src and a[2] == ('NotEq', k) for a in atoms)
            if ok:
                rep.holds(rule, g, st, 'unpacking into {} names is dominated by len({}) == {}'.format(k, src, k))
            else:
                rep.violates(rule, g, st, 'a right-hand side taken from {} (all alternatives of a variable, of length 0, 1 or 2) is unpacked into {} names without a len({}) == {} test: ValueError when a terminal or epsilon alternative precedes the binary one'.format(cname, k, src, k))
    n += _check_arity_indexed(ctx, rep, f, rule, conts, guarded_len, param_src, units)
    return n


def _local_guards(root, target):
    """(expr, polarity) pairs known when `target` is evaluated inside the expression / comprehension `root`:
    earlier operands of an `and` (true) / `or` (false), the test of a conditional expression, the filters of a
    comprehension (all of them for the element, the earlier ones for a later filter)."""
    out = []

    def has(e):
        return any(x is target for x in ast.walk(e))

    def go(e):
        if e is target:
            return
        if isinstance(e, ast.BoolOp):
            for i, v in enumerate(e.values):
                if has(v):
                    out.extend((w, isinstance(e.op, ast.And)) for w in e.values[:i])
                    go(v)
                    return
        if isinstance(e, ast.IfExp):
            if has(e.body):
                out.append((e.test, True)); go(e.body); return
            if has(e.orelse):
                out.append((e.test, False)); go(e.orelse); return
        if isinstance(e, (ast.ListComp, ast.SetComp, ast.GeneratorExp, ast.DictComp)):
            seen = []
            for gen in e.generators:
                if has(gen.iter):
                    out.extend(seen); go(gen.iter); return
                for c in gen.ifs:
                    if has(c):
                        out.extend(seen); go(c); return
                    seen.append((c, True))
            out.extend(seen)
            for part in ([e.key, e.value] if isinstance(e, ast.DictComp) else [e.elt]):
                if has(part):
                    go(part); return
            return
        for c in ast.iter_child_nodes(e):
            if isinstance(c, ast.AST) and has(c):
                go(c)
                return
    go(root)
    return out


def _len_test(e, pol, src):
    """k if (e, pol) says len(src) == k"""
    if isinstance(e, ast.BoolOp) and isinstance(e.op, ast.And) and pol:
        for v in e.values:
            k = _len_test(v, True, src)
            if k is not None:
                return k
    if isinstance(e, ast.UnaryOp) and isinstance(e.op, ast.Not):
        return _len_test(e.operand, not pol, src)
    if isinstance(e, ast.Compare) and len(e.ops) == 1:
        a, b = e.left, e.comparators[0]
        if isinstance(a, ast.Constant):
            a, b = b, a
        if isinstance(a, ast.Call) and isinstance(a.func, ast.Name) and a.func.id == 'len' and len(a.args) == 1 and u(a.args[0]) == src \
                and isinstance(b, ast.Constant) and isinstance(b.value, int):
            if (isinstance(e.ops[0], ast.Eq) and pol) or (isinstance(e.ops[0], ast.NotEq) and not pol):
                return b.value
    return None


def _check_arity_indexed(ctx, rep, f, rule, conts, guarded_len, param_src, units):
    """The index form of the same obligation: `BC[0]`, `BC[1]` on an element BC of a map of right-hand sides (a
    statement loop or a comprehension over it) needs len(BC) == k with both positions inside, known at the use."""
    n = 0
    for g in units:
        gx = ctx.facts(g)

        def container_of(it):
            if isinstance(it, ast.Subscript) and isinstance(it.value, ast.Name) and it.value.id in conts:
                return it.value.id
            if isinstance(it, ast.Name) and (g.qualname, it.id) in param_src:
                return param_src[(g.qualname, it.id)]
            return None
        loops = []     # (src, container, scope node)
        for nd in walk_no_nested(g.node):
            if isinstance(nd, ast.For) and isinstance(nd.target, ast.Name) and container_of(nd.iter):
                loops.append((nd.target.id, container_of(nd.iter), nd))
            if isinstance(nd, (ast.ListComp, ast.SetComp, ast.GeneratorExp, ast.DictComp)):
                for gen in nd.generators:
                    if isinstance(gen.target, ast.Name) and container_of(gen.iter):
                        loops.append((gen.target.id, container_of(gen.iter), nd))
        for src, cname, scope in loops:
            uses = [x for x in ast.walk(scope) if isinstance(x, ast.Subscript) and isinstance(x.value, ast.Name) and x.value.id == src
                    and isinstance(x.slice, ast.Constant) and isinstance(x.slice.value, int) and isinstance(x.ctx, ast.Load)]
            if not uses:
                continue
            n += 1
            bad = None
            ks = set()
            for x in uses:
                k = guarded_len.get(cname)
                if k is None:
                    if isinstance(scope, ast.For):
                        st_id = gx.stmt_of_expr(x)
                        for a in gx.guard_atoms(st_id) if st_id is not None else []:
                            if a[0] == 'lencmp' and a[1] == src and ((a[3] is True and a[2][0] == 'Eq') or (a[3] is False and a[2][0] == 'NotEq')):
                                k = a[2][1]
                        if k is None and st_id is not None:
                            for root in gx._own_roots(gx.cfg.node[st_id]):
                                for e, pol in _local_guards(root, x):
                                    k = _len_test(e, pol, src) if k is None else k
                    else:
                        for e, pol in _local_guards(scope, x):
                            k = _len_test(e, pol, src) if k is None else k
                if k is None or not (-k <= x.slice.value < k):
                    bad = x
                    break
                ks.add(k)
            if bad is not None:
                rep.violates(rule, g, bad, 'position {} of a right-hand side taken from {} (all alternatives of a variable, of length 0, 1 or 2) is read without a len({}) == k test that covers it: IndexError on a terminal or epsilon alternative, or a longer alternative silently truncated'.format(bad.slice.value, cname, src))
            else:
                rep.holds(rule, g, uses[0], 'positions of `{}` (an element of {}) are read only where len({}) == {} is known'.format(src, cname, src, sorted(ks)[0]))
    return n


# ---- R-SLOT -------------------------------------------------------------------------------------------------

def check_slots(ctx, rep, f, rule='R-SLOT'):
    """A list created with n placeholder sets whose slots are filled only under a condition must not be consumed
    over its whole index range without an emptiness (or membership) filter."""
    fx = ctx.facts(f)
    found = 0
    for st in walk_no_nested(f.node):
        val = st.value if isinstance(st, (ast.Assign, ast.AnnAssign)) else None
        if val is None or not isinstance(val, ast.ListComp):
            continue
        elt = val.elt
        is_placeholder = (isinstance(elt, ast.Call) and isinstance(elt.func, ast.Name) and elt.func.id in ('set', 'list', 'dict') and
                          (not elt.args or (isinstance(elt.args[0], ast.List) and not elt.args[0].elts))) or \
                         (isinstance(elt, (ast.List, ast.Set, ast.Dict)) and not getattr(elt, 'elts', getattr(elt, 'keys', None)))
        gen = val.generators[0]
        if not is_placeholder or not (isinstance(gen.iter, ast.Call) and isinstance(gen.iter.func, ast.Name) and gen.iter.func.id == 'range'):
            continue
        tgt = st.targets[0] if isinstance(st, ast.Assign) else st.target
        if not isinstance(tgt, ast.Name):
            continue
        C = tgt.id
        found += 1
        # fill sites: C[i].add(..) / C[i] = ..
        fills = []
        slot_alias = {n.targets[0].id for n in walk_no_nested(f.node) if isinstance(n, ast.Assign) and len(n.targets) == 1 and isinstance(n.targets[0], ast.Name)
                      and isinstance(n.value, ast.Subscript) and u(n.value.value) == C}
        for n in walk_no_nested(f.node):
            if isinstance(n, ast.Expr) and isinstance(n.value, ast.Call) and isinstance(n.value.func, ast.Attribute) and n.value.func.attr in ('add', 'update', 'append') \
                    and isinstance(n.value.func.value, ast.Subscript) and u(n.value.func.value.value) == C:
                fills.append(n)
            # block = C[i]; block.add(..)
            if isinstance(n, ast.Expr) and isinstance(n.value, ast.Call) and isinstance(n.value.func, ast.Attribute) and n.value.func.attr in ('add', 'update', 'append') \
                    and isinstance(n.value.func.value, ast.Name) and n.value.func.value.id in slot_alias:
                fills.append(n)
            if isinstance(n, ast.Assign) and isinstance(n.targets[0], ast.Subscript) and u(n.targets[0].value) == C:
                fills.append(n)
        conditional = []
        for n in fills:
            atoms = [a for a in fx.guard_atoms(fx.cfg.n_of(n)) if a[0] in ('in', 'truthy', 'eq', 'cmp')]
            if atoms:
                conditional.append(n)
        if not fills or len(conditional) < len(fills):
            rep.holds(rule, f, st, 'every slot of {} is filled unconditionally'.format(C), nontrivial=False)
            continue
        # consumption sites
        sites = []
        for n in walk_no_nested(f.node):
            # map(fn, C) / set(C) / for x in C / comprehension over C
            if isinstance(n, ast.Call) and isinstance(n.func, ast.Name) and n.func.id == 'map' and len(n.args) == 2 and u(n.args[1]) == C:
                sites.append((n, None, 'map over all slots'))
            if isinstance(n, ast.comprehension) and u(n.iter) == C:
                sites.append((n, n, 'comprehension over all slots'))
            if isinstance(n, ast.For) and u(n.iter) == C:
                # a loop whose body only iterates over the ELEMENTS of the slot does nothing for an empty placeholder
                if isinstance(n.target, ast.Name) and n.body and all(isinstance(b0, ast.For) and u(b0.iter) == n.target.id for b0 in n.body) and not n.orelse:
                    continue
                sites.append((n, None, 'loop over all slots'))
        # indexed consumption C[i] for i in range(..) in comprehensions and loops
        for n in walk_no_nested(f.node):
            if isinstance(n, (ast.GeneratorExp, ast.ListComp, ast.SetComp)) and len(n.generators) == 1 and isinstance(n.generators[0].target, ast.Name):
                i = n.generators[0].target.id
                subs = [s for s in ast.walk(n.elt) if isinstance(s, ast.Subscript) and u(s.value) == C and u(s.slice) == i]
                if subs:
                    sites.append((n, n.generators[0], 'indexed comprehension'))
            if isinstance(n, ast.For) and isinstance(n.target, ast.Name) and isinstance(n.iter, ast.Call) and isinstance(n.iter.func, ast.Name) and n.iter.func.id == 'range' and n is not None:
                i = n.target.id
                if any(x is n for x in [None]):
                    continue
                test_nodes = set()
                for b in ast.walk(n):
                    if isinstance(b, ast.If):
                        for a in atoms_of(b.test, True):
                            if a[0] in ('truthy', 'empty') and a[1] == '{}[{}]'.format(C, i):
                                test_nodes |= {id(x) for x in ast.walk(b.test)}
                for b in n.body:
                    for s in ast.walk(b):
                        if id(s) in test_nodes:
                            continue
                        if isinstance(s, ast.Subscript) and u(s.value) == C and u(s.slice) == i and isinstance(s.ctx, ast.Load):
                            # skip the fill loop itself
                            enclosing_fill = any(any(y is fl for y in ast.walk(n)) for fl in fills)
                            if not enclosing_fill:
                                sites.append((s, ('loop', n), 'indexed loop'))
        # any other direct read C[e] of a slot
        covered = {id(x) for (nd, g, w) in sites for x in ast.walk(nd if not isinstance(nd, ast.comprehension) else nd.iter)}
        for (nd, g, w) in sites:
            if isinstance(g, ast.comprehension):
                for owner in walk_no_nested(f.node):
                    if isinstance(owner, (ast.GeneratorExp, ast.ListComp, ast.SetComp)) and g in owner.generators:
                        covered |= {id(x) for x in ast.walk(owner)}
            if isinstance(g, tuple):
                covered |= {id(x) for x in ast.walk(g[1])}
        fill_nodes = {id(x) for fl in fills for x in ast.walk(fl)}
        for fl in fills:
            for l2 in walk_no_nested(f.node):
                if isinstance(l2, ast.For) and any(x is fl for x in ast.walk(l2)):
                    fill_nodes |= {id(x) for x in ast.walk(l2)}
        for s2 in walk_no_nested(f.node):
            if isinstance(s2, ast.Subscript) and u(s2.value) == C and isinstance(s2.ctx, ast.Load) and id(s2) not in covered and id(s2) not in fill_nodes \
                    and not isinstance(s2.slice, ast.Slice):
                sites.append((s2, ('direct', s2), 'direct slot read'))
        seen = set()
        for (node, gen, what) in sites:
            key = id(node)
            if key in seen:
                continue
            seen.add(key)
            ok = False
            if isinstance(gen, ast.comprehension):
                x = u(gen.target)
                for c in gen.ifs:
                    for a in atoms_of(c, True):
                        # emptiness filter on the element, or a membership condition on it (implies non-empty)
                        if (a[0] == 'truthy' and a[3] is True and (a[1] == x or a[1] == '{}[{}]'.format(C, x))) or \
                           (a[0] == 'empty' and a[3] is False and (a[1] == x or a[1] == '{}[{}]'.format(C, x))) or \
                           (a[0] == 'in' and a[3] is True and (a[2] == x or a[2] == '{}[{}]'.format(C, x))):
                            ok = True
            elif isinstance(gen, tuple) and gen[0] == 'direct':
                nid = fx.stmt_of_expr(node)
                atoms = must_atoms(fx).get(nid, frozenset()) if nid is not None else frozenset()
                tx = u(node)
                ok = any((a[0] == 'truthy' and a[3] is True and a[1] == tx) or (a[0] == 'empty' and a[3] is False and a[1] == tx) or (a[0] == 'in' and a[3] is True and a[2] == tx) for a in atoms)
                if not ok and isinstance(node.slice, ast.Name):
                    ix = node.slice.id

                    def filtered_comp(comp):
                        # a comprehension over the indices that keeps only the non-empty slots:  ... for i in range(n) if C[i]
                        for g0 in comp.generators:
                            if isinstance(g0.target, ast.Name):
                                want = '{}[{}]'.format(C, g0.target.id)
                                for c0 in g0.ifs:
                                    if any((a[0] == 'truthy' and a[3] is True and a[1] == want) or (a[0] == 'empty' and a[3] is False and a[1] == want) for a in atoms_of(c0, True)):
                                        return g0.target.id
                        return None
                    for owner in ast.walk(f.node):
                        # (a) the read sits in such a comprehension itself
                        if isinstance(owner, (ast.ListComp, ast.SetComp, ast.DictComp, ast.GeneratorExp)) and any(x is node for x in ast.walk(owner)) and filtered_comp(owner) == ix:
                            ok = True
                        # (b) the index ranges over a collection of indices that was built by such a comprehension
                        its = []
                        if isinstance(owner, ast.For) and any(x is node for b0 in owner.body for x in ast.walk(b0)):
                            its.append((owner.target, owner.iter))
                        if isinstance(owner, (ast.ListComp, ast.SetComp, ast.DictComp, ast.GeneratorExp)) and any(x is node for x in ast.walk(owner)):
                            its += [(g0.target, g0.iter) for g0 in owner.generators]
                        for tg0, it0 in its:
                            if isinstance(tg0, ast.Name) and tg0.id == ix and isinstance(it0, ast.Name):
                                defs0 = [d0 for d0 in walk_no_nested(f.node) if isinstance(d0, (ast.Assign, ast.AnnAssign)) and getattr(d0, 'value', None) is not None
                                         and any(isinstance(t0, ast.Name) and t0.id == it0.id for t0 in (d0.targets if isinstance(d0, ast.Assign) else [d0.target]))]
                                if len(defs0) == 1 and isinstance(defs0[0].value, (ast.ListComp, ast.SetComp, ast.DictComp)):
                                    v0 = defs0[0].value
                                    kx = filtered_comp(v0)
                                    key0 = v0.key if isinstance(v0, ast.DictComp) else v0.elt
                                    if kx is not None and u(key0) == kx:
                                        ok = True
            elif isinstance(gen, tuple) and gen[0] == 'loop':
                nid = fx.stmt_of_expr(node)
                loop = gen[1]
                i = loop.target.id
                atoms = must_atoms(fx).get(nid, frozenset()) if nid is not None else frozenset()
                for a in atoms:
                    if (a[0] == 'truthy' and a[3] is True and a[1] == '{}[{}]'.format(C, i)) or (a[0] == 'empty' and a[3] is False and a[1] == '{}[{}]'.format(C, i)):
                        ok = True
            if ok:
                rep.holds(rule, f, node if not isinstance(node, ast.comprehension) else node.iter, '{}: placeholder slots of {} are filtered out'.format(what, C))
            else:
                rep.violates(rule, f, node if not isinstance(node, ast.comprehension) else node.iter,
                             '{}: the list {} is created with empty placeholder sets, filled only under a condition, and consumed here over all slots without an emptiness filter: an empty block becomes a state of the result'.format(what, C))
    return found


# ---- R-TM ---------------------------------------------------------------------------------------------------

def _tm_skeleton(ctx, f):
    """(tape init, head init, padding, loop iter, step call, halting tests in order)"""
    sk = {}
    loops = [n for n in walk_no_nested(f.node) if isinstance(n, ast.For)]
    if len(loops) != 1:
        return None
    loop = loops[0]
    sk['iter'] = u(loop.iter)
    calls = [c for c in ctx.prog.calls_in(f) if ctx.callee_name(f, c) == 'tm_do_transition']
    if len(calls) != 1:
        return None
    sk['call'] = u(calls[0])
    call_stmt = [s for s in loop.body if any(x is calls[0] for x in ast.walk(s))]
    sk['call_target'] = u(call_stmt[0].targets[0]) if call_stmt and isinstance(call_stmt[0], ast.Assign) else None
    tests = []
    for s in loop.body:
        if isinstance(s, ast.If) and len(s.body) == 1 and isinstance(s.body[0], (ast.Return, ast.Break)):
            tests.append(u(s.test))
    sk['tests'] = tuple(tests)
    # relative order of the step call and the halting tests inside the loop body
    order = []
    for s in loop.body:
        if call_stmt and s is call_stmt[0]:
            order.append('step')
        elif isinstance(s, ast.If) and len(s.body) == 1 and isinstance(s.body[0], (ast.Return, ast.Break)):
            order.append('test')
    sk['order'] = tuple(order)
    pre = []
    for s in f.node.body:
        if s is loop:
            break
        if isinstance(s, ast.Assign) and isinstance(s.value, ast.List) and not s.value.elts:
            continue     # result = []
        if isinstance(s, ast.Expr) and isinstance(s.value, ast.Call) and isinstance(s.value.func, ast.Attribute) and s.value.func.attr == 'append' \
                and isinstance(s.value.func.value, ast.Name) and s.value.func.value.id in ('result',):
            continue
        if isinstance(s, ast.If):
            # pre-loop halting tests are compared separately
            if any(isinstance(b, ast.Return) for b in s.body) and not any(isinstance(b, ast.Expr) for b in s.body):
                pre.append(('halt-test', u(s.test)))
                continue
            pre.append((norm(s), tuple(norm(b) for b in s.body)))
            continue
        pre.append(norm(s))
    sk['pre'] = tuple(pre)
    return sk


def check_tm_loops(ctx, rep, f_acc, f_sim, rule='R-TM'):
    a, b = _tm_skeleton(ctx, f_acc), _tm_skeleton(ctx, f_sim)
    if a is None or b is None:
        rep.undecided(rule + '.agree', f_acc, 'def ' + f_acc.name, 'loop skeleton not recognised (one loop, one step call expected)')
    else:
        for k, what in (('iter', 'step budget'), ('call', 'step call'), ('call_target', 'step result binding'), ('tests', 'order and targets of the halting tests'),
                        ('order', 'position of the step relative to the halting tests')):
            if a[k] == b[k]:
                rep.holds(rule + '.agree', f_acc, what, 'verdict loop and trace loop agree on the {}: {}'.format(what, a[k]))
            else:
                rep.violates(rule + '.agree', f_acc, what, 'the verdict loop and the trace loop differ in the {}: {} vs {} -- the recorded trace and the verdict come from different machines'.format(what, a[k], b[k]))
        pa = [x for x in a['pre'] if not (isinstance(x, tuple) and x[0] == 'halt-test')]
        pb = [x for x in b['pre'] if not (isinstance(x, tuple) and x[0] == 'halt-test')]
        if pa == pb:
            rep.holds(rule + '.agree', f_acc, 'initial configuration', 'both loops start from the same initial tape, head and blank padding')
        else:
            rep.violates(rule + '.agree', f_acc, 'initial configuration', 'the two loops build different initial configurations: {} vs {}'.format(pa, pb))
    # step precondition: q is known to be non-halting at every call
    for f in (f_acc, f_sim):
        fx = ctx.facts(f)
        ma = must_atoms(fx)
        for c in ctx.prog.calls_in(f):
            if ctx.callee_name(f, c) != 'tm_do_transition' or len(c.args) < 2:
                continue
            q = u(c.args[1])
            nid = fx.stmt_of_expr(c)
            atoms = ma.get(nid, frozenset())
            halting = {'q_accept': False, 'q_reject': False}
            for at in atoms:
                if at[0] == 'eq' and at[3] is False and q in (at[1], at[2]):
                    other = at[2] if at[1] == q else at[1]
                    tgt = u(resolve_alias(f, ast.parse(other, mode='eval').body))
                    for h in halting:
                        if tgt.endswith('.' + h) or other == h:
                            halting[h] = True
                if at[0] == 'in' and at[3] is False and at[1] == q:
                    for h in halting:
                        if h in at[2]:
                            halting[h] = True
            if all(halting.values()):
                rep.holds(rule + '.pre', f, c, 'on every path to the step call the state {} has been tested to be neither accepting nor rejecting'.format(q))
            else:
                missing = [h for h, v in halting.items() if not v]
                rep.violates(rule + '.pre', f, c, 'the step function raises on a halting state, but a path reaches this call without testing {} against {}: a machine whose initial state is halting raises instead of giving the verdict'.format(q, ' / '.join(missing)))
    # returns inside the bounded loop only on halting states, with the right verdict
    fx = ctx.facts(f_acc)
    for r in [n for n in walk_no_nested(f_acc.node) if isinstance(n, ast.Return)]:
        nid = fx.cfg.n_of(r)
        atoms = fx.guard_atoms(nid)
        val = r.value.value if isinstance(r.value, ast.Constant) else '?'
        eqs = [(at[1], at[2]) for at in atoms if at[0] == 'eq' and at[3] is True]
        tg = None
        for x, y in eqs:
            for h in ('q_accept', 'q_reject'):
                if u(resolve_alias(f_acc, ast.parse(y, mode='eval').body)).endswith(h) or u(resolve_alias(f_acc, ast.parse(x, mode='eval').body)).endswith(h):
                    tg = h
        if val is True:
            if tg == 'q_accept':
                rep.holds(rule + '.verdict', f_acc, r, 'True is returned only in the accepting state')
            else:
                rep.violates(rule + '.verdict', f_acc, r, 'True is returned on a path where the state is not known to be the accepting state')
        elif val is False:
            if tg == 'q_reject':
                rep.holds(rule + '.verdict', f_acc, r, 'False is returned only in the rejecting state')
            else:
                rep.violates(rule + '.verdict', f_acc, r, 'False is returned on a path where the state is not known to be the rejecting state')
        elif val is None:
            loops = [n for n in walk_no_nested(f_acc.node) if isinstance(n, ast.For)]
            inside = loops and any(x is r for x in ast.walk(loops[0]))
            if inside:
                rep.violates(rule + '.verdict', f_acc, r, 'None (undecided) is returned before the step budget is used up')
            else:
                rep.holds(rule + '.verdict', f_acc, r, 'undecided only after the budget is exhausted', nontrivial=False)


def check_tm_budget(ctx, rep, fs, f_words, rule='R-TM.budget'):
    defaults = {}
    for f in fs:
        d = f.defaults.get('max_steps')
        defaults[f.name] = u(d) if d is not None else None
    if len(set(defaults.values())) == 1 and None not in defaults.values():
        rep.holds(rule, fs[0], 'default max_steps', 'the entry points share the default step budget {}'.format(list(defaults.values())[0]))
    else:
        rep.violates(rule, fs[0], 'default max_steps', 'the entry points have different default step budgets: {}'.format(defaults))
    for c in ctx.prog.calls_in(f_words):
        if ctx.callee_name(f_words, c) == 'tm_accepts_word':
            # bind the arguments to the parameters of the acceptance test as Python does: the budget must arrive in ITS budget
            # parameter (a flag inserted before max_steps would swallow a positional budget)
            cal = ctx.callee(f_words, c)
            passed = [u(k.value) for k in c.keywords if k.arg == 'max_steps']
            if cal is not None:
                pnames = [p.arg for p in cal.pos_params]
                passed += [u(a) for a, pn in zip(c.args, pnames) if pn == 'max_steps']
            else:
                passed += [u(a) for a in c.args[2:]]
            if 'max_steps' in passed:
                rep.holds(rule, f_words, c, 'the enumerator forwards its step budget to the acceptance test')
            else:
                rep.violates(rule, f_words, c, 'the enumerator does not forward its step budget: enumeration and acceptance run under different budgets')


# ---- R-SYM --------------------------------------------------------------------------------------------------

def _tags(f, p1, p2):
    """tag local names by the operand they derive from: 1, 2 or None"""
    tag = {p1: 1, p2: 2}
    pair_vars = set()
    for _ in range(6):
        changed = False
        for n in walk_no_nested(f.node):
            if isinstance(n, ast.Assign) and len(n.targets) == 1:
                t, v = n.targets[0], n.value
                if isinstance(t, ast.Name):
                    ts = {tag[x] for x in names_in(v) if x in tag}
                    if len(ts) == 1 and t.id not in tag:
                        tag[t.id] = ts.pop()
                        changed = True
                if isinstance(t, ast.Tuple) and len(t.elts) == 2 and all(isinstance(x, ast.Name) for x in t.elts):
                    # (q1, q2) = set_element(todo): positional
                    for i, x in enumerate(t.elts):
                        if x.id not in tag:
                            tag[x.id] = i + 1
                            changed = True
            if isinstance(n, (ast.For, ast.comprehension)) and isinstance(n.target, ast.Name):
                ts = {tag[x] for x in names_in(n.iter) if x in tag}
                if len(ts) == 1 and n.target.id not in tag:
                    tag[n.target.id] = ts.pop()
                    changed = True
            if isinstance(n, (ast.For, ast.comprehension)) and isinstance(n.target, ast.Tuple) and len(n.target.elts) == 2:
                for i, x in enumerate(n.target.elts):
                    if isinstance(x, ast.Name) and x.id not in tag:
                        tag[x.id] = i + 1
                        changed = True
        if not changed:
            break
    return tag


def check_symmetry(ctx, rep, f, rule='R-SYM'):
    """the use signatures of the two operands of an isomorphism test must be mirror images"""
    p1, p2 = f.pos_params[0].arg, f.pos_params[1].arg
    tag = _tags(f, p1, p2)

    def tg(e):
        ts = {tag[x] for x in names_in(e) if x in tag}
        return ts.pop() if len(ts) == 1 else (0 if not ts else 3)

    sigs = {1: [], 2: []}

    def add(t, s):
        if t in (1, 2):
            sigs[t].append(s)

    maps = set()
    for n in walk_no_nested(f.node):
        if isinstance(n, ast.Assign) and isinstance(n.value, (ast.Dict, ast.DictComp)) and isinstance(n.targets[0], ast.Name):
            maps.add(n.targets[0].id)
    for n in walk_no_nested(f.node):
        if isinstance(n, ast.Assign) and isinstance(n.targets[0], ast.Subscript) and u(n.targets[0].value) in maps:
            kt, vt = tg(n.targets[0].slice), tg(n.value)
            if kt in (1, 2):
                add(kt, ('map-store-key', vt if vt in (1, 2) and vt != kt else 0))
            elif kt == 3:
                add(1, ('pair-store',))
                add(2, ('pair-store',))
        if isinstance(n, ast.Compare) and len(n.ops) == 1 and isinstance(n.ops[0], (ast.In, ast.NotIn)):
            lt = tg(n.left)
            rhs = n.comparators[0]
            if u(rhs) in maps:
                add(lt, ('map-key-test',))
            elif isinstance(rhs, ast.Name) or isinstance(rhs, ast.Attribute):
                rt = tg(rhs)
                if lt == rt:
                    add(lt, ('own-set-membership',))
        if isinstance(n, ast.Subscript) and isinstance(n.ctx, ast.Load):
            if u(n.value) in maps:
                kt = tg(n.slice)
                if kt in (1, 2):
                    add(kt, ('map-read-key',))
                elif kt == 3:
                    add(1, ('pair-read',))
                    add(2, ('pair-read',))
            elif u(n.value).endswith('.delta'):
                add(tg(n.value), ('own-delta-step',))
        if isinstance(n, ast.Call) and isinstance(n.func, ast.Attribute) and n.func.attr == 'get' and u(n.func.value) in maps and n.args:
            add(tg(n.args[0]), ('map-read-key',))
        if isinstance(n, ast.For) and isinstance(n.target, ast.Name) and tg(n.iter) in (1, 2):
            # counting loop: for qX in QX: count ... for qY in QY
            inner = [m for m in n.body if isinstance(m, ast.For)]
            if inner:
                add(tg(n.iter), ('uniqueness-count-loop',))
    swap = {1: 2, 2: 1}
    a = sorted(sigs[1])
    b = sorted(tuple(swap.get(x, x) if isinstance(x, int) else x for x in sg) for sg in sigs[2])
    if a == b and a:
        rep.holds(rule, f, 'def ' + f.name, 'the two operands are used in mirror-image roles ({} use signatures each): {}'.format(len(a), sorted(set(x[0] for x in a))))
    elif not a and not b:
        rep.undecided(rule, f, 'def ' + f.name, 'no use signatures found')
    else:
        only1 = [x for x in a if a.count(x) > b.count(x)]
        only2 = [x for x in b if b.count(x) > a.count(x)]
        rep.violates(rule, f, 'def ' + f.name,
                     'the relation between the states of {} and {} is checked in one direction only: uses of the first operand without a mirror image: {}; of the second: {} -- a bijection needs the map and its inverse (functional and injective)'.format(
                         p1, p2, sorted(set(only1)), sorted(set(only2))))


def check_minimiser_siblings(ctx, rep, fs, rule='R-SIBLING'):
    """the minimisers agree on whether unreachable states are removed first (the checker compares state counts across them)"""
    sig = {}
    for f in fs:
        calls = set()
        for c in ctx.prog.calls_in(f):
            nm = ctx.callee_name(f, c)
            if nm in ('dfa_remove_unreachable_states', 'dfa_reachable_states'):
                calls.add(nm)
        sig[f.name] = calls
    vals = list(sig.values())
    if all(v == vals[0] for v in vals):
        rep.holds(rule, fs[0], 'unreachable-state handling', 'all minimisers treat unreachable states alike ({})'.format(sorted(vals[0]) or 'kept'))
    else:
        rep.violates(rule, fs[0], 'unreachable-state handling', 'the minimisers disagree on the removal of unreachable states: {} -- their results have different numbers of states for a DFA with a distinguishable unreachable state, and check_dfa_minimal compares the answer of one with the state count of another'.format({k: sorted(v) for k, v in sig.items()}))


def check_consistency_disjunction(ctx, rep, f, rule='R-SYM.or'):
    """a `return False` that tests the consistency of a pair against both the map and its inverse must fire when either
    direction conflicts.  Decided by a truth table: the two comparisons (one per map) are set to conflict / agree in all
    four ways and the rejecting condition -- with local names for conditions expanded -- must be true exactly when at
    least one of them conflicts, however it is written (`a != x or b != y`, `not (a == x and b == y)`, a named flag ...)."""
    from .. import abseval
    from .models import resolve_alias
    n = 0
    for st in walk_no_nested(f.node):
        if not (isinstance(st, ast.If) and any(isinstance(b, ast.Return) and isinstance(b.value, ast.Constant) and b.value.value is False for b in st.body)):
            continue

        def expand(e, depth=0):
            if depth > 3:
                return e
            if isinstance(e, ast.Name):
                r = resolve_alias(f, e)
                return expand(r, depth + 1) if r is not e else e
            if isinstance(e, ast.UnaryOp) and isinstance(e.op, ast.Not):
                return ast.UnaryOp(op=ast.Not(), operand=expand(e.operand, depth + 1))
            if isinstance(e, ast.BoolOp):
                return ast.BoolOp(op=e.op, values=[expand(v, depth + 1) for v in e.values])
            return e
        t = expand(st.test)
        comps = {}
        for c in ast.walk(t):
            if isinstance(c, ast.Compare) and len(c.ops) == 1 and isinstance(c.ops[0], (ast.Eq, ast.NotEq)):
                ms = set()
                for x in ast.walk(c):
                    if isinstance(x, ast.Call) and isinstance(x.func, ast.Attribute) and x.func.attr == 'get':
                        ms.add(u(x.func.value))
                    if isinstance(x, ast.Subscript):
                        ms.add(u(x.value))
                if len(ms) == 1:
                    comps.setdefault(ms.pop(), []).append(c)
        if len(comps) != 2 or any(len(v) != 1 for v in comps.values()):
            continue
        n += 1
        (m1, [c1]), (m2, [c2]) = sorted(comps.items())
        ok = True
        witness = None
        # the other boolean leaves of the condition (e.g. "both accepting or both not") are quantified over: a conflict must
        # reject whatever they say, and without a conflict some value of them must let the pair pass
        leaves = []

        def collect(e):
            if isinstance(e, ast.BoolOp):
                for v in e.values:
                    collect(v)
            elif isinstance(e, ast.UnaryOp) and isinstance(e.op, ast.Not):
                collect(e.operand)
            elif e is not c1 and e is not c2:
                k = ' '.join(u(e).split())
                if k not in leaves:
                    leaves.append(k)
        collect(t)
        if len(leaves) > 4:
            rep.undecided(rule, f, st, 'rejecting condition with more than four further conditions')
            continue
        import itertools as _it
        try:
            for a in (False, True):
                for b in (False, True):
                    passes = False
                    for other in _it.product((False, True), repeat=len(leaves)):
                        atoms = dict(zip(leaves, other))
                        for c, conflict in ((c1, a), (c2, b)):
                            val = conflict if isinstance(c.ops[0], ast.NotEq) else not conflict
                            atoms[' '.join(u(c).split())] = val
                        rejected = bool(abseval.ev(t, {}, atoms))
                        if (a or b) and not rejected:
                            ok = False
                            witness = (a, b, rejected)
                        if not rejected:
                            passes = True
                    if not (a or b) and not passes:
                        ok = False
                        witness = (a, b, True)
        except abseval.Unsupported as e:
            rep.undecided(rule, f, st, 'rejecting condition outside the fragment: {}'.format(e))
            continue
        if ok:
            rep.holds(rule, f, st, 'the pair is rejected exactly when it conflicts with {} or with {} (truth table over the two comparisons)'.format(m1, m2))
        else:
            a, b, r = witness
            rep.violates(rule, f, st, 'when the pair {} {} and {} {} it is {}: a conflict in one direction must reject the pair, otherwise it overwrites the recorded match and the relation built is not a bijection'.format(
                'conflicts with' if a else 'agrees with', m1, 'conflicts with' if b else 'agrees with', m2, 'rejected' if r else 'accepted'))
    return n


def check_index_agreement(ctx, rep, f, rule='R-INDEX'):
    """a table keyed by POSITIONS in an enumeration of a set is handed to another function: both functions must
    enumerate the set by the same expression (list(D.Q) and list(D.Q) of an unchanged set agree; list(D.Q) and
    sorted(D.Q) do not), otherwise entry (i, j) means one pair of elements to the producer and another to the consumer."""
    from .models import resolve_alias

    def position_lists(g, table_name):
        """local lists L = list(..)/sorted(..)/tuple(..) whose index variables also index the table"""
        out = {}
        idx_vars = set()
        for x in walk_no_nested(g.node):
            if isinstance(x, ast.Subscript) and u(x.value) == table_name:
                idx_vars |= {n.id for n in ast.walk(x.slice) if isinstance(n, ast.Name)}
        def everywhere(g0):
            # the function and its nested helpers (an index may be used inside a local helper)
            for x0 in ast.walk(g0.node):
                yield x0
        idx_vars |= {n.id for x in everywhere(g) if isinstance(x, ast.Subscript) and u(x.value) == table_name for n in ast.walk(x.slice) if isinstance(n, ast.Name)}
        # parameters of nested helpers that receive such indices are index variables too (helper(i, j, a))
        for h0 in g.nested.values():
            idx_vars |= {p0 for p0 in h0.params}
        for st in walk_no_nested(g.node):
            val = st.value if isinstance(st, ast.Assign) and len(st.targets) == 1 else None
            tgt = st.targets[0] if val is not None else None
            # q, position = _enumerate_states(D): a shared helper that returns (list(D.Q), index map) -- read through it
            if val is not None and isinstance(tgt, ast.Tuple) and isinstance(val, ast.Call):
                r0 = ctx.resolve_call(g, val)
                if r0 is not None and r0.kind == 'func' and r0.target.parent is None:
                    h = r0.target
                    rets = [r1 for r1 in walk_no_nested(h.node) if isinstance(r1, ast.Return) and isinstance(r1.value, ast.Tuple) and len(r1.value.elts) == len(tgt.elts)]
                    if len(rets) == 1:
                        for t0, e0 in zip(tgt.elts, rets[0].value.elts):
                            e1 = resolve_alias(h, e0)
                            if isinstance(t0, ast.Name) and isinstance(e1, ast.Call) and isinstance(e1.func, ast.Name) and e1.func.id in ('list', 'sorted', 'tuple') and e1.args:
                                hp = h.pos_params[0].arg if h.pos_params else ''
                                src0 = resolve_alias(h, e1.args[0])
                                L0 = t0.id
                                if any(isinstance(x, ast.Subscript) and u(x.value) == L0 and isinstance(x.slice, ast.Name) and x.slice.id in idx_vars for x in everywhere(g)):
                                    out[L0] = ('{}({}{})'.format(e1.func.id, u(src0).replace(hp + '.', '$0.'), ', ...' if (len(e1.args) > 1 or e1.keywords) else ''), st)
                continue
            if isinstance(st, ast.Assign) and len(st.targets) == 1 and isinstance(st.targets[0], ast.Name) and isinstance(st.value, ast.Call) \
                    and isinstance(st.value.func, ast.Name) and st.value.func.id in ('list', 'sorted', 'tuple') and st.value.args:
                L = st.targets[0].id
                used = any(isinstance(x, ast.Subscript) and u(x.value) == L and isinstance(x.slice, ast.Name) and x.slice.id in idx_vars for x in everywhere(g))
                if used:
                    src = resolve_alias(g, st.value.args[0])
                    p0 = g.pos_params[0].arg if g.pos_params else ''
                    canon = '{}({}{})'.format(st.value.func.id, u(src).replace(p0 + '.', '$0.'), ', ...' if (len(st.value.args) > 1 or st.value.keywords) else '')
                    out[L] = (canon, st)
        return out
    n = 0
    for c in ctx.prog.calls_in(f):
        r = ctx.resolve_call(f, c)
        if r is None or r.kind != 'func' or r.target is f or r.target.parent is not None:
            continue
        g = r.target
        for i, a in enumerate(c.args):
            if not isinstance(a, ast.Name) or i >= len(g.pos_params):
                continue
            mine = position_lists(f, a.id)
            theirs = position_lists(g, g.pos_params[i].arg)
            if len(mine) != 1 or len(theirs) != 1:
                continue
            n += 1
            (c1, s1), (c2, s2) = list(mine.values())[0], list(theirs.values())[0]
            if c1 == c2:
                rep.holds(rule, f, c, 'the table {} is indexed by positions in {} here and in {}: the same enumeration of the same unchanged set'.format(a.id, c1.replace('$0', f.pos_params[0].arg), g.name))
            else:
                rep.violates(rule, f, s1, 'the table {0} is filled by positions in `{1}`, but {2}, which receives it, reads it by positions in `{3}`: entry (i, j) stands for one pair of states here and for another pair there, so the wrong states are merged'.format(
                    a.id, c1.replace('$0', f.pos_params[0].arg), g.name, c2.replace('$0', g.pos_params[0].arg)))
    return n


# ---- R-SYM.count: counters that shadow a relation are kept at every place where the relation grows ---------------------

def check_paired_bookkeeping(ctx, rep, f, rule='R-SYM.count'):
    """`matching[q1, q2] = True` marks a pair; a function that also keeps per-state COUNTERS of partners (`partners1[q1] += 1`)
    to decide one-to-one-ness must bump them at EVERY place where a pair is marked.  A pair that is marked without being
    counted (typically the initial pair, set up before the loop) has a state that can receive a second partner unnoticed.
    Cross-check of the marking sites: all of them are followed, in their own block, by increments of the same counters."""
    marks = {}
    for blk in ast.walk(f.node):
        for fld in ('body', 'orelse'):
            lst = getattr(blk, fld, None)
            if not isinstance(lst, list):
                continue
            for i, st in enumerate(lst):
                if isinstance(st, ast.Assign) and len(st.targets) == 1 and isinstance(st.targets[0], ast.Subscript) and isinstance(st.targets[0].value, ast.Name) \
                        and isinstance(st.value, ast.Constant) and st.value.value is True:
                    M = st.targets[0].value.id
                    counters = set()
                    for later in lst[i + 1:]:
                        if isinstance(later, ast.AugAssign) and isinstance(later.op, ast.Add) and isinstance(later.target, ast.Subscript) and isinstance(later.target.value, ast.Name) \
                                and isinstance(later.value, ast.Constant) and later.value.value == 1:
                            counters.add(later.target.value.id)
                    marks.setdefault(M, []).append((st, counters))
    n = 0
    for M, sites in sorted(marks.items()):
        allc = set().union(*[c for _, c in sites])
        if not allc or len(sites) < 2:
            continue
        # the counters must be read in a test somewhere (they decide something)
        decided = any(isinstance(x, ast.Compare) and any(isinstance(y, ast.Subscript) and isinstance(y.value, ast.Name) and y.value.id in allc for y in ast.walk(x)) for x in walk_no_nested(f.node))
        if not decided:
            continue
        n += 1
        bad = [(st, allc - c) for st, c in sites if allc - c]
        if bad:
            st, missing = bad[0]
            rep.violates(rule, f, st, 'the pair marked by `{}` is not counted in {} although every other marking of {} is: a state of this pair can get a second partner without the count exceeding 1, so a relation that is not one-to-one passes'.format(
                u(st), sorted(missing), M))
        else:
            rep.holds(rule, f, sites[0][0], 'every marking of {} is followed by the increments of {}'.format(M, sorted(allc)))
    return n
