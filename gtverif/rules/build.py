"""R-BUILD -- parser/builder obligations: checks before constructing, duplicate detection, class invariants,
declared-versus-empty."""
import ast

from .. import abseval
from ..abseval import Unsupported
from ..astutil import u, names_in, walk_no_nested, atoms_of, must_atoms
from ..model import norm

RULE = 'R-BUILD'
COMMON_CHECKS = ['_check_states_are_declared', '_check_state_labels', '_check_one_initial_state']
EXTRA_CHECKS = {'DFABuilder': ['_check_is_deterministic', '_check_is_total', '_check_symbols'],
                'NFABuilder': ['_check_symbols'], 'PDABuilder': ['_check_symbols'], 'TMBuilder': []}
KIND = {'DFABuilder': 'DFA', 'NFABuilder': 'NFA', 'PDABuilder': 'PDA', 'TMBuilder': 'TM'}


def _self_calls(f, name):
    out = []
    for c in walk_no_nested(f.node):
        if isinstance(c, ast.Call) and isinstance(c.func, ast.Attribute) and c.func.attr == name and isinstance(c.func.value, ast.Name) and c.func.value.id == 'self':
            out.append(c)
    return out


def check_builders(ctx, rep):
    n = 0
    for cname, kind in KIND.items():
        cls = [c for c in ctx.prog.classes.values() if c.name == cname]
        if not cls:
            raise_missing(cname)
        build = cls[0].methods.get('build')
        if build is None:
            raise_missing(cname + '.build')
        fx = ctx.facts(build)
        cfg = fx.cfg
        ctor = [c for c in ctx.prog.calls_in(build) if ctx.callee_name(build, c) == kind]
        if len(ctor) != 1:
            rep.undecided(RULE + '.checks', build, 'def build', 'no single {} constructor call'.format(kind))
            continue
        K = fx.stmt_of_expr(ctor[0])
        for m in COMMON_CHECKS + EXTRA_CHECKS[cname]:
            calls = _self_calls(build, m)
            nodes = {fx.stmt_of_expr(c) for c in calls}
            n += 1
            if nodes and cfg.must_pass(nodes, K):
                rep.holds(RULE + '.checks', build, 'self.{}()'.format(m), 'every path to the {} constructor passes through {}'.format(kind, m))
            elif nodes:
                rep.violates(RULE + '.checks', build, 'self.{}()'.format(m), 'a path reaches the {} constructor without passing through {} (the check is conditional or placed after the constructor)'.format(kind, m))
            else:
                rep.violates(RULE + '.checks', build, 'self.{}()'.format(m), '{}.build never calls {}: {} descriptions violating it are turned into some other automaton'.format(cname, m, kind))
        # the constructor validates
        for k in ctor[0].keywords:
            if k.arg == 'check_validity' and not (isinstance(k.value, ast.Constant) and k.value.value is True):
                rep.violates(RULE + '.checks', build, ctor[0], 'the parser constructs the {} with check_validity={}: class invariants are not asserted'.format(kind, u(k.value)))
        # _check_symbols / _check_is_total receive the input alphabet that becomes Sigma
        for m in ('_check_symbols', '_check_is_total'):
            for c in _self_calls(build, m):
                if c.args and u(c.args[0]) != 'input_symbols':
                    rep.violates(RULE + '.checks', build, c, '{} is applied to {} instead of the input alphabet'.format(m, u(c.args[0])))
    return n


def raise_missing(what):
    from ..model import AnalysisError
    raise AnalysisError('anchor {} vanished'.format(what))


def _raises(f):
    return [n for n in walk_no_nested(f.node) if isinstance(n, ast.Raise)]


def check_check_methods(ctx, rep):
    """each check raises exactly under its condition (guard polarity at the raise)"""
    P = ctx.prog.func
    # one initial state: raise iff len != 1
    f = P('automaton_algorithms.AutomatonBuilder._check_one_initial_state')
    fx = ctx.facts(f)
    lens = {u(n) for n in ast.walk(f.node) if isinstance(n, ast.Call) and isinstance(n.func, ast.Name) and n.func.id == 'len'}
    try:
        ok = True
        for k in range(0, 4):
            raised = False
            for r in _raises(f):
                atoms = fx.guard_atoms(fx.cfg.n_of(r))
                tests = [fx.cfg.node[a[-1]] for a in atoms]
                conds = []
                for (t, lab, _) in fx.cfg.guards(fx.cfg.n_of(r)):
                    tn = fx.cfg.node[t]
                    if tn.kind == 'test':
                        conds.append((tn.expr, lab))
                env = {l: k for l in lens}
                if all(bool(abseval.ev(e, env)) == lab for e, lab in conds):
                    raised = True
            if raised != (k != 1):
                ok = False
                rep.violates(RULE + '.guard', f, 'def ' + f.name, 'with {} initial state(s) the check {} but must {}'.format(k, 'raises' if raised else 'passes', 'pass' if k == 1 else 'raise'))
                break
        if ok:
            rep.holds(RULE + '.guard', f, 'def ' + f.name, 'raises exactly when the number of initial states differs from 1 (evaluated for 0..3)')
    except Unsupported as e:
        rep.undecided(RULE + '.guard', f, 'def ' + f.name, 'condition outside the fragment: {}'.format(e))

    def expect_atom(spec, pred, what, bad):
        g = P(spec)
        gx = ctx.facts(g)
        rs = _raises(g)
        if not rs:
            rep.violates(RULE + '.guard', g, 'def ' + g.name, 'the check never raises')
            return
        for r in rs:
            atoms = gx.guard_atoms(gx.cfg.n_of(r))
            if any(pred(a) for a in atoms):
                rep.holds(RULE + '.guard', g, r, what)
            else:
                rep.violates(RULE + '.guard', g, r, bad + ' (guards found: {})'.format([(a[0], a[1], a[2], a[3]) for a in atoms][:3]))

    expect_atom('automaton_algorithms.AutomatonBuilder._check_states_are_declared',
                lambda a: a[0] == 'empty' and a[3] is False and '-' in a[1] and 'used' in a[1].split('-')[0],
                'raises exactly when some used state is not declared', 'the undeclared-state check must raise when `used - declared` is non-empty')
    expect_atom('automaton_algorithms.AutomatonBuilder._check_symbols_are_declared',
                lambda a: a[0] == 'empty' and a[3] is False and '-' in a[1] and 'used' in a[1].split('-')[0],
                'raises exactly when some used symbol is not declared', 'the undeclared-symbol check must raise when `used - declared` is non-empty')
    for spec, arg in (('automaton_algorithms.AutomatonBuilder._check_state_label', 'state_regex'), ('automaton_algorithms.AutomatonBuilder._check_symbol', 'symbol_regex'),
                      ('automaton_algorithms.AutomatonBuilder._check_transition_label', 'transition_regex'),
                      ('automaton_algorithms.AutomatonParser._check_state_label', 'state_regex'), ('automaton_algorithms.AutomatonParser._check_transition_label', 'transition_regex')):
        expect_atom(spec, lambda a, arg=arg: a[0] == 'truthy' and a[3] is False and a[1].startswith('re.fullmatch(self.' + arg),
                    'raises exactly when the text does not fully match ' + arg, 'the label check must raise when re.fullmatch with self.{} fails'.format(arg))
    expect_atom('automaton_algorithms.AutomatonParser._check_no_duplicate_keys',
                lambda a: a[0] == 'in' and a[3] is True and a[2] == 'self.items',
                'raises exactly when the keyword is already present (key membership)',
                'duplicate detection must test the presence of the key in self.items (not the truthiness of its value: an empty first declaration would be overlooked)')
    expect_atom('automaton_algorithms.AutomatonParser._check_no_duplicates', lambda a: a[0] == 'in' and a[3] is True,
                'raises exactly when a word was seen before', 'duplicate entries must be detected by membership in the seen set')
    expect_atom('dfa_algorithms.DFABuilder._check_is_deterministic', lambda a: a[0] == 'in' and a[3] is True and a[1].replace(' ', '') == '(p,a)',
                'raises exactly when a (state, symbol) pair occurs twice', 'non-determinism must be detected by a repeated (p, a) pair')
    expect_atom('dfa_algorithms.DFABuilder._check_is_total', lambda a: a[0] == 'in' and a[3] is False and a[1].replace(' ', '') == '(p,a)',
                'raises exactly when a (state, symbol) pair has no transition', 'totality must be violated exactly by a missing (p, a) pair')
    expect_atom('automaton_algorithms.AutomatonParser.parse_transition', lambda a: a[0] == 'lencmp' and a[3] is True and a[2] in (('LtE', 2), ('Lt', 3)),
                'raises exactly when a transition line has fewer than three words', 'an incomplete transition (fewer than 3 words) must be rejected')
    # seen sets of the two scanning checks are updated
    for spec in ('dfa_algorithms.DFABuilder._check_is_deterministic', 'automaton_algorithms.AutomatonParser._check_no_duplicates'):
        g = P(spec)
        adds = [n for n in walk_no_nested(g.node) if isinstance(n, ast.Call) and isinstance(n.func, ast.Attribute) and n.func.attr == 'add']
        if adds:
            rep.holds(RULE + '.guard', g, adds[0], 'every scanned element is recorded in the seen set', nontrivial=False)
        else:
            rep.violates(RULE + '.guard', g, 'def ' + g.name, 'scanned elements are never recorded: duplicates cannot be detected')
    # the totality check ranges over all states and all input symbols
    g = P('dfa_algorithms.DFABuilder._check_is_total')
    loops = [u(n.iter) for n in walk_no_nested(g.node) if isinstance(n, ast.For)]
    if 'A.states' in loops and any(l in ('input_symbols',) for l in loops):
        rep.holds(RULE + '.guard', g, 'for p in A.states', 'totality is checked for every declared state and every input symbol')
    else:
        rep.violates(RULE + '.guard', g, 'def ' + g.name, 'totality must be checked for every declared state and every input symbol (loops found: {})'.format(loops))


def check_parse_line(ctx, rep):
    """every branch of parse_line that stores self.items[k] passes through the duplicate check for k"""
    f = ctx.prog.func('automaton_algorithms.AutomatonParser.parse_line')
    fx = ctx.facts(f)
    cfg = fx.cfg
    n = 0
    for st in walk_no_nested(f.node):
        if not (isinstance(st, ast.Assign) and isinstance(st.targets[0], ast.Subscript) and u(st.targets[0].value) == 'self.items'):
            continue
        n += 1
        key = u(st.targets[0].slice)
        nid = cfg.n_of(st)
        ok = False
        for c in walk_no_nested(f.node):
            if isinstance(c, ast.Call) and isinstance(c.func, ast.Attribute) and c.func.attr in ('_check_no_duplicate_keys', 'parse_state_set') and c.args and u(c.args[0]) == key:
                cn = fx.stmt_of_expr(c)
                if cn is not None and cfg.dominates(cn, nid):
                    ok = True
        if ok:
            rep.holds(RULE + '.dup', f, st, 'the store of {} is dominated by the duplicate check for the same keyword'.format(key))
        else:
            rep.violates(RULE + '.dup', f, st, 'self.items[{}] is stored without a dominating duplicate check for {}: a repeated declaration silently overrides the first'.format(key, key))
    # parse_state_set runs the duplicate-key check first
    g = ctx.prog.func('automaton_algorithms.AutomatonParser.parse_state_set')
    gx = ctx.facts(g)
    rets = [r for r in walk_no_nested(g.node) if isinstance(r, ast.Return)]
    for m in ('_check_no_duplicate_keys', '_check_no_duplicates'):
        nodes = {gx.stmt_of_expr(c) for c in _self_calls(g, m)}
        if nodes and all(gx.cfg.must_pass(nodes, gx.cfg.n_of(r)) for r in rets):
            rep.holds(RULE + '.dup', g, 'self.{}()'.format(m), 'every state-set declaration passes through {}'.format(m))
        else:
            rep.violates(RULE + '.dup', g, 'self.{}()'.format(m), 'parse_state_set can return without calling {}'.format(m))
    # the empty `states` declaration is rejected
    calls = [c for c in _self_calls(f, 'parse_state_set') if c.args and u(c.args[0]) == "'states'"]
    if calls and any(k.arg == 'check_non_empty' and isinstance(k.value, ast.Constant) and k.value.value is True for k in calls[0].keywords):
        rep.holds(RULE + '.dup', f, calls[0], 'an empty states declaration is rejected', nontrivial=False)
    return n


INVARIANTS = {
    'dfa.DFA': [['q0 in Q'], ['F <= Q', 'F.issubset(Q)', 'Q >= F'], ['q in Q'], ['a in Sigma'], ['q1 in Q'], ['self._is_total()']],
    'nfa.NFA': [['q0 in Q'], ['F <= Q', 'F.issubset(Q)', 'Q >= F'], ['epsilon not in Sigma'], ['q in Q'], ['a in Sigma | {epsilon}', 'a in Sigma or a == epsilon', 'a == epsilon or a in Sigma'],
                ['Q1 <= Q', 'Q1.issubset(Q)']],
    'pda.PDA': [['q0 in Q'], ['epsilon not in Sigma'], ['epsilon not in Gamma'], ['F <= Q', 'F.issubset(Q)'], ['p in Q'], ['a in Sigma | {epsilon}'], ['u in Gamma | {epsilon}'], ['q in Q'],
                ['v in Gamma | {epsilon}']],
    'tm.TM': [['q0 in Q'], ['q_accept in Q'], ['q_reject in Q'], ['q_reject != q_accept', 'q_accept != q_reject'], ['blank not in Sigma'], ['blank in Gamma'],
              ['Sigma <= Gamma', 'Sigma.issubset(Gamma)'], ['p in Q'], ['a in Gamma'], ['q in Q'], ['b in Gamma'], ["d in ['L', 'R']", "d in ('L', 'R')", "d in {'L', 'R'}"]],
}


def check_invariants(ctx, rep):
    n = 0
    for spec, wanted in INVARIANTS.items():
        cls = ctx.prog.cls(spec)
        cv = cls.methods.get('_check_validity')
        init = cls.methods.get('__init__')
        if cv is None or init is None:
            rep.violates(RULE + '.inv', spec, 'class ' + cls.name, 'the class has no _check_validity')
            continue
        asserts = {u(a.test) for a in walk_no_nested(cv.node) if isinstance(a, ast.Assert)}
        for alts in wanted:
            n += 1
            if any(a in asserts for a in alts):
                rep.holds(RULE + '.inv', cv, 'assert ' + alts[0], 'invariant asserted', nontrivial=False)
            else:
                rep.violates(RULE + '.inv', cv, 'assert ' + alts[0], 'the class invariant `{}` is no longer asserted by {}._check_validity'.format(alts[0], cls.name))
        # the constructor runs the check by default
        d = init.defaults.get('check_validity')
        called = [c for c in _self_calls(init, '_check_validity')]
        fx = ctx.facts(init)
        if d is not None and isinstance(d, ast.Constant) and d.value is True and called:
            atoms = fx.guard_atoms(fx.stmt_of_expr(called[0]))
            if all(a[0] == 'truthy' and a[1] == 'check_validity' and a[3] is True for a in atoms):
                rep.holds(RULE + '.inv', init, called[0], 'validity is checked by default on construction')
            else:
                rep.violates(RULE + '.inv', init, called[0], 'the validity check is skipped under an extra condition')
        else:
            rep.violates(RULE + '.inv', init, 'def __init__', 'the constructor does not check validity by default')
    # DFA._is_total
    f = ctx.prog.func('dfa.DFA._is_total')
    fx = ctx.facts(f)
    rf = [r for r in walk_no_nested(f.node) if isinstance(r, ast.Return) and isinstance(r.value, ast.Constant) and r.value.value is False]
    rt = [r for r in walk_no_nested(f.node) if isinstance(r, ast.Return) and isinstance(r.value, ast.Constant) and r.value.value is True]
    loops = [u(x.iter) for x in walk_no_nested(f.node) if isinstance(x, ast.For)]
    ok = len(rf) == 1 and len(rt) == 1 and any(a[0] == 'in' and a[3] is False and a[1].replace(' ', '') == '(q,a)' for a in fx.guard_atoms(fx.cfg.n_of(rf[0]))) \
        and set(loops) == {'Q', 'Sigma'} and not fx.guard_atoms(fx.cfg.n_of(rt[0]))
    if ok:
        rep.holds(RULE + '.inv', f, 'def _is_total', 'False exactly when some (q, a) in Q x Sigma has no transition')
    else:
        rep.violates(RULE + '.inv', f, 'def _is_total', 'totality must be: for all q in Q, a in Sigma: (q, a) in delta')
    return n


def check_declared_vs_empty(ctx, rep):
    """a declared-but-empty set is not conflated with an omitted declaration"""
    n = 0
    for cname in list(KIND) + ['AutomatonBuilder', 'AutomatonParser']:
        cls = [c for c in ctx.prog.classes.values() if c.name == cname]
        if not cls:
            continue
        for f in cls[0].methods.values():
            optional = set()
            for st in walk_no_nested(f.node):
                if isinstance(st, ast.Assign) and len(st.targets) == 1 and isinstance(st.targets[0], ast.Name) and isinstance(st.value, ast.Call) \
                        and isinstance(st.value.func, ast.Attribute) and st.value.func.attr == 'get_symbol_set' and len(st.value.args) == 1:
                    optional.add(st.targets[0].id)     # no default: None when the declaration is omitted
                if isinstance(st, ast.Assign) and len(st.targets) == 1 and isinstance(st.targets[0], ast.Name) and isinstance(st.value, ast.Call) \
                        and isinstance(st.value.func, ast.Attribute) and st.value.func.attr == 'get' and u(st.value.func.value).endswith('.items') and len(st.value.args) == 1:
                    optional.add(st.targets[0].id)     # None when the keyword is missing, [] when it is declared empty
            for t in walk_no_nested(f.node):
                if not isinstance(t, (ast.If, ast.IfExp, ast.While)):
                    continue
                for a in atoms_of(t.test, True):
                    if a[0] == 'truthy' and a[1] in optional:
                        n += 1
                        rep.violates(RULE + '.optional', f, t if isinstance(t, ast.stmt) else t.test, 'truthiness test on {} conflates an omitted declaration (None) with a declared empty set: an explicitly empty alphabet is replaced by the default'.format(a[1]))
                    elif a[0] == 'truthy' and ('.items.get(' in a[1]):
                        n += 1
                        rep.violates(RULE + '.optional', f, t if isinstance(t, ast.stmt) else t.test, 'truthiness test on {} conflates a missing keyword with an empty declaration'.format(a[1]))
                    elif a[0] == 'eq' and a[2] == 'None' and a[1] in optional:
                        n += 1
                        rep.holds(RULE + '.optional', f, t if isinstance(t, ast.stmt) else t.test, 'omitted declaration is tested with `is None`')
    return n
