"""R-BUILD -- parser/builder obligations: checks before constructing, duplicate detection, class invariants,
declared-versus-empty."""
import ast

from .. import abseval
from ..abseval import Unsupported
from ..astutil import u, names_in, walk_no_nested, atoms_of, must_atoms
from ..model import norm, AnalysisError
from .models import single_def

RULE = 'R-BUILD'
COMMON_CHECKS = ['_check_states_are_declared', '_check_state_labels', '_check_one_initial_state']
EXTRA_CHECKS = {'DFABuilder': ['_check_is_deterministic', '_check_is_total', '_check_symbols'],
                'NFABuilder': ['_check_symbols'], 'PDABuilder': ['_check_symbols'], 'TMBuilder': []}
KIND = {'DFABuilder': 'DFA', 'NFABuilder': 'NFA', 'PDABuilder': 'PDA', 'TMBuilder': 'TM'}


def _self_calls(f, name):
    out = []
    for c in walk_no_nested(f.node):
        if isinstance(c, ast.Call) and isinstance(c.func, ast.Attribute) and c.func.attr == name and isinstance(c.func.value, ast.Name) and c.func.value.id == 'self':
            out.append(c)
    return out


def check_builders(ctx, rep):
    n = 0
    for cname, kind in KIND.items():
        cls = [c for c in ctx.prog.classes.values() if c.name == cname]
        if not cls:
            raise_missing(cname)
        build = cls[0].methods.get('build')
        if build is None:
            raise_missing(cname + '.build')
        fx = ctx.facts(build)
        cfg = fx.cfg
        ctor = [c for c in ctx.prog.calls_in(build) if ctx.callee_name(build, c) == kind]
        if len(ctor) != 1:
            rep.undecided(RULE + '.checks', build, 'def build', 'no single {} constructor call'.format(kind))
            continue
        K = fx.stmt_of_expr(ctor[0])
        for m in COMMON_CHECKS + EXTRA_CHECKS[cname]:
            calls = _self_calls(build, m)
            nodes = {fx.stmt_of_expr(c) for c in calls}
            n += 1
            if nodes and cfg.must_pass(nodes, K):
                rep.holds(RULE + '.checks', build, 'self.{}()'.format(m), 'every path to the {} constructor passes through {}'.format(kind, m))
            elif nodes:
                rep.violates(RULE + '.checks', build, 'self.{}()'.format(m), 'a path reaches the {} constructor without passing through {} (the check is conditional or placed after the constructor)'.format(kind, m))
            else:
                rep.violates(RULE + '.checks', build, 'self.{}()'.format(m), '{}.build never calls {}: {} descriptions violating it are turned into some other automaton'.format(cname, m, kind))
        # the constructor validates
        for k in ctor[0].keywords:
            if k.arg == 'check_validity' and not (isinstance(k.value, ast.Constant) and k.value.value is True):
                rep.violates(RULE + '.checks', build, ctor[0], 'the parser constructs the {} with check_validity={}: class invariants are not asserted'.format(kind, u(k.value)))
        # _check_symbols / _check_is_total receive the input alphabet that becomes Sigma
        for m in ('_check_symbols', '_check_is_total'):
            for c in _self_calls(build, m):
                if c.args and u(c.args[0]) != 'input_symbols':
                    rep.violates(RULE + '.checks', build, c, '{} is applied to {} instead of the input alphabet'.format(m, u(c.args[0])))
    return n


FIELD_SOURCES = {'Q': 'states', 'F': 'final_states'}     # constructor parameter -> field of the parsed Automaton record


def _is_record_field(e, attr):
    return isinstance(e, ast.Attribute) and e.attr == attr and u(e.value) in ('A', 'self.A')


def _total_image_expr(e, attr):
    """e is an element-wise image of A.<attr> with nothing filtered away"""
    if _is_record_field(e, attr):
        return True
    if isinstance(e, ast.Call) and isinstance(e.func, ast.Name) and e.func.id in ('set', 'frozenset', 'list', 'sorted') and len(e.args) == 1:
        return _total_image_expr(e.args[0], attr)
    if isinstance(e, (ast.SetComp, ast.GeneratorExp, ast.ListComp)) and len(e.generators) == 1:
        g = e.generators[0]
        if g.ifs or not _is_record_field(g.iter, attr) or not isinstance(g.target, ast.Name):
            return False
        elt = e.elt
        if isinstance(elt, ast.Call) and len(elt.args) == 1 and not elt.keywords:
            elt = elt.args[0]
        return isinstance(elt, ast.Name) and elt.id == g.target.id
    return False


def _inline_local(build, e):
    """as_states(A.states) with `def as_states(names): return {State(s) for s in names}` nested in build: the body with the
    argument substituted"""
    import copy
    if not (isinstance(e, ast.Call) and isinstance(e.func, ast.Name) and e.func.id in build.nested and not e.keywords):
        return e
    h = build.nested[e.func.id]
    body = [b for b in h.node.body if not (isinstance(b, ast.Expr) and isinstance(b.value, ast.Constant))]
    if len(body) != 1 or not isinstance(body[0], ast.Return) or body[0].value is None or len(h.params) != len(e.args):
        return e
    sub = dict(zip(h.params, e.args))

    class T(ast.NodeTransformer):
        def visit_Name(self, n):
            return copy.deepcopy(sub[n.id]) if isinstance(n.ctx, ast.Load) and n.id in sub else n
    return ast.fix_missing_locations(T().visit(copy.deepcopy(body[0].value)))


def check_builder_fields(ctx, rep):
    """the state sets handed to the constructor are exactly the declared ones: Q is the image of A.states and F the image
    of A.final_states, element by element, with no condition that could filter a declared state away"""
    n = 0
    for cname, kind in KIND.items():
        cls = [c for c in ctx.prog.classes.values() if c.name == cname]
        if not cls or cls[0].methods.get('build') is None:
            continue
        build = cls[0].methods['build']
        ctor = [c for c in ctx.prog.calls_in(build) if ctx.callee_name(build, c) == kind]
        if len(ctor) != 1:
            continue
        kcls = [c for c in ctx.prog.classes.values() if c.name == kind and not c.module.name.startswith('template:')]
        init = kcls[0].methods.get('__init__') if kcls else None
        if init is None:
            continue
        params = [p.arg for p in init.pos_params if p.arg != 'self']
        for pname, attr in FIELD_SOURCES.items():
            if pname not in params:
                continue
            i = params.index(pname)
            arg = ctor[0].args[i] if i < len(ctor[0].args) else next((k.value for k in ctor[0].keywords if k.arg == pname), None)
            if arg is None:
                continue
            n += 1
            arg = _inline_local(build, arg)
            if not isinstance(arg, ast.Name):
                if _total_image_expr(arg, attr):
                    rep.holds(RULE + '.field', build, arg, '{} is the element-wise image of A.{}'.format(pname, attr))
                else:
                    rep.violates(RULE + '.field', build, arg, 'the {} handed to {}() is not the plain image of the declared A.{}'.format(pname, kind, attr))
                continue
            name = arg.id
            defs = [st for st in walk_no_nested(build.node) if isinstance(st, (ast.Assign, ast.AnnAssign)) and any(isinstance(t, ast.Name) and t.id == name for t in (st.targets if isinstance(st, ast.Assign) else [st.target]))]
            aug = [st for st in walk_no_nested(build.node) if isinstance(st, ast.AugAssign) and isinstance(st.target, ast.Name) and st.target.id == name]
            muts = [c for c in walk_no_nested(build.node) if isinstance(c, ast.Call) and isinstance(c.func, ast.Attribute) and isinstance(c.func.value, ast.Name) and c.func.value.id == name
                    and c.func.attr in ('add', 'update', 'discard', 'remove', 'clear', 'pop', 'difference_update', 'intersection_update')]
            if len(defs) == 1 and not aug and not muts and _total_image_expr(_inline_local(build, defs[0].value), attr):
                rep.holds(RULE + '.field', build, defs[0], '{} is the element-wise image of A.{}: every declared state is kept'.format(pname, attr))
                continue
            # loop form: X = set(); for s in A.<attr>: X.add(State(s))  with no condition around the add
            fx = ctx.facts(build)
            ok = len(defs) == 1 and not aug and bool(muts)
            why = ''
            for c in muts:
                if c.func.attr != 'add':
                    ok, why = False, '{} is applied to it'.format(c.func.attr)
                    break
                st = fx.stmt_of_expr(c)
                loops = [l for l in walk_no_nested(build.node) if isinstance(l, ast.For) and any(x is c for x in ast.walk(l))]
                if not loops or not _is_record_field(loops[-1].iter, attr):
                    ok, why = False, 'elements are added while walking {} instead of A.{}'.format(u(loops[-1].iter) if loops else 'no loop', attr)
                    break
                conds = [t for t in ast.walk(loops[-1]) if isinstance(t, (ast.If, ast.IfExp)) and any(x is c for x in ast.walk(t))]
                if conds:
                    ok, why = False, 'the add is guarded by `{}`'.format(u(conds[0].test))
                    break
            if ok:
                rep.holds(RULE + '.field', build, defs[0], '{} collects every element of A.{} unconditionally'.format(pname, attr))
            else:
                site = muts[0] if muts else (defs[0] if defs else arg)
                rep.violates(RULE + '.field', build, site, 'the set {} handed to {}() is not the plain image of the declared A.{} ({}): a declared state can be filtered away, e.g. an accepting initial state without incoming transitions loses its accepting status'.format(
                    pname, kind, attr, why or 'its definition is not an element-wise copy'))
    return n


def raise_missing(what):
    from ..model import AnalysisError
    raise AnalysisError('anchor {} vanished'.format(what))


def _raises(f):
    return [n for n in walk_no_nested(f.node) if isinstance(n, ast.Raise)]


def _normalise_guard_atoms(g, atoms):
    """local names are replaced by their single definition; `if X:` on a set difference is `X is not empty`;
    `if any(c for ..)` contributes the atoms of c (there is an element for which c holds)"""
    out = []

    def subst(txt):
        try:
            node = ast.parse(txt, mode='eval').body
        except (SyntaxError, ValueError):
            return txt

        class R(ast.NodeTransformer):
            def visit_Name(self, n):
                d = single_def(g, n.id)
                if len(d) == 1 and n.id not in g.params and not isinstance(d[0], ast.Constant) and len(u(d[0])) < 80:
                    return d[0]
                return n
        return u(R().visit(node))

    for a in atoms:
        a = tuple(a)
        if a[0] == 'truthy':
            try:
                node = ast.parse(a[1], mode='eval').body
            except (SyntaxError, ValueError):
                node = None
            if isinstance(node, ast.Call) and isinstance(node.func, ast.Name) and node.func.id == 'any' and node.args and isinstance(node.args[0], (ast.GeneratorExp, ast.ListComp)) and a[3] is True:
                for b in atoms_of(node.args[0].elt, True):
                    out.append(tuple(b[:4]) + tuple(a[4:]))
                continue
            full = subst(a[1])
            try:
                fnode = ast.parse(full, mode='eval').body
            except (SyntaxError, ValueError):
                fnode = None
            if isinstance(fnode, ast.BinOp) and isinstance(fnode.op, ast.Sub):
                out.append(('empty', full, a[2], not a[3]) + tuple(a[4:]))
                continue
            out.append((a[0], full) + a[2:])
            continue
        out.append((a[0], subst(a[1]) if isinstance(a[1], str) else a[1], subst(a[2]) if isinstance(a[2], str) else a[2]) + a[3:])
    return out


def check_check_methods(ctx, rep):
    """each check raises exactly under its condition (guard polarity at the raise)"""
    P = ctx.prog.func
    # one initial state: raise iff len != 1
    f = P('automaton_algorithms.AutomatonBuilder._check_one_initial_state')
    fx = ctx.facts(f)
    lens = {u(n) for n in ast.walk(f.node) if isinstance(n, ast.Call) and isinstance(n.func, ast.Name) and n.func.id == 'len'}
    try:
        ok = True
        for k in range(0, 4):
            raised = False
            for r in _raises(f):
                atoms = fx.guard_atoms(fx.cfg.n_of(r))
                tests = [fx.cfg.node[a[-1]] for a in atoms]
                conds = []
                for (t, lab, _) in fx.cfg.guards(fx.cfg.n_of(r)):
                    tn = fx.cfg.node[t]
                    if tn.kind == 'test':
                        conds.append((tn.expr, lab))
                env = {l: k for l in lens}
                if all(bool(abseval.ev(e, env)) == lab for e, lab in conds):
                    raised = True
            if raised != (k != 1):
                ok = False
                rep.violates(RULE + '.guard', f, 'def ' + f.name, 'with {} initial state(s) the check {} but must {}'.format(k, 'raises' if raised else 'passes', 'pass' if k == 1 else 'raise'))
                break
        if ok:
            rep.holds(RULE + '.guard', f, 'def ' + f.name, 'raises exactly when the number of initial states differs from 1 (evaluated for 0..3)')
    except Unsupported as e:
        rep.undecided(RULE + '.guard', f, 'def ' + f.name, 'condition outside the fragment: {}'.format(e))

    def expect_atom(spec, pred, what, bad):
        g = P(spec)
        gx = ctx.facts(g)
        rs = _raises(g)
        if not rs:
            rep.violates(RULE + '.guard', g, 'def ' + g.name, 'the check never raises')
            return
        for r in rs:
            atoms = _normalise_guard_atoms(g, gx.guard_atoms(gx.cfg.n_of(r)))
            flipped = [tuple(a[:3]) + (not a[3],) + tuple(a[4:]) for a in atoms if isinstance(a[3], bool)]
            if any(pred(a) for a in atoms):
                rep.holds(RULE + '.guard', g, r, what)
            elif not atoms or any(pred(a) for a in flipped):
                # no condition at all, or the expected condition with the opposite polarity
                rep.violates(RULE + '.guard', g, r, bad + ' (guards found: {})'.format([(a[0], a[1], a[2], a[3]) for a in atoms][:3]))
            else:
                rep.undecided(RULE + '.guard', g, r, 'the condition of this raise is not in a recognised form: {}'.format([(a[0], a[1], a[2], a[3]) for a in atoms][:3]))

    expect_atom('automaton_algorithms.AutomatonBuilder._check_states_are_declared',
                lambda a: a[0] == 'empty' and a[3] is False and '-' in a[1] and 'used' in a[1].split('-')[0],
                'raises exactly when some used state is not declared', 'the undeclared-state check must raise when `used - declared` is non-empty')
    expect_atom('automaton_algorithms.AutomatonBuilder._check_symbols_are_declared',
                lambda a: a[0] == 'empty' and a[3] is False and '-' in a[1] and 'used' in a[1].split('-')[0],
                'raises exactly when some used symbol is not declared', 'the undeclared-symbol check must raise when `used - declared` is non-empty')
    for spec, arg in (('automaton_algorithms.AutomatonBuilder._check_state_label', 'state_regex'), ('automaton_algorithms.AutomatonBuilder._check_symbol', 'symbol_regex'),
                      ('automaton_algorithms.AutomatonBuilder._check_transition_label', 'transition_regex'),
                      ('automaton_algorithms.AutomatonParser._check_state_label', 'state_regex'), ('automaton_algorithms.AutomatonParser._check_transition_label', 'transition_regex')):
        expect_atom(spec, lambda a, arg=arg: a[0] == 'truthy' and a[3] is False and a[1].startswith('re.fullmatch(self.' + arg),
                    'raises exactly when the text does not fully match ' + arg, 'the label check must raise when re.fullmatch with self.{} fails'.format(arg))
    expect_atom('automaton_algorithms.AutomatonParser._check_no_duplicate_keys',
                lambda a: a[0] == 'in' and a[3] is True and a[2] == 'self.items',
                'raises exactly when the keyword is already present (key membership)',
                'duplicate detection must test the presence of the key in self.items (not the truthiness of its value: an empty first declaration would be overlooked)')
    expect_atom('automaton_algorithms.AutomatonParser._check_no_duplicates', lambda a: a[0] == 'in' and a[3] is True,
                'raises exactly when a word was seen before', 'duplicate entries must be detected by membership in the seen set')
    expect_atom('dfa_algorithms.DFABuilder._check_is_deterministic', lambda a: a[0] == 'in' and a[3] is True and a[1].replace(' ', '').startswith('(') and a[1].count(',') == 1,
                'raises exactly when a (state, symbol) pair occurs twice', 'non-determinism must be detected by a repeated (p, a) pair')
    expect_atom('dfa_algorithms.DFABuilder._check_is_total', lambda a: a[0] == 'in' and a[3] is False and a[1].replace(' ', '').startswith('(') and a[1].count(',') == 1,
                'raises exactly when a (state, symbol) pair has no transition', 'totality must be violated exactly by a missing (p, a) pair')
    expect_atom('automaton_algorithms.AutomatonParser.parse_transition', lambda a: a[0] == 'lencmp' and a[3] is True and a[2] in (('LtE', 2), ('Lt', 3)),
                'raises exactly when a transition line has fewer than three words', 'an incomplete transition (fewer than 3 words) must be rejected')
    # seen sets of the two scanning checks are updated
    for spec in ('dfa_algorithms.DFABuilder._check_is_deterministic', 'automaton_algorithms.AutomatonParser._check_no_duplicates'):
        g = P(spec)
        adds = [n for n in walk_no_nested(g.node) if isinstance(n, ast.Call) and isinstance(n.func, ast.Attribute) and n.func.attr == 'add']
        if adds:
            rep.holds(RULE + '.guard', g, adds[0], 'every scanned element is recorded in the seen set', nontrivial=False)
        else:
            rep.violates(RULE + '.guard', g, 'def ' + g.name, 'scanned elements are never recorded: duplicates cannot be detected')
    # the totality check ranges over all states and all input symbols
    g = P('dfa_algorithms.DFABuilder._check_is_total')
    loops = [u(n.iter) for n in walk_no_nested(g.node) if isinstance(n, ast.For)] + [u(c.iter) for n in walk_no_nested(g.node) if isinstance(n, (ast.GeneratorExp, ast.ListComp, ast.SetComp)) for c in n.generators]
    if 'A.states' in loops and any(l in ('input_symbols',) for l in loops):
        rep.holds(RULE + '.guard', g, 'for p in A.states', 'totality is checked for every declared state and every input symbol')
    else:
        rep.violates(RULE + '.guard', g, 'def ' + g.name, 'totality must be checked for every declared state and every input symbol (loops found: {})'.format(loops))


def check_parse_line(ctx, rep):
    """every branch of parse_line that stores self.items[k] passes through the duplicate check for k"""
    f = ctx.prog.func('automaton_algorithms.AutomatonParser.parse_line')
    fx = ctx.facts(f)
    cfg = fx.cfg
    n = 0
    for st in walk_no_nested(f.node):
        if not (isinstance(st, ast.Assign) and isinstance(st.targets[0], ast.Subscript) and u(st.targets[0].value) == 'self.items'):
            continue
        n += 1
        key = u(st.targets[0].slice)
        nid = cfg.n_of(st)
        ok = False
        for c in walk_no_nested(f.node):
            if isinstance(c, ast.Call) and isinstance(c.func, ast.Attribute) and c.func.attr in ('_check_no_duplicate_keys', 'parse_state_set') and c.args and u(c.args[0]) == key:
                cn = fx.stmt_of_expr(c)
                if cn is not None and cfg.dominates(cn, nid):
                    ok = True
        if ok:
            rep.holds(RULE + '.dup', f, st, 'the store of {} is dominated by the duplicate check for the same keyword'.format(key))
        else:
            rep.violates(RULE + '.dup', f, st, 'self.items[{}] is stored without a dominating duplicate check for {}: a repeated declaration silently overrides the first'.format(key, key))
    # parse_state_set runs the duplicate-key check first
    g = ctx.prog.func('automaton_algorithms.AutomatonParser.parse_state_set')
    gx = ctx.facts(g)
    rets = [r for r in walk_no_nested(g.node) if isinstance(r, ast.Return)]
    for m in ('_check_no_duplicate_keys', '_check_no_duplicates'):
        nodes = {gx.stmt_of_expr(c) for c in _self_calls(g, m)}
        if nodes and all(gx.cfg.must_pass(nodes, gx.cfg.n_of(r)) for r in rets):
            rep.holds(RULE + '.dup', g, 'self.{}()'.format(m), 'every state-set declaration passes through {}'.format(m))
        else:
            rep.violates(RULE + '.dup', g, 'self.{}()'.format(m), 'parse_state_set can return without calling {}'.format(m))
    # the empty `states` declaration is rejected
    calls = [c for c in _self_calls(f, 'parse_state_set') if c.args and u(c.args[0]) == "'states'"]
    if calls and any(k.arg == 'check_non_empty' and isinstance(k.value, ast.Constant) and k.value.value is True for k in calls[0].keywords):
        rep.holds(RULE + '.dup', f, calls[0], 'an empty states declaration is rejected', nontrivial=False)
    # an empty `final` declaration is ACCEPTED: no class invariant asks for an accepting state, the printers write the
    # line `final` with nothing after it for F = {}, so the reader must take it (effective value of check_non_empty)
    g = ctx.prog.func('automaton_algorithms.AutomatonParser.parse_state_set')
    default = g.defaults.get('check_non_empty')
    guard_uses_flag = any(isinstance(t, ast.If) and 'check_non_empty' in names_in(t.test) and any(isinstance(x, ast.Raise) for x in ast.walk(t)) for t in walk_no_nested(g.node))
    f_may_be_empty = True
    for spec in ('dfa.DFA', 'nfa.NFA', 'pda.PDA'):
        cv = ctx.prog.cls(spec).methods.get('_check_validity')
        if cv is not None:
            for a in walk_no_nested(cv.node):
                if isinstance(a, ast.Assert) and (u(a.test) in ('F', 'len(F) > 0', 'len(F) >= 1', 'F != set()') or u(a.test).startswith('len(F)')):
                    f_may_be_empty = False
    for kw in ("'final'",):
        for c in [c for c in _self_calls(f, 'parse_state_set') if c.args and u(c.args[0]) == kw]:
            n += 1
            eff = default
            for k in c.keywords:
                if k.arg == 'check_non_empty':
                    eff = k.value
            if len(c.args) >= 3:
                eff = c.args[2]
            rejects_empty = guard_uses_flag and not (isinstance(eff, ast.Constant) and eff.value in (False, None, 0))
            if rejects_empty and f_may_be_empty:
                rep.violates(RULE + '.empty', f, c, 'the declaration {} is read with check_non_empty = {} (effective value: the call passes none, the default applies), so `final` with no states is rejected -- but an automaton without accepting states is legal and the printers write exactly that line: the library cannot read back its own output and the checkers reject its own answers'.format(kw, u(eff) if eff is not None else 'True'))
            else:
                rep.holds(RULE + '.empty', f, c, 'an empty {} declaration is accepted (effective check_non_empty is {})'.format(kw, u(eff) if eff is not None else 'absent'))
    # table form:  KEYWORDS = {'final': ('final_states', False), ...} ; attr, flag = KEYWORDS[head] ; parse_state_set(head, args, check_non_empty=flag)
    if not any(c.args and u(c.args[0]) == "'final'" for c in _self_calls(f, 'parse_state_set')):
        tables = []
        for src in ([f.cls.node] if f.cls is not None and getattr(f.cls, 'node', None) is not None else []) + [f.node]:
            for d0 in ast.walk(src):
                if isinstance(d0, ast.Dict):
                    for k0, v0 in zip(d0.keys, d0.values):
                        if isinstance(k0, ast.Constant) and k0.value == 'final' and isinstance(v0, ast.Tuple):
                            flags = [x for x in v0.elts if isinstance(x, ast.Constant) and isinstance(x.value, bool)]
                            if len(flags) == 1:
                                tables.append((d0, flags[0]))
        dyn = [c for c in _self_calls(f, 'parse_state_set') if any(k.arg == 'check_non_empty' and isinstance(k.value, ast.Name) for k in c.keywords) or (len(c.args) >= 3 and isinstance(c.args[2], ast.Name))]
        if len(tables) == 1 and dyn:
            n += 1
            eff = tables[0][1]
            rejects_empty = guard_uses_flag and eff.value is not False
            if rejects_empty and f_may_be_empty:
                rep.violates(RULE + '.empty', f, dyn[0], 'the keyword table reads the declaration final with check_non_empty = True, so `final` with no states is rejected -- but an automaton without accepting states is legal and the printers write exactly that line')
            else:
                rep.holds(RULE + '.empty', f, dyn[0], 'an empty final declaration is accepted (the keyword table gives check_non_empty = False for it)')
    return n


# class invariants in CANONICAL terms: fields as `self.X`; inside the loop over the transition map `key0, key1, ..` are
# the components of a key, `val` is the value, `val_e0, val_e1` the components of an element of a set-valued value and
# `val_0, val_1, val_2` the components of a tuple value.  Conjunctions are split, aliases and loop variables resolved,
# and a few spellings normalised (<=/issubset, `x in S | {e}` / `x in S or x == e`, list/tuple/set of constants).
INVARIANTS = {
    'dfa.DFA': ['self.q0 in self.Q', 'self.F <= self.Q', 'key0 in self.Q', 'key1 in self.Sigma', 'val in self.Q', 'self._is_total()'],
    'nfa.NFA': ['self.q0 in self.Q', 'self.F <= self.Q', 'self.epsilon not in self.Sigma', 'key0 in self.Q', 'key1 in self.Sigma | {self.epsilon}', 'val <= self.Q'],
    'pda.PDA': ['self.q0 in self.Q', 'self.epsilon not in self.Sigma', 'self.epsilon not in self.Gamma', 'self.F <= self.Q', 'key0 in self.Q', 'key1 in self.Sigma | {self.epsilon}',
                'key2 in self.Gamma | {self.epsilon}', 'val_e0 in self.Q', 'val_e1 in self.Gamma | {self.epsilon}'],
    'tm.TM': ['self.q0 in self.Q', 'self.q_accept in self.Q', 'self.q_reject in self.Q', 'self.q_accept != self.q_reject', 'self.blank not in self.Sigma', 'self.blank in self.Gamma',
              'self.Sigma <= self.Gamma', 'key0 in self.Q', 'key1 in self.Gamma', 'val_0 in self.Q', 'val_1 in self.Gamma', "val_2 in {'L', 'R'}"],
}


class _Canon(ast.NodeTransformer):
    def __init__(self, env):
        self.env = env

    def visit_Name(self, node):
        if node.id in self.env:
            return ast.Name(id=self.env[node.id], ctx=ast.Load())
        return node


def _canonical_asserts(cv):
    """set of canonical atom texts asserted by a _check_validity method"""
    env = {}

    def bind(target, term):
        if isinstance(target, ast.Name):
            env[target.id] = term
        elif isinstance(target, (ast.Tuple, ast.List)):
            for i, t in enumerate(target.elts):
                bind(t, '{}_{}'.format(term, i) if term.startswith('val') else '{}{}'.format(term, i))

    def canon_expr(e):
        return u(_Canon(env).visit(ast.parse(u(e), mode='eval').body))

    def is_map(e):
        t = canon_expr(e)
        return t == 'self.delta'

    atoms = set()
    unknown = []

    def bind_gen(gen):
        # bindings of one comprehension generator that walks the transition map; returns False when it walks something else
        it = gen.iter
        if is_map(it) or (isinstance(it, ast.Call) and isinstance(it.func, ast.Attribute) and it.func.attr == 'keys' and is_map(it.func.value)):
            bind(gen.target, 'key')
            return True
        if isinstance(it, ast.Call) and isinstance(it.func, ast.Attribute) and it.func.attr == 'values' and is_map(it.func.value):
            bind(gen.target, 'val')
            return True
        if isinstance(it, ast.Call) and isinstance(it.func, ast.Attribute) and it.func.attr == 'items' and is_map(it.func.value) and isinstance(gen.target, ast.Tuple) and len(gen.target.elts) == 2:
            bind(gen.target.elts[0], 'key')
            bind(gen.target.elts[1], 'val')
            return True
        return False

    def elem_of(name):
        v = env.get(name)
        return v[5:-1] if isinstance(v, str) and v.startswith('elem(') and v.endswith(')') else None

    def bind_pairs(gens):
        """generators ranging over Q x Sigma (two generators, or one over itertools.product(Q, Sigma)); binds the variables"""
        if len(gens) == 2 and all(isinstance(g.target, ast.Name) and not g.ifs for g in gens[:1]) and isinstance(gens[1].target, ast.Name):
            for g in gens:
                env[g.target.id] = 'elem(' + canon_expr(g.iter) + ')'
            return True
        if len(gens) == 1 and isinstance(gens[0].iter, ast.Call) and u(gens[0].iter.func).split('.')[-1] == 'product' and len(gens[0].iter.args) == 2 and not gens[0].iter.keywords:
            a0, a1 = gens[0].iter.args
            tg = gens[0].target
            if isinstance(tg, ast.Tuple) and len(tg.elts) == 2 and all(isinstance(x, ast.Name) for x in tg.elts):
                env[tg.elts[0].id] = 'elem(' + canon_expr(a0) + ')'
                env[tg.elts[1].id] = 'elem(' + canon_expr(a1) + ')'
                return True
            if isinstance(tg, ast.Name):
                env[tg.id] = 'pair(' + canon_expr(a0) + ', ' + canon_expr(a1) + ')'
                return True
        return False

    def is_total_test(t, positive=True):
        """(q, a) in delta  with q ranging over Q and a over Sigma (positive), or its negation"""
        if isinstance(t, ast.UnaryOp) and isinstance(t.op, ast.Not):
            return is_total_test(t.operand, not positive)
        if not (isinstance(t, ast.Compare) and len(t.ops) == 1 and isinstance(t.ops[0], (ast.In, ast.NotIn))):
            return False
        if isinstance(t.ops[0], ast.NotIn):
            positive = not positive
        m = t.comparators[0]
        if isinstance(m, ast.Call) and isinstance(m.func, ast.Attribute) and m.func.attr == 'keys':
            m = m.func.value
        if not is_map(m) or not positive:
            return False
        k = t.left
        if isinstance(k, ast.Tuple) and len(k.elts) == 2 and all(isinstance(x, ast.Name) for x in k.elts):
            return elem_of(k.elts[0].id) == 'self.Q' and elem_of(k.elts[1].id) == 'self.Sigma'
        if isinstance(k, ast.Name):
            return env.get(k.id) == 'pair(self.Q, self.Sigma)'
        return False

    helpers = {}        # local one-expression predicates:  def is_state(q): return q in Q
    module_consts = {}
    mod_tree = getattr(getattr(cv, 'module', None), 'tree', None)
    for st0 in (mod_tree.body if mod_tree is not None else []):
        if isinstance(st0, ast.Assign) and len(st0.targets) == 1 and isinstance(st0.targets[0], ast.Name) and isinstance(st0.value, (ast.Tuple, ast.List, ast.Set)) \
                and all(isinstance(x, ast.Constant) for x in st0.value.elts):
            module_consts[st0.targets[0].id] = st0.value

    class _Subst(ast.NodeTransformer):
        def __init__(self, m):
            self.m = m

        def visit_Name(self, node):
            return self.m.get(node.id, node)

    def add_atom(t):
        # a named condition (flag = <expr> ... assert flag / assert not flag) is read through its definition
        n0 = t.operand if isinstance(t, ast.UnaryOp) and isinstance(t.op, ast.Not) else t
        if isinstance(n0, ast.Name) and isinstance(env.get(n0.id), str) and any(op in env[n0.id] for op in (' == ', ' != ', ' in ', ' <= ', ' and ', ' or ', 'not ')):
            try:
                sub = ast.parse(env[n0.id], mode='eval').body
            except SyntaxError:
                sub = None
            if sub is not None:
                add_atom(ast.UnaryOp(op=ast.Not(), operand=sub) if n0 is not t else sub)
                return
        # module-level constants (a tuple of directions ...) are read through their definition
        if isinstance(t, ast.Compare) and len(t.ops) == 1 and isinstance(t.ops[0], (ast.In, ast.NotIn)) and isinstance(t.comparators[0], ast.Name) \
                and t.comparators[0].id not in env and t.comparators[0].id in module_consts:
            t = ast.Compare(left=t.left, ops=t.ops, comparators=[module_consts[t.comparators[0].id]])
        # x == 'L' or x == 'R'   ->   x in {'L', 'R'}
        if isinstance(t, ast.BoolOp) and isinstance(t.op, ast.Or) and len(t.values) >= 2 and all(
                isinstance(v, ast.Compare) and len(v.ops) == 1 and isinstance(v.ops[0], ast.Eq) and isinstance(v.comparators[0], ast.Constant) and u(v.left) == u(t.values[0].left) for v in t.values):
            t = ast.Compare(left=t.values[0].left, ops=[ast.In()], comparators=[ast.Set(elts=[v.comparators[0] for v in t.values])])
        # split conjunctions
        if isinstance(t, ast.BoolOp) and isinstance(t.op, ast.And):
            for v in t.values:
                add_atom(v)
            return
        # not (A or B)  ==  not A and not B
        if isinstance(t, ast.UnaryOp) and isinstance(t.op, ast.Not) and isinstance(t.operand, ast.BoolOp) and isinstance(t.operand.op, ast.Or):
            for v in t.operand.values:
                add_atom(v.operand if isinstance(v, ast.UnaryOp) and isinstance(v.op, ast.Not) else ast.UnaryOp(op=ast.Not(), operand=v))
            return
        # a local one-expression predicate is read at its call
        neg = isinstance(t, ast.UnaryOp) and isinstance(t.op, ast.Not)
        c0 = t.operand if neg else t
        if isinstance(c0, ast.Call) and isinstance(c0.func, ast.Name) and c0.func.id in helpers and not c0.keywords and len(c0.args) == len(helpers[c0.func.id][0]):
            ps, body = helpers[c0.func.id]
            import copy as _copy
            inl = _Subst(dict(zip(ps, c0.args))).visit(_copy.deepcopy(body))
            add_atom(ast.UnaryOp(op=ast.Not(), operand=inl) if neg else inl)
            return
        # totality, spelled out:  (q, a) in delta  under loops over Q and Sigma
        if is_total_test(t):
            atoms.add('self._is_total()')
            return
        # delta[q, a] in S  is  "val in S"  for the keys the surrounding loops range over
        if isinstance(t, ast.Compare) and len(t.ops) == 1 and isinstance(t.ops[0], ast.In) and isinstance(t.left, ast.Subscript) and is_map(t.left.value):
            atoms.add('val in ' + canon_expr(t.comparators[0]))
            return
        # all((q, a) in delta for q in Q for a in Sigma)
        if isinstance(t, ast.Call) and isinstance(t.func, ast.Name) and t.func.id == 'all' and len(t.args) == 1 and isinstance(t.args[0], (ast.GeneratorExp, ast.ListComp)):
            saved = dict(env)
            if bind_pairs(t.args[0].generators) and is_total_test(t.args[0].elt):
                atoms.add('self._is_total()')
                env.clear()
                env.update(saved)
                return
            env.clear()
            env.update(saved)
        # missing = [(q, a) for q in Q for a in Sigma if (q, a) not in delta] ; assert not missing / len(missing) == 0
        m0 = t.operand if isinstance(t, ast.UnaryOp) and isinstance(t.op, ast.Not) else None
        if isinstance(t, ast.Compare) and len(t.ops) == 1 and isinstance(t.ops[0], ast.Eq) and isinstance(t.left, ast.Call) and u(t.left.func) == 'len' and u(t.comparators[0]) == '0':
            m0 = t.left.args[0]
        if isinstance(m0, ast.Name) and env.get(m0.id) == '__missing_pairs__':
            atoms.add('self._is_total()')
            return
        # all(c for .. in delta)  ==  c for every transition
        if isinstance(t, ast.Call) and isinstance(t.func, ast.Name) and t.func.id == 'all' and len(t.args) == 1 and isinstance(t.args[0], (ast.GeneratorExp, ast.ListComp)) \
                and len(t.args[0].generators) == 1 and not t.args[0].generators[0].ifs:
            saved = dict(env)
            if bind_gen(t.args[0].generators[0]):
                add_atom(t.args[0].elt)
                env.clear()
                env.update(saved)
                return
            env.clear()
            env.update(saved)
        # {e for .. in delta} <= S  ==  e in S for every transition;  A | B <= S  ==  A <= S and B <= S
        if isinstance(t, ast.Compare) and len(t.ops) == 1 and isinstance(t.ops[0], ast.LtE):
            lhs, rhs = t.left, t.comparators[0]
            parts = []

            def split(x):
                if isinstance(x, ast.BinOp) and isinstance(x.op, ast.BitOr):
                    split(x.left)
                    split(x.right)
                else:
                    parts.append(x)
            split(lhs)
            handled = 0
            for x in parts:
                comp = None
                if isinstance(x, ast.Call) and isinstance(x.func, ast.Name) and x.func.id in ('set', 'frozenset') and len(x.args) == 1:
                    comp = x.args[0]
                elif isinstance(x, ast.SetComp):
                    comp = x
                if isinstance(comp, (ast.GeneratorExp, ast.SetComp, ast.ListComp)) and len(comp.generators) == 1 and not comp.generators[0].ifs:
                    saved = dict(env)
                    if bind_gen(comp.generators[0]):
                        add_atom(ast.Compare(left=comp.elt, ops=[ast.In()], comparators=[rhs]))
                        handled += 1
                    env.clear()
                    env.update(saved)
                elif isinstance(x, ast.Call) and isinstance(x.func, ast.Attribute) and x.func.attr == 'union' and u(x.func.value) in ('set()', 'frozenset()') and len(x.args) == 1 \
                        and isinstance(x.args[0], ast.Starred) and isinstance(x.args[0].value, (ast.ListComp, ast.GeneratorExp)) and len(x.args[0].value.generators) == 1:
                    # set().union(*[e for ..]) unites the ELEMENTS of every e (for a string e: its characters)
                    c2 = x.args[0].value
                    saved = dict(env)
                    if bind_gen(c2.generators[0]):
                        atoms.add('elements_of({}) <= {}'.format(canon_expr(c2.elt), canon_expr(rhs)))
                        handled += 1
                    env.clear()
                    env.update(saved)
                elif isinstance(comp, ast.Call) and isinstance(comp.func, ast.Attribute) and comp.func.attr == 'values' and is_map(comp.func.value):
                    atoms.add('val in ' + canon_expr(rhs))
                    handled += 1
                elif comp is not None and is_map(comp):
                    atoms.add('key in ' + canon_expr(rhs))
                    handled += 1
            if handled == len(parts) and len(parts) >= 1 and (handled > 1 or not isinstance(lhs, ast.Name)) and handled > 0 and not (len(parts) == 1 and isinstance(parts[0], (ast.Name, ast.Attribute))):
                return
            if handled and handled != len(parts):
                unknown.append(u(t))
                return
        if isinstance(t, ast.UnaryOp) and isinstance(t.op, ast.Not) and isinstance(t.operand, ast.Compare) and len(t.operand.ops) == 1:
            c = t.operand
            flip = {ast.In: ast.NotIn, ast.NotIn: ast.In, ast.Eq: ast.NotEq, ast.NotEq: ast.Eq}.get(type(c.ops[0]))
            if flip:
                t = ast.Compare(left=c.left, ops=[flip()], comparators=c.comparators)
        # x in S or x == e   ->  x in S | {e}
        if isinstance(t, ast.BoolOp) and isinstance(t.op, ast.Or) and len(t.values) == 2:
            a, b = t.values
            for x, y in ((a, b), (b, a)):
                if isinstance(x, ast.Compare) and isinstance(x.ops[0], ast.In) and isinstance(y, ast.Compare) and isinstance(y.ops[0], ast.Eq) and u(x.left) in (u(y.left), u(y.comparators[0])):
                    other = y.comparators[0] if u(y.left) == u(x.left) else y.left
                    t = ast.Compare(left=x.left, ops=[ast.In()], comparators=[ast.BinOp(left=x.comparators[0], op=ast.BitOr(), right=ast.Set(elts=[other]))])
                    break
        txt = canon_expr(t)
        node = ast.parse(txt, mode='eval').body
        if any(isinstance(x, (ast.GeneratorExp, ast.ListComp, ast.SetComp, ast.DictComp, ast.Lambda)) for x in ast.walk(node)):
            unknown.append(txt)
            return
        if isinstance(node, ast.Call) and isinstance(node.func, ast.Attribute) and node.func.attr == 'issubset' and len(node.args) == 1:
            txt = '{} <= {}'.format(u(node.func.value), u(node.args[0]))
        elif isinstance(node, ast.Compare) and len(node.ops) == 1:
            a, b = node.left, node.comparators[0]
            if isinstance(node.ops[0], ast.GtE):
                txt = '{} <= {}'.format(u(b), u(a))
            elif isinstance(node.ops[0], ast.NotEq):
                x, y = sorted([u(a), u(b)])
                txt = '{} != {}'.format(x, y)
            elif isinstance(node.ops[0], (ast.In, ast.NotIn)) and isinstance(b, (ast.List, ast.Tuple, ast.Set)) and all(isinstance(x, ast.Constant) for x in b.elts):
                txt = '{} {} {{{}}}'.format(u(a), 'in' if isinstance(node.ops[0], ast.In) else 'not in', ', '.join(sorted(repr(x.value) for x in b.elts)))
            elif isinstance(node.ops[0], (ast.In, ast.NotIn)) and isinstance(b, ast.BinOp) and isinstance(b.op, ast.BitOr) and isinstance(b.left, ast.Set):
                txt = '{} {} {} | {}'.format(u(a), 'in' if isinstance(node.ops[0], ast.In) else 'not in', u(b.right), u(b.left))
        atoms.add(txt)

    def literal_rows(it):
        """the element expressions of a loop over a literal tuple / list (directly, or through a local name bound once)"""
        if isinstance(it, ast.Name) and it.id in literals:
            it = literals[it.id]
        if isinstance(it, (ast.Tuple, ast.List)):
            return list(it.elts)
        return None
    literals = {}

    def walk(stmts):
        for st in stmts:
            if isinstance(st, ast.FunctionDef):
                body = [x for x in st.body if not (isinstance(x, ast.Expr) and isinstance(x.value, ast.Constant))]
                if len(body) == 1 and isinstance(body[0], ast.Return) and body[0].value is not None:
                    helpers[st.name] = ([a.arg for a in st.args.args], body[0].value)
                continue
            if isinstance(st, ast.Assign) and len(st.targets) == 1 and isinstance(st.targets[0], ast.Name) and isinstance(st.value, (ast.Tuple, ast.List)) \
                    and st.value.elts and all(isinstance(x, (ast.Tuple, ast.Name, ast.Attribute)) for x in st.value.elts):
                literals[st.targets[0].id] = st.value
            if isinstance(st, ast.For) and literal_rows(st.iter) is not None and not is_map(st.iter):
                # a loop over a literal tuple of expressions is the sequence of its bodies
                for row in literal_rows(st.iter):
                    saved = dict(env)
                    if isinstance(st.target, ast.Name):
                        env[st.target.id] = canon_expr(row)
                    elif isinstance(st.target, (ast.Tuple, ast.List)) and isinstance(row, (ast.Tuple, ast.List)) and len(row.elts) == len(st.target.elts):
                        for t0, r0 in zip(st.target.elts, row.elts):
                            if isinstance(t0, ast.Name) and not isinstance(r0, ast.Constant):
                                env[t0.id] = canon_expr(r0)
                    walk(st.body)
                    env.clear()
                    env.update(saved)
                continue
            if isinstance(st, ast.Assign) and len(st.targets) == 1:
                tg, val = st.targets[0], st.value
                if isinstance(tg, (ast.Tuple, ast.List)) and isinstance(val, (ast.Tuple, ast.List)) and len(tg.elts) == len(val.elts) and not any(canon_expr(v).startswith('val') for v in val.elts):
                    for t, v in zip(tg.elts, val.elts):
                        if isinstance(t, ast.Name):
                            env[t.id] = canon_expr(v)
                    continue
                # x = delta[key...]  -> the value of the current key
                if isinstance(val, ast.Subscript) and is_map(val.value):
                    bind(tg, 'val')
                    continue
                if isinstance(tg, ast.Name) and isinstance(val, (ast.ListComp, ast.SetComp)) and val.generators and len(val.generators[-1].ifs) == 1:
                    saved = dict(env)
                    gens = [ast.comprehension(target=g.target, iter=g.iter, ifs=[], is_async=0) for g in val.generators]
                    cond = val.generators[-1].ifs[0]
                    neg = ast.UnaryOp(op=ast.Not(), operand=cond)
                    hit = bind_pairs(gens) and is_total_test(neg)
                    env.clear()
                    env.update(saved)
                    if hit:
                        env[tg.id] = '__missing_pairs__'
                        continue
                if isinstance(tg, ast.Name):
                    env[tg.id] = canon_expr(val)
                elif isinstance(tg, (ast.Tuple, ast.List)):
                    bind(tg, canon_expr(val))
                continue
            if isinstance(st, ast.For):
                it = st.iter
                if canon_expr(it) in ('self.Q', 'self.Sigma') and isinstance(st.target, ast.Name):
                    env[st.target.id] = 'elem(' + canon_expr(it) + ')'
                elif isinstance(it, ast.Call) and u(it.func).split('.')[-1] == 'product':
                    bind_pairs([ast.comprehension(target=st.target, iter=it, ifs=[], is_async=0)])
                if is_map(it):
                    bind(st.target, 'key')
                elif isinstance(it, ast.Call) and isinstance(it.func, ast.Attribute) and it.func.attr == 'items' and is_map(it.func.value) and isinstance(st.target, ast.Tuple) and len(st.target.elts) == 2:
                    bind(st.target.elts[0], 'key')
                    bind(st.target.elts[1], 'val')
                elif canon_expr(it) == 'val' or (isinstance(it, ast.Subscript) and is_map(it.value)):
                    # elements of a set-valued value
                    if isinstance(st.target, (ast.Tuple, ast.List)):
                        for i, t in enumerate(st.target.elts):
                            if isinstance(t, ast.Name):
                                env[t.id] = 'val_e{}'.format(i)
                    elif isinstance(st.target, ast.Name):
                        env[st.target.id] = 'val_e'
                walk(st.body)
                continue
            if isinstance(st, ast.Assert):
                add_atom(st.test)
                continue
            if isinstance(st, ast.If):
                walk(st.body)
                walk(st.orelse)
    walk(cv.node.body)
    return atoms, unknown


def check_invariants(ctx, rep, only=None):
    n = 0
    for spec, wanted in INVARIANTS.items():
        if only is not None and spec not in only:
            continue
        cls = ctx.prog.cls(spec)
        cv = cls.methods.get('_check_validity')
        init = cls.methods.get('__init__')
        if cv is None or init is None:
            rep.violates(RULE + '.inv', spec, 'class ' + cls.name, 'the class has no _check_validity')
            continue
        asserts, not_understood = _canonical_asserts(cv)
        # a validity check only checks: it does not rebind or edit a component of the object
        for st in walk_no_nested(cv.node):
            tgts = st.targets if isinstance(st, ast.Assign) else ([st.target] if isinstance(st, (ast.AugAssign, ast.AnnAssign)) else [])
            for t in tgts:
                if isinstance(t, (ast.Attribute, ast.Subscript)) and u(t).startswith('self.'):
                    n += 1
                    rep.violates(RULE + '.inv', cv, st, '{}._check_validity changes the object it is supposed to check ({} = ...): constructing the automaton silently edits it'.format(cls.name, u(t)))
        known_terms = ('self.', 'key', 'val')
        foreign = sorted(a for a in asserts if a not in wanted and any(isinstance(x, ast.Name) and not x.id.startswith(('key', 'val')) and x.id != 'self' for x in ast.walk(ast.parse(a, mode='eval'))))
        rep.extra.setdefault('invariant_atoms', {})[cls.name] = sorted(asserts)
        # ... and it rejects only what the definition rejects: an extra demand that applies a predicate to the VALUE of a
        # state or symbol (a pattern for the names, a length ...) turns valid automata away -- the constructions that name
        # their states after sets or pairs of states then fail on their own results.  Other extra demands are not judged.
        for atom in sorted(set(asserts) - set(wanted)):
            node = ast.parse(atom, mode='eval').body
            calls = [c for c in ast.walk(node) if isinstance(c, ast.Call) and not (isinstance(c.func, ast.Name) and c.func.id in ('len', 'isinstance', 'set', 'frozenset', 'all', 'any', 'sorted', 'list', 'tuple', 'elem', 'pair'))
                     and not (isinstance(c.func, ast.Attribute) and c.func.attr in ('issubset', 'issuperset', 'isdisjoint', 'keys', 'values', 'items', 'union', 'copy'))]
            if isinstance(node, ast.Call) and isinstance(node.func, ast.Name) and node.func.id == 'isinstance':
                continue
            n += 1
            if calls:
                rep.violates(RULE + '.inv', cv, 'extra demand ' + atom, '{}._check_validity demands `{}` of every object: the formal definition places no demand on what states and symbols look like, so valid automata '
                             '(e.g. those whose states are named after sets or pairs of states, as every construction of the library names them) are rejected'.format(cls.name, atom))
            else:
                rep.undecided(RULE + '.inv', cv, 'extra demand ' + atom, 'an assertion beyond the invariants of the definition; whether it follows from them is not decided')
        for atom in wanted:
            n += 1
            if atom in asserts:
                rep.holds(RULE + '.inv', cv, 'invariant ' + atom, 'invariant asserted', nontrivial=False)
            elif not_understood:
                rep.undecided(RULE + '.inv', cv, 'invariant ' + atom, 'not found among the asserted atoms, and the assertion(s) {} are outside the canonical forms'.format(not_understood[:2]))
            else:
                rep.violates(RULE + '.inv', cv, 'invariant ' + atom, 'the class invariant `{}` is no longer asserted by {}._check_validity (asserted, in canonical form: {})'.format(atom, cls.name, '; '.join(sorted(asserts))))
        # the constructor keeps what it is given: self.X = X (or a plain copy of X) for every component
        for p0 in init.params:
            if p0 in ('self', 'check_validity'):
                continue
            stores = [st for st in walk_no_nested(init.node) if isinstance(st, ast.Assign) and any(isinstance(t, ast.Attribute) and u(t.value) == 'self' and t.attr == p0 for t in st.targets)]
            if not stores:
                continue
            n += 1
            v = stores[0].value
            plain = isinstance(v, ast.Name) and v.id == p0
            copy_of = (isinstance(v, ast.Call) and len(v.args) == 1 and u(v.args[0]) == p0 and isinstance(v.func, (ast.Name, ast.Attribute)) and u(v.func).split('.')[-1] in ('set', 'dict', 'list', 'frozenset', 'deepcopy', 'copy')) \
                or (isinstance(v, ast.Call) and isinstance(v.func, ast.Attribute) and v.func.attr == 'copy' and u(v.func.value) == p0)
            if plain or copy_of:
                rep.holds(RULE + '.inv', init, stores[0], 'the component {} is stored as given'.format(p0), nontrivial=False)
            elif any(isinstance(x, (ast.GeneratorExp, ast.ListComp, ast.SetComp, ast.DictComp)) and any(g.ifs for g in x.generators) for x in ast.walk(v)) or \
                    (isinstance(v, ast.BinOp) and isinstance(v.op, (ast.Sub, ast.BitAnd))):
                rep.violates(RULE + '.inv', init, stores[0], 'the constructor of {} stores a FILTERED version of its argument {} ({}): the object is not the automaton it was given, e.g. explicitly given transitions are dropped'.format(cls.name, p0, u(v)))
            else:
                rep.undecided(RULE + '.inv', init, stores[0], 'the component {} is stored as {}, neither the argument nor a plain copy'.format(p0, u(v)))
        # the constructor runs the check by default
        d = init.defaults.get('check_validity')
        called = [c for c in _self_calls(init, '_check_validity')]
        fx = ctx.facts(init)
        if d is not None and isinstance(d, ast.Constant) and d.value is True and called:
            atoms = fx.guard_atoms(fx.stmt_of_expr(called[0]))
            if all(a[0] == 'truthy' and a[1] == 'check_validity' and a[3] is True for a in atoms):
                rep.holds(RULE + '.inv', init, called[0], 'validity is checked by default on construction')
            else:
                rep.violates(RULE + '.inv', init, called[0], 'the validity check is skipped under an extra condition')
        else:
            rep.violates(RULE + '.inv', init, 'def __init__', 'the constructor does not check validity by default')
    if only is not None and 'dfa.DFA' not in only:
        return n
    # DFA._is_total: some (q, a) in Q x Sigma without a transition <=> False
    f = ctx.prog.func('dfa.DFA._is_total')
    alias = {}
    units = [f] + list(f.nested.values())
    for g in units:
        for st in walk_no_nested(g.node):
            if isinstance(st, ast.Assign) and len(st.targets) == 1 and isinstance(st.targets[0], ast.Name) and isinstance(st.value, ast.Attribute) and u(st.value.value) == 'self':
                alias[st.targets[0].id] = 'self.' + st.value.attr

    def canon(e):
        t = u(e)
        return alias.get(t, t)
    sources = {}          # loop variable -> canonical collection it ranges over
    for g in units:
        for x in ast.walk(g.node):
            if isinstance(x, ast.For) and isinstance(x.target, ast.Name):
                sources[x.target.id] = canon(x.iter)
            if isinstance(x, ast.comprehension) and isinstance(x.target, ast.Name):
                sources[x.target.id] = canon(x.iter)
            if isinstance(x, (ast.For, ast.comprehension)) and not isinstance(x.target, ast.Name):
                sources['<tuple:{}>'.format(u(x.target))] = canon(x.iter.func.value) if isinstance(x.iter, ast.Call) and isinstance(x.iter.func, ast.Attribute) and x.iter.func.attr in ('items', 'keys', 'values') else canon(x.iter)
    # a nested helper called with the loop variable: its parameter ranges over the same collection
    for g in f.nested.values():
        for c in ast.walk(f.node):
            if isinstance(c, ast.Call) and isinstance(c.func, ast.Name) and c.func.id == g.name and len(c.args) == len(g.params):
                for p0, a0 in zip(g.params, c.args):
                    if isinstance(a0, ast.Name) and a0.id in sources:
                        sources[p0] = sources[a0.id]
    tests = []
    for g in units:
        for x in ast.walk(g.node):
            if isinstance(x, ast.Compare) and len(x.ops) == 1 and isinstance(x.ops[0], (ast.In, ast.NotIn)) and isinstance(x.left, ast.Tuple) and len(x.left.elts) == 2 \
                    and all(isinstance(e, ast.Name) for e in x.left.elts) and canon(x.comparators[0]) == 'self.delta':
                tests.append(x)
    n += 1
    ok = False
    partial = None
    for t in tests:
        srcs = [sources.get(e.id) for e in t.left.elts]
        if srcs == ['self.Q', 'self.Sigma']:
            ok = True
        else:
            partial = srcs
    iter_delta = any(v == 'self.delta' for v in sources.values())
    over_Q = any(v == 'self.Q' for v in sources.values())
    if ok:
        rep.holds(RULE + '.inv', f, 'def _is_total', 'totality ranges over every state of Q and every symbol of Sigma and tests (q, a) against delta')
    elif (iter_delta and not over_Q) or partial is not None:
        rep.violates(RULE + '.inv', f, 'def _is_total', 'totality must be: for all q in Q, a in Sigma: (q, a) in delta -- this version ranges over {} and never over Q: a state without any outgoing transition is not noticed'.format(
            'the keys of delta' if iter_delta else partial))
    else:
        rep.undecided(RULE + '.inv', f, 'def _is_total', 'form of the totality test not recognised')
    return n


def check_declared_vs_empty(ctx, rep):
    """a declared-but-empty set is not conflated with an omitted declaration"""
    n = 0
    for cname in list(KIND) + ['AutomatonBuilder', 'AutomatonParser']:
        cls = [c for c in ctx.prog.classes.values() if c.name == cname]
        if not cls:
            continue
        for f in cls[0].methods.values():
            optional = set()
            for st in walk_no_nested(f.node):
                if isinstance(st, ast.Assign) and len(st.targets) == 1 and isinstance(st.targets[0], ast.Name) and isinstance(st.value, ast.Call) \
                        and isinstance(st.value.func, ast.Attribute) and st.value.func.attr == 'get_symbol_set' and len(st.value.args) == 1:
                    optional.add(st.targets[0].id)     # no default: None when the declaration is omitted
                if isinstance(st, ast.Assign) and len(st.targets) == 1 and isinstance(st.targets[0], ast.Name) and isinstance(st.value, ast.Call) \
                        and isinstance(st.value.func, ast.Attribute) and st.value.func.attr == 'get' and u(st.value.func.value).endswith('.items') and len(st.value.args) == 1:
                    optional.add(st.targets[0].id)     # None when the keyword is missing, [] when it is declared empty
                # any value computed from items.get(key[, default]): the look-up no longer tells "missing" from "declared empty"
                if isinstance(st, ast.Assign) and len(st.targets) == 1 and isinstance(st.targets[0], ast.Name):
                    for c in ast.walk(st.value):
                        if isinstance(c, ast.Call) and isinstance(c.func, ast.Attribute) and c.func.attr == 'get' and u(c.func.value).endswith('.items') and c.args:
                            optional.add(st.targets[0].id)
            for t in walk_no_nested(f.node):
                if not isinstance(t, (ast.If, ast.IfExp, ast.While)):
                    continue
                for a in atoms_of(t.test, True):
                    if a[0] == 'truthy' and a[1] in optional:
                        n += 1
                        rep.violates(RULE + '.optional', f, t if isinstance(t, ast.stmt) else t.test, 'truthiness test on {} conflates an omitted declaration (None) with a declared empty set: an explicitly empty alphabet is replaced by the default'.format(a[1]))
                    elif a[0] == 'truthy' and ('.items.get(' in a[1]):
                        n += 1
                        rep.violates(RULE + '.optional', f, t if isinstance(t, ast.stmt) else t.test, 'truthiness test on {} conflates a missing keyword with an empty declaration'.format(a[1]))
                    elif a[0] == 'eq' and a[2] == 'None' and a[1] in optional:
                        n += 1
                        rep.holds(RULE + '.optional', f, t if isinstance(t, ast.stmt) else t.test, 'omitted declaration is tested with `is None`')
    return n


def check_value_validators(ctx, rep, rule=RULE + '.sortcheck'):
    """a keyword that carries a SYMBOL (epsilon, blank, the alphabets) is never validated as a state name and a keyword
    that carries a STATE (accept, reject) is never validated as a symbol: the two label languages differ ('#', '$', the
    blank box are symbols but not state names), so the wrong validator rejects what the printers write"""
    from .state import reachable_functions
    n = 0
    base = [c for c in ctx.prog.classes.values() if c.name == 'AutomatonBuilder' and not c.module.name.startswith('template:')]
    if not base:
        raise AnalysisError('AutomatonBuilder vanished')
    getters = {'symbol': ['get_symbol', 'parse_symbol', 'get_symbol_set'], 'state': ['get_state']}
    forbidden = {'symbol': ('_check_state_label', '_check_state_labels'), 'state': ('_check_symbol', '_check_symbols')}
    for kind, names in getters.items():
        for nm in names:
            m = ctx.prog.find_method(base[0], nm)
            if m is None:
                continue
            n += 1
            reach = reachable_functions(ctx, [m])
            bad = [g for g in reach.values() if g.name in forbidden[kind]]
            # direct self-calls are resolved through the class; also scan the bodies for unresolved self.<validator>() calls
            for g in list(reach.values()):
                for c in ast.walk(g.node):
                    if isinstance(c, ast.Call) and isinstance(c.func, ast.Attribute) and c.func.attr in forbidden[kind] and u(c.func.value) == 'self':
                        bad.append(g)
            if bad:
                rep.violates(rule, m, 'def ' + m.name, 'the getter {} of a {}-valued keyword reaches the validator {} (through {}): a declared {} such as # or the blank box is rejected as an invalid {} although the printers write it'.format(
                    nm, kind, '/'.join(forbidden[kind]), bad[0].name, kind, 'state label' if kind == 'symbol' else 'symbol'))
            else:
                rep.holds(rule, m, 'def ' + m.name, 'the getter {} of a {}-valued keyword never reaches the validator of the other sort'.format(nm, kind), nontrivial=False)
    # the single declared symbols (blank, epsilon) live in the label alphabets of the TM / PDA formats, which are wider than
    # the pattern of INPUT symbols: the input-symbol validator must not be applied to them
    from .. import relang
    from .io import _eval_regex_fn
    pats = {}
    for g in ctx.prog.functions.values():
        if g.parent is None and g.name.endswith('_regex') and not g.module.name.startswith('template:') and not g.pos_params:
            pv = _eval_regex_fn(g)
            if pv is not None:
                pats[g.name] = pv
    vp = pats.get('default_symbol_regex')
    wide = None
    if vp is not None:
        for nm0, pv in sorted(pats.items()):
            if 'transition' in nm0 and nm0 != 'default_transition_label_regex':
                try:
                    ok, wit = relang.included(pv, '(({})|,)*'.format(vp))
                except Exception:
                    continue
                if not ok:
                    wide = (nm0, pv, wit)
                    break
    if wide is not None:
        for nm in ('get_symbol', 'parse_symbol'):
            m = ctx.prog.find_method(base[0], nm)
            if m is None:
                continue
            n += 1
            reach = reachable_functions(ctx, [m])
            hit = [g for g in reach.values() if g.name in ('_check_symbol', '_check_symbols')]
            for g in list(reach.values()):
                for c in ast.walk(g.node):
                    if isinstance(c, ast.Call) and isinstance(c.func, ast.Attribute) and c.func.attr in ('_check_symbol', '_check_symbols') and u(c.func.value) == 'self':
                        hit.append(g)
            if hit:
                rep.violates(rule, m, 'def ' + m.name + ' (declared blank / epsilon)', 'the getter {} of the single declared symbols (blank, epsilon) applies the validator of INPUT symbols ({}), but the label format {} ({}) admits symbols outside it '
                             '(witness label {!r}): a description that declares such a blank, as print_tm writes it, is rejected'.format(nm, vp, wide[0], wide[1], wide[2]))
            else:
                rep.holds(rule, m, 'def ' + m.name + ' (declared blank / epsilon)', 'the input-symbol validator is not applied to the declared blank / epsilon, whose label alphabet is wider ({} admits {!r})'.format(wide[0], wide[2]))
    return n


def check_tm_default_alphabet(ctx, rep, rule=RULE + '.default'):
    """an omitted input alphabet of a Turing machine is the TAPE alphabet without the blank -- the same collection that
    becomes Gamma (declared, or derived from the transitions when not declared), not some other collection"""
    cls = [c for c in ctx.prog.classes.values() if c.name == 'TMBuilder']
    if not cls or 'build' not in cls[0].methods:
        raise AnalysisError('TMBuilder.build vanished')
    build = cls[0].methods['build']
    ctor = [c for c in ctx.prog.calls_in(build) if ctx.callee_name(build, c) == 'TM']
    if len(ctor) != 1 or len(ctor[0].args) < 3:
        rep.undecided(rule, build, 'def build', 'TM constructor call not found')
        return 0

    def source_name(arg):
        e = resolve_alias(build, arg) if isinstance(arg, ast.Name) else arg
        if isinstance(e, ast.Call) and e.args:
            e = e.args[0]
        if isinstance(e, (ast.GeneratorExp, ast.SetComp, ast.ListComp)) and isinstance(e.generators[0].iter, ast.Name):
            return e.generators[0].iter.id
        return None
    from .models import resolve_alias
    sig_src, gam_src = source_name(ctor[0].args[1]), source_name(ctor[0].args[2])
    if not sig_src or not gam_src:
        rep.undecided(rule, build, ctor[0], 'sources of Sigma / Gamma not recognised')
        return 0
    fx = ctx.facts(build)
    defaults = []
    for st in walk_no_nested(build.node):
        if isinstance(st, ast.Assign) and len(st.targets) == 1 and isinstance(st.targets[0], ast.Name) and st.targets[0].id == sig_src:
            atoms = fx.guard_atoms(fx.cfg.n_of(st))
            if any(a[0] == 'eq' and a[3] is True and a[1] == sig_src and a[2] == 'None' for a in atoms):
                defaults.append(st)
    if not defaults:
        rep.undecided(rule, build, 'def build', 'no default for an omitted input alphabet found')
        return 0
    st = defaults[0]
    used = set(names_in(st.value))
    if gam_src in used and isinstance(st.value, ast.BinOp) and isinstance(st.value.op, ast.Sub):
        rep.holds(rule, build, st, 'the omitted input alphabet is {} (the collection that becomes Gamma) minus the blank'.format(gam_src))
    elif gam_src not in used:
        rep.violates(rule, build, st, 'the omitted input alphabet is derived from {} instead of {}, the collection that becomes Gamma: declared tape symbols that no transition mentions are missing from Sigma'.format(', '.join(sorted(used - {"blank"})) or u(st.value), gam_src))
    else:
        rep.undecided(rule, build, st, 'default {} not of the form Gamma-source minus blank'.format(u(st.value)))
    return 1
