"""R-FRESH -- every introduced name is fresh for the set it joins; R-EPS -- the epsilon used in the keys is the
epsilon the automaton is told about."""
import ast
import re

from .. import abseval
from ..astutil import u, names_in, walk_no_nested, must_atoms
from ..model import norm, AnalysisError
from .models import single_def, resolve_alias, ctor_call, ctor_arg

RULE = 'R-FRESH'
PROVIDERS = {'fresh_state', 'fresh_symbol', 'cfg_fresh_variable', '_fresh_state', '_fresh_nfa_state', 'fresh_identifier'}
NAME_CTORS = {'State', 'Symbol', 'Variable', 'Terminal'}


# ---- providers ---------------------------------------------------------------------------------------------

def _candidate_count(ctx, f, e):
    """number of candidates a `for c in <e>` loop can try, if it is a known finite sequence"""
    e = resolve_alias(f, e)
    if isinstance(e, ast.Constant) and isinstance(e.value, str):
        return len(e.value)
    if isinstance(e, ast.Attribute) and u(e) == 'string.ascii_uppercase':
        return 26
    if isinstance(e, ast.Attribute) and u(e) in ('string.ascii_lowercase',):
        return 26
    if isinstance(e, ast.Attribute) and u(e) == 'string.ascii_letters':
        return 52
    return None


def _membership_only(f, sets, bags):
    """the sets a provider is given are only ever asked "is this name in you?": every occurrence of a set (a set
    parameter, an alias, an element of a list of sets) is the right operand of in / not in, an element of a list / tuple of
    sets, an argument handed on to a local helper or appended to such a list; lists of sets are only iterated, extended,
    tested against None.  Then the answer depends on the given sets through the membership of the candidates alone, and the
    subsets of the first candidates are all the cases.  (A provider that sorts, measures or parses the names -- the
    largest numeric suffix plus one -- is outside this class.)"""
    sets, bags = set(sets), set(bags)
    units = [f] + list(f.nested.values())
    parent = {}
    for g in units:
        for n in ast.walk(g.node):
            for c in ast.iter_child_nodes(n):
                parent[id(c)] = n
    for _ in range(4):
        for g in units:
            for n in ast.walk(g.node):
                if isinstance(n, ast.Assign) and len(n.targets) == 1 and isinstance(n.targets[0], ast.Name):
                    v = n.value
                    if isinstance(v, ast.Name) and v.id in sets:
                        sets.add(n.targets[0].id)
                    if isinstance(v, (ast.List, ast.Tuple)) and v.elts and all(isinstance(x, ast.Name) and x.id in sets or isinstance(x, ast.Starred) and isinstance(x.value, ast.Name) and x.value.id in bags for x in v.elts):
                        bags.add(n.targets[0].id)
                    if isinstance(v, ast.Name) and v.id in bags:
                        bags.add(n.targets[0].id)
                its = []
                if isinstance(n, ast.For):
                    its.append((n.target, n.iter))
                if isinstance(n, (ast.GeneratorExp, ast.ListComp, ast.SetComp)):
                    its += [(g0.target, g0.iter) for g0 in n.generators]
                for tg, it in its:
                    if isinstance(it, ast.Name) and it.id in bags and isinstance(tg, ast.Name):
                        sets.add(tg.id)
            # parameters of local helpers that receive a set / a list of sets
            for c in ast.walk(g.node):
                if isinstance(c, ast.Call) and isinstance(c.func, ast.Name) and c.func.id in f.nested:
                    h = f.nested[c.func.id]
                    for p0, a0 in zip(h.params, c.args):
                        if isinstance(a0, ast.Name) and a0.id in sets:
                            sets.add(p0)
                        if isinstance(a0, ast.Name) and a0.id in bags:
                            bags.add(p0)
    for g in units:
        for n in ast.walk(g.node):
            if not (isinstance(n, ast.Name) and isinstance(n.ctx, ast.Load) and (n.id in sets or n.id in bags)):
                continue
            p = parent.get(id(n))
            ok = False
            if isinstance(p, ast.Compare) and len(p.ops) == 1:
                if isinstance(p.ops[0], (ast.In, ast.NotIn)) and p.comparators[0] is n and n.id in sets:
                    ok = True
                if isinstance(p.ops[0], (ast.Is, ast.IsNot)):
                    ok = True
            elif isinstance(p, (ast.For, ast.comprehension)) and p.iter is n and n.id in bags:
                ok = True
            elif isinstance(p, (ast.List, ast.Tuple, ast.Starred)):
                ok = True
            elif isinstance(p, ast.Assign) and p.value is n:
                ok = True
            elif isinstance(p, ast.Call) and any(a is n for a in p.args):
                fn = p.func
                if isinstance(fn, ast.Name) and fn.id in f.nested:
                    ok = True
                if isinstance(fn, ast.Attribute) and fn.attr in ('extend', 'append') and isinstance(fn.value, ast.Name) and fn.value.id in bags:
                    ok = True
            elif isinstance(p, ast.Attribute) and p.value is n and p.attr in ('extend', 'append') and n.id in bags:
                ok = True
            if not ok:
                return False
    return True


def _check_provider_model(ctx, rep, f):
    """A provider of fresh names decides by membership tests of its candidates in the sets it is given.  It is evaluated
    (analyser's own evaluator) on every combination of subsets of its first three candidates -- found by asking it with
    the empty universe, then with the first candidate taken, then with the first two -- and what it returns must lie
    outside every set it was given.  Running out of candidates (an exception) is not a wrong answer.  Returns True when
    decided, False when the provider is outside the evaluator's fragment."""
    import itertools
    from ..miniexec import Interp, Obj, Raised
    from ..abseval import Unsupported as U2
    node = f.node
    params = [a.arg for a in node.args.args]
    if node.args.kwonlyargs or node.args.kwarg:
        return False
    roles = []
    for a in node.args.args:
        ann = u(a.annotation) if a.annotation is not None else ''
        if 'IdentifierGenerator' in ann or a.arg in ('id_generator', 'generator'):
            roles.append('gen')
        elif ann.startswith(('Set[', 'Iterable[Set', 'AbstractSet[', 'FrozenSet[')) or a.arg in ('Q', 'Sigma', 'Gamma', 'V'):
            roles.append('set')
        elif ann.startswith(('Iterable[str', 'Sequence[str', 'List[str', 'str')) and a.arg in ('symbols', 'candidates', 'names'):
            roles.append('cands')
        elif ann in ('str',) or a.arg in ('hint', 'prefix'):
            roles.append('hint')
        else:
            roles.append(None)
    ndefaults = len(node.args.defaults)
    required = len(params) - ndefaults
    extra_sets = 2 if node.args.vararg is not None else 0
    if ('set' not in roles[:required] and not extra_sets) or any(r is None for r in roles[:required]):
        return False
    nsets = roles[:required].count('set') + extra_sets
    if not _membership_only(f, [p0 for p0, r0 in zip(params, roles) if r0 == 'set'], ([node.args.vararg.arg] if node.args.vararg is not None else []) +
                            [a.arg for a in node.args.args if a.annotation is not None and u(a.annotation).replace('Optional[', '').startswith(('Iterable[Set', 'List[Set', 'Sequence[Set'))]):
        return False

    def gen_stub(interp, args, kwargs):
        g = args[0]
        g._f['index'] = g._f.get('index', 0) + 1
        return '{}{}'.format(args[1] if len(args) > 1 else 'q', g._f['index'] - 1)

    def run(sets):
        args, k = [], 0
        for r in roles[:required]:
            if r == 'set':
                args.append(set(sets[k])); k += 1
            elif r == 'gen':
                args.append(Obj('IdentifierGenerator', index=0))
            elif r == 'cands':
                args.append('xyzw')
            else:
                args.append('h')
        args += [set(x) for x in sets[k:]]
        it = Interp(ctx, stubs={'IdentifierGenerator.generate': gen_stub}, max_steps=4000)
        return it.call(f, args)
    try:
        names = []
        for _ in range(3):
            try:
                r = run([set(names)] + [set()] * (nsets - 1))
            except Raised:
                break
            if not isinstance(r, str) or r in names:
                if isinstance(r, str) and r in names:
                    rep.violates(RULE + '.provider', f, 'def ' + f.name, 'asked for a name outside {} the provider returns {!r} (finite-model evaluation): the "fresh" name coincides with an existing one'.format(sorted(names), r))
                    return True
                return False
            names.append(r)
        if not names:
            return False
        subsets = [set(c) for k in range(len(names) + 1) for c in itertools.combinations(names, k)]
        cases = 0
        for combo in itertools.product(subsets, repeat=nsets):
            cases += 1
            try:
                r = run(list(combo))
            except Raised:
                continue
            if r is None or not isinstance(r, str):
                rep.violates(RULE + '.provider', f, 'def ' + f.name, 'with the sets {} the provider returns {!r} instead of a name'.format([sorted(c) for c in combo], r))
                return True
            hit = [sorted(c) for c in combo if r in c]
            if hit:
                rep.violates(RULE + '.provider', f, 'def ' + f.name, 'with the sets {} the provider returns {!r}, which is an element of {} (finite-model evaluation over the subsets of its first candidates {}): the "fresh" name can coincide with an existing one'.format(
                    [sorted(c) for c in combo], r, hit[0], names))
                return True
    except (U2, RecursionError):
        return False
    rep.holds(RULE + '.provider', f, 'def ' + f.name, 'on all {} combinations of subsets of its first candidates {} the returned name lies outside every set the provider was given (finite-model evaluation)'.format(cases, names))
    return True


def check_provider(ctx, rep, f):
    """every returned candidate is dominated by `candidate not in universe`; an implicit fall-off (returning None)
    is only tolerated when a dominating guard makes it infeasible by counting"""
    if _check_provider_model(ctx, rep, f):
        return
    fx = ctx.facts(f)
    cfg = fx.cfg
    ma = must_atoms(fx)
    universes = set()
    for p in f.pos_params:
        universes.add(p.arg)
    # aliases: V = G.V
    alias = {}
    for n in walk_no_nested(f.node):
        if isinstance(n, ast.Assign) and len(n.targets) == 1 and isinstance(n.targets[0], ast.Name) and isinstance(n.value, ast.Attribute) \
                and isinstance(n.value.value, ast.Name) and n.value.value.id in universes:
            alias[n.targets[0].id] = u(n.value)
    rets = [n for n in walk_no_nested(f.node) if isinstance(n, ast.Return)]
    if not rets:
        rep.undecided(RULE + '.provider', f, 'def ' + f.name, 'no return statement')
        return
    def strip_cast(t):
        # Variable(x) / State(x) / Symbol(x): str subclasses and NewTypes compare and hash as the string they wrap
        m = re.fullmatch(r'(?:\w+\.)?(?:Variable|Terminal|State|Symbol|nfaSymbol)\((.+)\)', t)
        return m.group(1) if m else t
    explicit_none = []
    for r in rets:
        if r.value is None or (isinstance(r.value, ast.Constant) and r.value.value is None):
            # `return None` right after the candidate loop is the fall-off of that loop, written out
            prev = None
            for blk in ast.walk(f.node):
                for fld in ('body', 'orelse', 'finalbody'):
                    lst = getattr(blk, fld, None)
                    if isinstance(lst, list) and r in lst and lst.index(r) > 0:
                        prev = lst[lst.index(r) - 1]
            if isinstance(prev, ast.For):
                explicit_none.append(cfg.n_of(prev))
            else:
                rep.violates(RULE + '.provider', f, r, 'a provider of fresh names returns None')
            continue
        nid = cfg.n_of(r)
        atoms = set(ma.get(nid, frozenset())) | {a[:4] for a in fx.guard_atoms(nid)}
        cand = u(r.value)
        texts = {cand}
        # the returned name may have been bound from the tested expression just before:  A = Variable(hint); return A
        if isinstance(r.value, ast.Name):
            for n in walk_no_nested(f.node):
                if isinstance(n, ast.Assign) and len(n.targets) == 1 and u(n.targets[0]) == cand and cfg.dominates(cfg.n_of(n), nid):
                    texts.add(u(n.value))
                    # facts about the bound expression that held right before the binding
                    for a in ma.get(cfg.n_of(n), frozenset()):
                        if a[0] == 'in' and a[1] == u(n.value):
                            atoms.add(a[:4])
                    # Variable(A) tested, then A = Variable(A): the tested text mentions the old A
        ok = False
        stexts = {strip_cast(t) for t in texts}
        for a in atoms:
            if a[0] == 'in' and a[3] is False and (a[2] in universes or a[2] in alias) and (a[1] in texts or strip_cast(a[1]) in stexts):
                ok = True
        if not ok:
            # retry loop on a named flag:  x = draw(); taken = x in U; while taken: x = draw(); taken = x in U   -- at the exit
            # the last evaluation of `x in U` was false and x has not been re-bound since
            prev = None
            for blk in ast.walk(f.node):
                for fld in ('body', 'orelse'):
                    lst = getattr(blk, fld, None)
                    if isinstance(lst, list) and r in lst and lst.index(r) > 0:
                        prev = lst[lst.index(r) - 1]
            if isinstance(prev, ast.While) and isinstance(prev.test, ast.Name) and not prev.orelse and not any(isinstance(x, ast.Break) for x in ast.walk(prev)):
                flag = prev.test.id
                sets = [st0 for st0 in walk_no_nested(f.node) if isinstance(st0, ast.Assign) and len(st0.targets) == 1 and u(st0.targets[0]) == flag]
                rhs = {u(st0.value) for st0 in sets}
                last_in_block = all(any(isinstance(getattr(b0, fld, None), list) and getattr(b0, fld) and (getattr(b0, fld)[-1] is st0 or (st0 in getattr(b0, fld) and getattr(b0, fld)[getattr(b0, fld).index(st0) + 1:getattr(b0, fld).index(st0) + 2] == [prev]))
                                        for b0 in ast.walk(f.node) for fld in ('body', 'orelse')) for st0 in sets)
                if len(rhs) == 1 and sets and last_in_block:
                    t0 = sets[0].value
                    if isinstance(t0, ast.Compare) and len(t0.ops) == 1 and isinstance(t0.ops[0], ast.In) and u(t0.left) in texts and (u(t0.comparators[0]) in universes or u(t0.comparators[0]) in alias):
                        ok = True
        # raise-on-exhaustion providers: `for s in symbols: ... if symbol not in Sigma: return symbol`
        if ok:
            rep.holds(RULE + '.provider', f, r, 'the returned name is dominated by the test that it is not in the universe')
        else:
            rep.violates(RULE + '.provider', f, r, 'the provider returns {} on a path that does not establish `{} not in <universe>`: the "fresh" name can coincide with an existing one'.format(cand, cand))
    # implicit fall-off
    falls = [p for (p, lab) in cfg.pred[cfg.exit] if not isinstance(cfg.node[p].stmt, ast.Return)] + [p for p in explicit_none if p is not None]
    for p in falls:
        node = cfg.node[p]
        if node.kind == 'for':
            it = node.expr
            if isinstance(it, ast.Call) and ctx.callee_name(f, it) in ('itertools.count', 'count'):
                rep.holds(RULE + '.provider', f, node.stmt, 'the candidates come from an unbounded counter (itertools.count): the loop never runs out of them')
                continue
            K = _candidate_count(ctx, f, node.expr)
            atoms = set(ma.get(p, frozenset())) | {a[:4] for a in fx.guard_atoms(p)}
            bounds = [a for a in atoms if a[0] == 'lencmp' and (a[1] in universes or a[1] in alias)]
            if K is None and isinstance(node.expr, ast.Call) and isinstance(node.expr.func, ast.Name) and node.expr.func.id in f.nested:
                # the candidates come from a nested generator function: how many there are (an unbounded counter inside it?) is not
                # read off the loop header -- the rule cannot claim that they run out (benign C08-w/r3)
                rep.undecided(RULE + '.provider', f, node.stmt, 'the candidates come from the nested function {}: whether they can run out is not decided'.format(node.expr.func.id))
                continue
            if K is None or not bounds:
                rep.violates(RULE + '.provider', f, node.stmt, 'when all candidates are taken the provider falls off its loop and returns None as the "fresh" name (no dominating bound on the size of the universe)')
                continue
            # is |U| == K consistent with every bound?  then all K candidates may be taken
            feasible = False
            for size in (K, K + 1):
                if all(_lencmp_holds(a, size) for a in bounds):
                    feasible = True
            if feasible:
                rep.violates(RULE + '.provider', f, node.stmt, 'the loop tries {} candidates, but the guard admits a universe of {} or more names: when they are all taken the provider returns None as the "fresh" name'.format(K, K))
            else:
                rep.holds(RULE + '.provider', f, node.stmt, 'fall-off is infeasible: the guard bounds the universe below the {} candidates tried (pigeonhole)'.format(K))
        else:
            rep.violates(RULE + '.provider', f, node.stmt if node.stmt is not None else 'def ' + f.name, 'a path falls off the end of the provider and returns None')


def _lencmp_holds(a, size):
    op, k = a[2]
    r = {'Lt': size < k, 'LtE': size <= k, 'Gt': size > k, 'GtE': size >= k, 'Eq': size == k, 'NotEq': size != k}[op]
    return r if a[3] else not r


# ---- introduction sites ---------------------------------------------------------------------------------------

def _provenance(ctx, f, e, depth=0):
    """('provider', call) | ('literal', call) | ('generator', call) | None for a name expression"""
    if depth > 4:
        return None
    e = resolve_alias(f, e)
    if isinstance(e, ast.Call):
        name = ctx.callee_name(f, e)
        if name in PROVIDERS:
            return ('provider', e)
        if name in NAME_CTORS and len(e.args) == 1:
            a = e.args[0]
            if isinstance(a, ast.Constant) and isinstance(a.value, str):
                return ('literal', e)
            if isinstance(a, ast.Call) and isinstance(a.func, ast.Attribute) and a.func.attr == 'generate':
                return ('generator', e)
            return _provenance(ctx, f, a, depth + 1)
        if isinstance(e.func, ast.Attribute) and e.func.attr == 'fresh_state' and isinstance(e.func.value, ast.Name) and e.func.value.id == 'self':
            return ('generator', e)
    return None


def _set_terms(f, e):
    """names/attribute texts united in a set expression (A | B | {x})"""
    e = resolve_alias(f, e)
    if isinstance(e, ast.BinOp) and isinstance(e.op, ast.BitOr):
        return _set_terms(f, e.left) | _set_terms(f, e.right)
    if isinstance(e, ast.Call) and isinstance(e.func, ast.Attribute) and e.func.attr == 'copy':
        return _set_terms(f, e.func.value)
    if isinstance(e, ast.Call) and isinstance(e.func, ast.Name) and e.func.id == 'set' and len(e.args) == 1:
        return _set_terms(f, e.args[0])
    if isinstance(e, ast.Call) and isinstance(e.func, ast.Attribute) and e.func.attr == 'union' and e.args and not any(isinstance(a, ast.Starred) for a in e.args):
        out = _set_terms(f, e.func.value)
        for a in e.args:
            out |= _set_terms(f, a)
        return out
    if isinstance(e, ast.Set):
        return {'{' + u(x) + '}' for x in e.elts}
    return {u(e)}


def check_introductions(ctx, rep, f):
    """names introduced into a set that also holds operand names come from a provider whose universe covers that set"""
    fx = ctx.facts(f)
    cfg = fx.cfg
    n = 0
    g = f
    sites = []     # (stmt, target set expr, name expr, universe terms)
    for st in walk_no_nested(g.node):
        if isinstance(st, ast.Expr) and isinstance(st.value, ast.Call) and isinstance(st.value.func, ast.Attribute) and st.value.func.attr == 'add' and st.value.args:
            ts = st.value.func.value
            sites.append((st, ts, st.value.args[0], {u(resolve_alias(g, ts)), u(ts)}))
        elif isinstance(st, (ast.Assign, ast.AnnAssign)) and ((isinstance(st.value, ast.BinOp) and isinstance(st.value.op, ast.BitOr)) or
                                                             (isinstance(st.value, ast.Call) and isinstance(st.value.func, ast.Attribute) and st.value.func.attr == 'union')):
            terms = _set_terms(g, st.value)
            lits = [t for t in terms if t.startswith('{')]
            others = {t for t in terms if not t.startswith('{')}
            if not lits or not others:
                continue
            for lit in lits:
                try:
                    ne = ast.parse(lit[1:-1], mode='eval').body
                except SyntaxError:
                    continue
                sites.append((st, st.targets[0] if isinstance(st, ast.Assign) else st.target, ne, set(others)))
        else:
            # the union is written where it is used:  GNFA(D.Q | {q_start, q_accept}, ...)  /  return NFA(N.Q | {q0}, ...)
            inner = [x for x in ast.walk(st) if isinstance(x, ast.Call)] if isinstance(st, (ast.Return, ast.Expr, ast.Assign, ast.AnnAssign)) else []
            for c0 in inner:
                for a0 in list(c0.args) + [k.value for k in c0.keywords]:
                    if (isinstance(a0, ast.BinOp) and isinstance(a0.op, ast.BitOr)) or (isinstance(a0, ast.Call) and isinstance(a0.func, ast.Attribute) and a0.func.attr == 'union'):
                        terms = _set_terms(g, a0)
                        lits = [t for t in terms if t.startswith('{')]
                        others = {t for t in terms if not t.startswith('{')}
                        if not lits or not others:
                            continue
                        for lit in lits:
                            try:
                                ne = ast.parse(lit[1:-1], mode='eval').body
                            except SyntaxError:
                                continue
                            sites.append((st, a0, ne, set(others)))
    ma = must_atoms(fx)
    for (st, target_set, name_expr, universe_terms) in sites:
        prov = _provenance(ctx, g, name_expr)
        if prov is None and isinstance(name_expr, ast.Name):
            # drawn in a retry loop written in place:  x = gen(); while x in U: x = gen()  -- at the site `x not in U` holds
            defs = single_def(g, name_expr.id)
            if len(defs) >= 2 and all(_provenance(ctx, g, d) is not None and _provenance(ctx, g, d)[0] == 'generator' for d in defs):
                nid = cfg.n_of(st)
                atoms = set(ma.get(nid, frozenset())) | {a[:4] for a in fx.guard_atoms(nid)}
                tested = {a[2] for a in atoms if a[0] == 'in' and a[3] is False and a[1] == name_expr.id}
                res0 = lambda t: u(resolve_alias(g, ast.parse(t, mode='eval').body)) if _parses(t) else t
                need0 = {t for t in universe_terms if t != u(name_expr)}
                tested_r = tested | {res0(t) for t in tested}
                missing0 = [t for t in need0 if t not in tested_r and res0(t) not in tested_r and not (res0(t).endswith('.F') and (res0(t)[:-2] + '.Q') in tested_r)]
                n += 1
                if tested and not missing0:
                    rep.holds(RULE + '.site', g, st, 'the name is redrawn until it is not in {} (retry loop written in place), which covers the set it joins'.format(sorted(tested)))
                else:
                    rep.violates(RULE + '.site', g, st, 'the name {} is drawn from a generator in a loop, but at this point it is not known to be outside {}'.format(name_expr.id, sorted(missing0 or need0)))
                continue
        if prov is None and isinstance(name_expr, ast.Name):
            # the introduced name is bound on several paths: each binding must be a fresh name
            defs = single_def(g, name_expr.id)
            if len(defs) >= 2:
                # only the bindings that REACH this site count:  A = table.get(k);  if A is None: A = fresh(); V.add(A)
                stmts_of = {}
                for s0 in walk_no_nested(g.node):
                    if isinstance(s0, (ast.Assign, ast.AnnAssign)) and getattr(s0, 'value', None) is not None:
                        for d in defs:
                            if s0.value is d:
                                stmts_of[id(d)] = s0
                if len(stmts_of) == len(defs):
                    try:
                        nsite = cfg.n_of(st)
                        nodes = {id(d): cfg.n_of(stmts_of[id(d)]) for d in defs}
                        reaching = []
                        for d in defs:
                            others = frozenset(n0 for k0, n0 in nodes.items() if k0 != id(d) and n0 != nodes[id(d)])
                            if nodes[id(d)] == nsite or nsite in cfg.reachable(nodes[id(d)], avoid=others):
                                reaching.append(d)
                        defs = reaching or defs
                    except Exception:
                        pass
                if len(defs) == 1:
                    prov = _provenance(ctx, g, defs[0])
            if prov is None and len(defs) >= 2:
                provs = [(d, _provenance(ctx, g, d)) for d in defs]
                if any(p is not None for _, p in provs) and any(p is None for _, p in provs):
                    bad_def = [d for d, p in provs if p is None][0]
                    n += 1
                    rep.violates(RULE + '.site', g, st, 'on some path the name that joins {} is `{}`, not a name drawn from the provider: the "new" state can be a state of an operand (the introduced state must be distinct from every operand state)'.format(
                        u(target_set), u(bad_def)))
                    continue
        if prov is None:
            continue
        n += 1
        kind, call = prov
        if kind == 'literal':
            lit = call.args[0].value
            nm = u(name_expr)
            asserted = False
            nid = cfg.n_of(st)
            for node in cfg.node:
                if node.kind == 'assert' and cfg.dominates(node.id, nid):
                    for a in ast.walk(node.expr):
                        if isinstance(a, ast.Compare) and isinstance(a.ops[0], ast.NotIn) and u(a.left) in (nm, u(call)):
                            asserted = True
            if asserted:
                rep.violates(RULE + '.site', g, '{} :: {}'.format(norm(st), nm), "the literal name '{}' joins {} guarded only by an assert: an operand that already uses this name makes the construction fail (AssertionError) instead of choosing another name".format(lit, u(target_set)))
            else:
                rep.violates(RULE + '.site', g, '{} :: {}'.format(norm(st), nm), "the literal name '{}' joins {} without any freshness test: it silently merges with an operand name".format(lit, u(target_set)))
            continue
        if kind == 'generator':
            rep.holds(RULE + '.site', g, st, 'name comes from the private monotone generator of this construction', nontrivial=False)
            continue
        cal = ctx.callee(g, call)
        uarg = call.args[0] if call.args else None
        uni = _set_terms(g, uarg) | {u(uarg)} if uarg is not None else set()
        if cal is not None and cal.node.args.vararg is not None:
            # provider(id_generator, N1.Q, N2.Q): the sets are handed over one by one (*state_sets)
            fixed = len(cal.node.args.args)
            for extra in call.args[fixed:]:
                if not isinstance(extra, ast.Starred):
                    uni |= _set_terms(g, extra) | {u(extra)}
            for i0, a0 in enumerate(cal.node.args.args):
                ann0 = u(a0.annotation) if a0.annotation is not None else ''
                if i0 < len(call.args) and ann0.startswith('Set[') and i0 > 0:
                    uni |= _set_terms(g, call.args[i0]) | {u(call.args[i0])}
            if uarg is not None and cal.node.args.args and 'Set[' not in (u(cal.node.args.args[0].annotation) if cal.node.args.args[0].annotation is not None else 'Set[') :
                uni -= {u(uarg)}
        if cal is not None and cal.name == 'cfg_fresh_variable' and uarg is not None:
            uni |= {u(uarg) + '.V'}
        need = {t for t in universe_terms if t != u(name_expr)}
        res = lambda t: u(resolve_alias(g, ast.parse(t, mode='eval').body)) if _parses(t) else t
        uni_resolved = {res(t) for t in uni} | uni
        missing = [t for t in need if t not in uni_resolved and res(t) not in uni_resolved]
        # class invariant F <= Q: a name fresh for X.Q is fresh for X.F
        missing = [t for t in missing if not (res(t).endswith('.F') and (res(t)[:-2] + '.Q') in uni_resolved)]
        if missing:
            rep.violates(RULE + '.site', g, st, 'the fresh name is requested against {} but joins {}: it need not be fresh for {}'.format(
                sorted(uni) or 'nothing', sorted(need), sorted(missing)))
        else:
            rep.holds(RULE + '.site', g, st, 'name from {} with universe {} covers the set it joins'.format(cal.name if cal else 'provider', sorted(uni)[:2]))
    return n


def _parses(t):
    try:
        ast.parse(t, mode='eval')
        return True
    except SyntaxError:
        return False


def check_request_order(ctx, rep, f):
    """between two requests against the same universe the first name has been added to it"""
    fx = ctx.facts(f)
    cfg = fx.cfg
    reqs = []
    for g in [f] + list(f.nested.values()):
        gx = ctx.facts(g)
        for st in walk_no_nested(g.node):
            if isinstance(st, ast.Assign) and len(st.targets) == 1 and isinstance(st.targets[0], ast.Name) and isinstance(st.value, ast.Call) \
                    and ctx.callee_name(g, st.value) in PROVIDERS and ctx.callee_name(g, st.value) != '_fresh_nfa_state' and st.value.args:
                reqs.append((g, gx, st))
    n = 0
    # requests made through a helper that registers the name before it returns (request and add are one step)
    for g in [f] + list(f.nested.values()):
        for c0 in ctx.prog.calls_in(g):
            r0 = ctx.resolve_call(g, c0)
            if r0 is None or r0.kind != 'func' or r0.target.parent is not None or ctx.callee_name(g, c0) in PROVIDERS:
                continue
            h = r0.target
            inner = [st for st in walk_no_nested(h.node) if isinstance(st, ast.Assign) and len(st.targets) == 1 and isinstance(st.targets[0], ast.Name)
                     and isinstance(st.value, ast.Call) and ctx.callee_name(h, st.value) in PROVIDERS]
            if len(inner) != 1:
                continue
            hx = ctx.facts(h)
            name = inner[0].targets[0].id
            # only a helper that hands the requested name back to its caller is a provider of its own
            if not any(isinstance(x, ast.Return) and isinstance(x.value, ast.Name) and x.value.id == name for x in walk_no_nested(h.node)):
                continue
            adds = {node.id for node in hx.cfg.node if node.kind == 'stmt' and isinstance(node.stmt, ast.Expr) and isinstance(node.stmt.value, ast.Call)
                    and isinstance(node.stmt.value.func, ast.Attribute) and node.stmt.value.func.attr == 'add' and node.stmt.value.args and u(node.stmt.value.args[0]) == name}
            rets = [hx.cfg.n_of(x) for x in walk_no_nested(h.node) if isinstance(x, ast.Return)]
            n += 1
            start = hx.cfg.n_of(inner[0])
            if adds and rets and all(hx.cfg.must_pass(adds, t, start=b) for t in rets for (b, _) in hx.cfg.succ[start] if t in hx.cfg.reachable(b) or t == b):
                rep.holds(RULE + '.order', g, c0, 'the name is requested through {}, which adds it to the universe on every path before it returns'.format(h.name))
            else:
                rep.violates(RULE + '.order', g, c0, 'the helper {} can return the requested name without adding it to the universe: the next request can return the same name'.format(h.name))
    for (g, gx, st) in reqs:
        c = gx.cfg
        name = st.targets[0].id
        uni = u(st.value.args[0]) if st.value.args else ''
        # nodes that add the name to the universe
        adds = set()
        for node in c.node:
            s2 = node.stmt
            if node.kind == 'stmt' and isinstance(s2, ast.Expr) and isinstance(s2.value, ast.Call) and isinstance(s2.value.func, ast.Attribute) \
                    and s2.value.func.attr == 'add' and s2.value.args and u(s2.value.args[0]) == name:
                adds.add(node.id)
        start = c.n_of(st)
        later = [c.n_of(s3) for (g3, _, s3) in reqs if g3 is g and (u(s3.value.args[0]) if s3.value.args else '') == uni]
        later = [t for t in later if t in c.reachable(start) and (t != start or start in {b for (b, _) in c.succ[start]} or _in_cycle(c, start))]
        hint_of = lambda s3: u(s3.value.args[1]) if len(s3.value.args) > 1 else ''
        bad = None
        for t in later:
            other = [s3 for (g3, _, s3) in reqs if g3 is g and c.n_of(s3) == t][0]
            if t != start and _disjoint_hints(hint_of(st), hint_of(other)):
                continue
            # every path from the request to the next request passes an add
            succs = [b for (b, _) in c.succ[start]]
            if not all(c.must_pass(adds, t, start=b) for b in succs if t in c.reachable(b)):
                bad = other
        n += 1
        if bad is not None:
            rep.violates(RULE + '.order', g, st, 'the fresh name {} is not added to {} before the next request `{}`: two requests can return the same name'.format(name, uni, norm(bad)))
        else:
            rep.holds(RULE + '.order', g, st, 'the name is added to its universe before any further request (or the hints are disjoint literals)', nontrivial=bool(later))
    return n


def _in_cycle(c, n):
    return any(n in c.reachable(b) for (b, _) in c.succ[n])


def _disjoint_hints(a, b):
    """two literal hints neither of which is a prefix of the other followed by digits"""
    if not (a.startswith("'") and b.startswith("'")) or a == b:
        return False
    a, b = a.strip("'"), b.strip("'")
    import re
    return not (re.fullmatch(re.escape(a) + r'\d*', b) or re.fullmatch(re.escape(b) + r'\d*', a))


# ---- R-EPS ------------------------------------------------------------------------------------------------------

def _eps_canon(f, e, depth=0):
    """canonical text of an epsilon-denoting expression, or None"""
    if depth > 4:
        return None
    e0 = e
    e = resolve_alias(f, e)
    if isinstance(e, ast.Attribute) and e.attr == 'epsilon':
        return u(e)
    if isinstance(e, ast.Call) and isinstance(e.func, ast.Name) and e.func.id in ('Symbol', 'Terminal') and len(e.args) == 1:
        a = e.args[0]
        if isinstance(a, ast.Constant) and a.value in ('', 'ε', '_'):
            return "Symbol('{}')".format(a.value)
        return _eps_canon(f, a, depth + 1)
    if isinstance(e, ast.Constant) and e.value in ('', 'ε'):
        return "Symbol('{}')".format(e.value)
    if isinstance(e0, ast.Name) and e0.id == 'epsilon' and e0.id in f.params:
        return 'param:epsilon'
    return None


def check_eps(ctx, rep, f, rule='R-EPS'):
    """constructor sites of NFA/PDA: the epsilon argument equals the epsilon used in the keys of the transition map"""
    n = 0
    for cls in ('NFA', 'PDA'):
        for call in ctor_call(ctx, f, cls):
            darg = ctor_arg(ctx, call, cls, 'delta')
            earg = ctor_arg(ctx, call, cls, 'epsilon')
            if darg is None or not isinstance(darg, ast.Name):
                continue
            dname = darg.id
            ctor_eps = _eps_canon(f, earg) if earg is not None else "Symbol('')"
            key_eps = {}
            for s in walk_no_nested(f.node):
                if isinstance(s, ast.Subscript) and u(s.value) == dname and isinstance(s.slice, ast.Tuple):
                    for comp in s.slice.elts[1:]:
                        c = _eps_canon(f, comp)
                        if c is not None:
                            key_eps.setdefault(c, s)
            # wholesale copies of operand maps: delta.update(N.delta)
            copies = []
            for s in walk_no_nested(f.node):
                if isinstance(s, ast.Call) and isinstance(s.func, ast.Attribute) and s.func.attr == 'update' and u(s.func.value) == dname and s.args:
                    src = resolve_alias(f, s.args[0])
                    if isinstance(src, ast.Attribute) and src.attr == 'delta':
                        copies.append((s, u(src.value) + '.epsilon'))
            if not key_eps and not copies and earg is None:
                rep.holds(rule, f, call, 'no epsilon move is created; class default applies', nontrivial=False)
                n += 1
                continue
            n += 1
            if earg is not None and ctor_eps is None:
                if not key_eps and not copies:
                    rep.holds(rule, f, call, 'no epsilon-keyed transition is built here; epsilon {} is passed through'.format(u(earg)), nontrivial=False)
                else:
                    rep.undecided(rule, f, call, 'epsilon argument {} not recognised'.format(u(earg)))
                continue
            bad = [k for k in key_eps if k != ctor_eps]
            badc = [c for c in copies if c[1] != ctor_eps]
            if bad:
                rep.violates(rule, f, call, 'the transition map uses {} for its epsilon moves but the {} is constructed with epsilon {}: the result is invalid or its epsilon moves are read as ordinary symbols'.format(
                    bad[0], cls, ctor_eps))
            elif badc:
                rep.violates(rule, f, badc[0][0], 'transitions copied wholesale from an operand carry its epsilon {} while the result is constructed with epsilon {}: the operand epsilons are not reconciled'.format(badc[0][1], ctor_eps))
            else:
                rep.holds(rule, f, call, 'epsilon of the keys ({}) is the epsilon passed to the constructor'.format(sorted(key_eps) or [c[1] for c in copies] or ctor_eps))
    return n


def check_eps_translation(ctx, rep, f, rule='R-EPS'):
    """helper that copies an operand's transitions into a result with a given epsilon must translate the operand's own
    epsilon and leave other symbols alone"""
    params = [p.arg for p in f.pos_params]
    loops = [n for n in walk_no_nested(f.node) if isinstance(n, ast.For) and isinstance(n.iter, ast.Call) and isinstance(n.iter.func, ast.Attribute) and n.iter.func.attr == 'items']
    if len(loops) != 1 or 'epsilon' not in params:
        rep.undecided(rule, f, 'def ' + f.name, 'copy loop not recognised')
        return
    loop = loops[0]
    src = u(loop.iter.func.value)
    opnd = src.rsplit('.', 1)[0]
    from .. import abseval
    stores = [n for n in ast.walk(loop) if isinstance(n, ast.Subscript) and u(n.value) == params[0] and isinstance(n.slice, ast.Tuple) and len(n.slice.elts) == 2]
    if not stores:
        rep.undecided(rule, f, loop, 'no keyed store into {} inside the copy loop'.format(params[0]))
        return
    outcome = {}
    try:
        for sym in ('OPEPS', 'OTHER'):
            env = {'epsilon': 'RESEPS', opnd + '.epsilon': 'OPEPS'}
            tgt = loop.target
            if not (isinstance(tgt, ast.Tuple) and len(tgt.elts) == 2):
                raise abseval.Unsupported('loop target')
            k, v = tgt.elts
            if isinstance(k, ast.Tuple) and len(k.elts) == 2 and all(isinstance(x, ast.Name) for x in k.elts):
                env[k.elts[0].id], env[k.elts[1].id] = 'SRC', sym
            elif isinstance(k, ast.Name):
                env[k.id] = ('SRC', sym)
            else:
                raise abseval.Unsupported('loop key target')
            if isinstance(v, ast.Name):
                env[v.id] = 'TARGETS'
            out = abseval.run_block(loop.body, env)
            keys = set()
            for st in stores:
                kv = abseval.ev(st.slice, out)
                keys.add(kv)
            if len(keys) != 1:
                raise abseval.Unsupported('several different keys')
            outcome[sym] = keys.pop()
    except (abseval.Unsupported, KeyError, TypeError) as e:
        rep.undecided(rule, f, loop, 'copy loop outside the fragment: {}'.format(e))
        return
    if outcome['OPEPS'] == ('SRC', 'RESEPS') and outcome['OTHER'] == ('SRC', 'OTHER'):
        rep.holds(rule, f, loop, 'operand epsilon moves are re-keyed with the result epsilon, other symbols are kept (both cases evaluated on the loop body)')
    elif outcome['OPEPS'] != ('SRC', 'RESEPS'):
        rep.violates(rule, f, loop, 'the operand transitions are copied without translating {}.epsilon into the epsilon of the result (an epsilon move of the operand is stored under the key {})'.format(opnd, outcome['OPEPS']))
    else:
        rep.violates(rule, f, loop, 'a transition on an ordinary symbol of the operand is stored under the key {}'.format(outcome['OTHER']))


def check_universe_monotone(ctx, rep, funcs, attr='V', rule=RULE + '.universe'):
    """the universe against which fresh names are requested only grows while a construction runs: shrinking it lets a later
    request return a name that still occurs in the object"""
    n = 0
    for f in funcs:
        for g in [f] + list(f.nested.values()):
            for st in walk_no_nested(g.node):
                tgt = None
                how = None
                if isinstance(st, ast.AugAssign) and isinstance(st.target, ast.Attribute) and st.target.attr == attr:
                    tgt, how = st, type(st.op).__name__
                    if isinstance(st.op, ast.BitOr):
                        continue
                if isinstance(st, ast.Expr) and isinstance(st.value, ast.Call) and isinstance(st.value.func, ast.Attribute) and isinstance(st.value.func.value, ast.Attribute) \
                        and st.value.func.value.attr == attr and st.value.func.attr in ('remove', 'discard', 'clear', 'pop', 'difference_update', 'intersection_update'):
                    tgt, how = st, st.value.func.attr
                if isinstance(st, ast.Assign) and any(isinstance(t, ast.Attribute) and t.attr == attr for t in st.targets):
                    v = st.value
                    grows = isinstance(v, ast.BinOp) and isinstance(v.op, ast.BitOr) and any(isinstance(x, ast.Attribute) and x.attr == attr for x in (v.left, v.right))
                    if not grows:
                        tgt, how = st, 'assignment'
                if tgt is not None:
                    n += 1
                    rep.violates(rule, g, tgt, 'the variable set .{} is shrunk or replaced ({}) inside a normal-form phase: fresh names are only fresh for .{}, so a later request can return a name that still occurs on a right-hand side'.format(attr, how, attr))
    if n == 0:
        for f in funcs:
            rep.holds(rule, f, 'def ' + f.name, 'the universe .{} only grows in this phase'.format(attr), nontrivial=False)
    return n


def check_generator(ctx, rep, rule=RULE + '.generator'):
    """the counter-based name generator is total and never repeats: generate() has no raise and no conditional exit, the
    returned text contains the counter, and the counter is advanced on the path to every return"""
    cls = [c for c in ctx.prog.classes.values() if c.name == 'IdentifierGenerator' and not c.module.name.startswith('template:')]
    if not cls or 'generate' not in cls[0].methods:
        raise AnalysisError('IdentifierGenerator.generate vanished')
    g = cls[0].methods['generate']
    fx = ctx.facts(g)
    raises = [n for n in walk_no_nested(g.node) if isinstance(n, (ast.Raise, ast.Assert))]
    rets = [n for n in walk_no_nested(g.node) if isinstance(n, ast.Return)]
    incs = [n for n in walk_no_nested(g.node) if (isinstance(n, ast.Assign) and u(n.targets[0]) == 'self.index' and 'self.index' in u(n.value) and '+' in u(n.value))
            or (isinstance(n, ast.AugAssign) and u(n.target) == 'self.index' and isinstance(n.op, ast.Add))]
    if raises:
        rep.violates(rule, g, raises[0], 'the name generator can refuse to produce a name ({}): the constructions that draw their state names from it (union, star, the regular-expression translation, with a generator that lives as long as the process) fail after enough calls instead of returning an automaton'.format(u(raises[0])[:70]))
    else:
        rep.holds(rule, g, 'def generate', 'the generator never raises', nontrivial=False)
    inc_nodes = {fx.cfg.n_of(n) for n in incs}
    ok = bool(rets) and bool(incs) and all(fx.cfg.must_pass(inc_nodes, fx.cfg.n_of(r)) for r in rets)
    if ok:
        rep.holds(rule, g, incs[0], 'the counter is advanced on the path to every return: no name is handed out twice')
    else:
        rep.violates(rule, g, 'def generate', 'a path returns a name without advancing the counter: the same name is handed out again')
    return 2


# ---- R-EPS.const: a fixed epsilon must be fresh for the alphabet it is put next to ----------------------------------------

def _const_text(ctx, f, e, depth=0):
    """the constant string an expression denotes (through NewType casts, single-definition locals, `self.x` set once in
    __init__), or None"""
    if depth > 5 or e is None:
        return None
    if isinstance(e, ast.Constant) and isinstance(e.value, str):
        return e.value
    if isinstance(e, ast.Call) and len(e.args) == 1 and not e.keywords and isinstance(e.func, (ast.Name, ast.Attribute)):
        r = ctx.resolve_call(f, e)
        nm = u(e.func).split('.')[-1]
        if (r is None or r.kind != 'func') and nm.lower().endswith(('symbol', 'state')):
            return _const_text(ctx, f, e.args[0], depth + 1)
    if isinstance(e, ast.Name):
        d = single_def(f, e.id)
        if len(d) == 1:
            return _const_text(ctx, f, d[0], depth + 1)
        return None
    if isinstance(e, ast.Attribute) and u(e.value) == 'self' and f.cls is not None:
        stores = []
        for m in f.cls.methods.values():
            for n in walk_no_nested(m.node):
                if isinstance(n, (ast.Assign, ast.AnnAssign)):
                    tg = n.targets if isinstance(n, ast.Assign) else [n.target]
                    if any(u(t) == u(e) for t in tg) and n.value is not None:
                        stores.append((m, n.value))
        if len(stores) == 1:
            return _const_text(ctx, stores[0][0], stores[0][1], depth + 1)
    return None


def check_epsilon_constants(ctx, rep, funcs, rule='R-EPS.const'):
    """NFA(Q, Sigma, delta, q0, F, eps) / PDA(..., eps) with eps a fixed non-empty text: the constructor asserts
    eps not in Sigma, so the construction fails (no automaton) for every operand whose alphabet contains that text --
    unless the alphabet is a literal, or the call is dominated by the test eps not in Sigma.  The empty string is not a
    symbol (symbols are non-empty by every parser of the library), so '' is always fresh.  Pattern rule: no floor."""
    n = 0
    for f in funcs:
        for cname in ('NFA', 'PDA'):
            for c in ctor_call(ctx, f, cname):
                eps = ctor_arg(ctx, c, cname, 'epsilon')
                if eps is None:
                    continue
                text = _const_text(ctx, f, eps)
                if text is None:
                    # an epsilon drawn from a provider: it must be asked about the alphabet the automaton gets
                    er = resolve_alias(f, eps)
                    r = ctx.resolve_call(f, er) if isinstance(er, ast.Call) else None
                    if r is not None and r.kind == 'func' and r.target.name.startswith('fresh') and er.args:
                        sig = ctor_arg(ctx, c, cname, 'Sigma')

                        def base(x):
                            x = resolve_alias(f, x) if x is not None else None
                            while True:
                                if isinstance(x, ast.Call) and isinstance(x.func, ast.Attribute) and x.func.attr == 'copy' and not x.args:
                                    x = resolve_alias(f, x.func.value)
                                elif isinstance(x, ast.Call) and isinstance(x.func, ast.Name) and x.func.id in ('set', 'frozenset') and len(x.args) == 1 and not x.keywords:
                                    x = resolve_alias(f, x.args[0])
                                else:
                                    break
                            return u(x) if x is not None else None
                        n += 1
                        if base(er.args[0]) == base(sig):
                            rep.holds(rule, f, c, 'the epsilon is requested from {} for the very alphabet the automaton is built with'.format(r.target.name))
                            check_provider(ctx, rep, r.target)
                        else:
                            rep.violates(rule, f, c, 'the epsilon is requested from {} for `{}`, but the automaton is built with the alphabet `{}`: it need not be fresh for that alphabet'.format(
                                r.target.name, u(er.args[0]), u(sig) if sig is not None else '?'))
                    continue
                if text == '':
                    continue
                sig = ctor_arg(ctx, c, cname, 'Sigma')
                sig_r = resolve_alias(f, sig) if sig is not None else None
                if isinstance(sig_r, ast.Set) and all(_const_text(ctx, f, x) is not None and _const_text(ctx, f, x) != text for x in sig_r.elts):
                    continue
                n += 1
                fx = ctx.facts(f)
                nid = fx.stmt_of_expr(c)
                atoms = fx.guard_atoms(nid) if nid is not None else set()
                guarded = any(a[0] == 'in' and a[3] is False and a[1] == u(eps) and sig is not None and a[2] in (u(sig), u(sig_r) if sig_r is not None else '') for a in atoms)
                if guarded:
                    rep.holds(rule, f, c, 'the fixed epsilon {!r} is tested against the alphabet before the automaton is built'.format(text))
                else:
                    rep.violates(rule, f, c, 'the automaton is built with the fixed epsilon {!r} next to an alphabet that comes from the operand ({}): for an operand whose alphabet contains {!r} '
                                 'the constructor assertion `epsilon not in Sigma` fails and no automaton is produced; the epsilon must be chosen fresh for the alphabet'.format(text, u(sig) if sig is not None else '?', text))
    return n


def check_epsilon_forwarded(ctx, rep, funcs, rule='R-EPS.default'):
    """a callee with a defaulted parameter `epsilon` that is called without it works with the default ('' in this
    library); a caller that has an epsilon of its own -- a parameter `epsilon`, or an automaton operand with a field
    .epsilon that it reads -- must pass it on, or the callee and the caller disagree on which symbol is the silent one.
    Pattern rule: no floor."""
    n = 0
    for f in funcs:
        own = None
        if any(p == 'epsilon' for p in f.params):
            own = 'epsilon'
        else:
            for x in walk_no_nested(f.node):
                if isinstance(x, ast.Attribute) and x.attr == 'epsilon' and isinstance(x.value, ast.Name) and x.value.id in f.params:
                    own = u(x)
                    break
        if own is None:
            continue
        for c in ctx.prog.calls_in(f):
            r = ctx.resolve_call(f, c)
            if r is None:
                continue
            g = r.target if r.kind == 'func' else (ctx.prog.find_method(r.target, '__init__') if r.kind == 'class' else None)
            if g is None or g is f:
                continue
            ps = [p.arg for p in g.pos_params if p.arg != 'self'] if r.kind == 'class' or g.cls is not None else [p.arg for p in g.pos_params]
            if 'epsilon' not in ps or 'epsilon' not in g.defaults:
                continue
            i = ps.index('epsilon')
            if isinstance(c.func, ast.Attribute) and r.kind == 'func' and g.cls is not None and g.pos_params and g.pos_params[0].arg == 'self' and 'self' in ps:
                i -= 1
            bound = len(c.args) > i or any(k.arg == 'epsilon' or k.arg is None for k in c.keywords) or any(isinstance(a, ast.Starred) for a in c.args)
            n += 1
            if bound:
                rep.holds(rule, f, c, 'the epsilon of the caller is passed on to {}'.format(g.name), nontrivial=False)
            else:
                rep.violates(rule, f, c, '{} has its own epsilon ({}) but calls {} without it: the callee works with its default epsilon, so for an automaton whose epsilon differs from the default the two disagree on which symbol is the silent one'.format(f.name, own, g.name))
    return n


# ---- R-EPS.word: only input symbols are appended to words -----------------------------------------------------------------

def _is_delta(f, e):
    e = resolve_alias(f, e)
    return isinstance(e, ast.Attribute) and e.attr == 'delta'


def _keyed_like_delta(ctx, f, e, depth=0):
    """True when the mapping denoted by e has the keys of a transition relation: it is X.delta, or it was filled under
    the keys of a loop over X.delta (possibly in a callee that returns it)"""
    if depth > 2:
        return False
    if _is_delta(f, e):
        return True
    if not isinstance(e, ast.Name):
        return False
    # filled locally:  for (q, a), Q in N.delta.items(): M[(q, a)] = ...
    for lp in walk_no_nested(f.node):
        if isinstance(lp, ast.For) and _iter_of_delta(f, lp.iter) and isinstance(lp.target, ast.Tuple):
            key = lp.target.elts[0] if _iter_kind(lp.iter) == 'items' else lp.target
            for s in ast.walk(lp):
                if isinstance(s, ast.Assign) and len(s.targets) == 1 and isinstance(s.targets[0], ast.Subscript) and u(s.targets[0].value) == e.id \
                        and u(s.targets[0].slice).strip('()') == u(key).strip('()'):
                    return True
    # returned by a callee as the i-th component
    for s in walk_no_nested(f.node):
        if isinstance(s, ast.Assign) and len(s.targets) == 1 and isinstance(s.targets[0], ast.Tuple) and isinstance(s.value, ast.Call):
            names = [u(x) for x in s.targets[0].elts]
            if e.id in names:
                r = ctx.resolve_call(f, s.value)
                if r is not None and r.kind == 'func':
                    g = r.target
                    for ret in walk_no_nested(g.node):
                        if isinstance(ret, ast.Return) and isinstance(ret.value, ast.Tuple) and len(ret.value.elts) == len(names):
                            return _keyed_like_delta(ctx, g, ret.value.elts[names.index(e.id)], depth + 1)
    return False


def _iter_kind(it):
    if isinstance(it, ast.Call) and isinstance(it.func, ast.Attribute) and it.func.attr in ('items', 'keys') and not it.args:
        return it.func.attr
    return 'keys'


def _iter_base(it):
    if isinstance(it, ast.Call) and isinstance(it.func, ast.Attribute) and it.func.attr in ('items', 'keys') and not it.args:
        return it.func.value
    return it


def _iter_of_delta(f, it):
    return _is_delta(f, _iter_base(it))


def check_word_symbols(ctx, rep, funcs, rule='R-EPS.word'):
    """in an operation on an automaton with silent moves (NFA, PDA) the keys of the transition relation carry input
    symbols AND the epsilon symbol; a symbol that is appended to a word must come from the alphabet, or be tested against
    epsilon / the alphabet first -- otherwise a silent move is spelled out as a letter (invisible while epsilon is '')."""
    n = 0
    for f in funcs:
        top = f
        while top.parent is not None:
            top = top.parent
        kinds = set()
        for p0 in top.pos_params:
            if p0.annotation is not None and u(p0.annotation).split('.')[-1] in ('NFA', 'PDA'):
                kinds.add(u(p0.annotation).split('.')[-1])
        if not kinds:
            continue
        # loop targets bound to the symbol slot of a key of a delta-like mapping
        binders = []
        for lp in walk_no_nested(f.node):
            gens = []
            if isinstance(lp, ast.For):
                gens.append((lp.target, lp.iter, lp))
            if isinstance(lp, (ast.ListComp, ast.SetComp, ast.GeneratorExp, ast.DictComp)):
                gens += [(g.target, g.iter, lp) for g in lp.generators]
            for (tg, it, node) in gens:
                base = _iter_base(it)
                if not _keyed_like_delta(ctx, f, base):
                    continue
                key = tg
                if _iter_kind(it) == 'items':
                    if not (isinstance(tg, ast.Tuple) and len(tg.elts) == 2):
                        continue
                    key = tg.elts[0]
                if isinstance(key, ast.Tuple) and len(key.elts) >= 2 and isinstance(key.elts[1], ast.Name):
                    binders.append((key.elts[1].id, node, it))
        if not binders:
            continue
        fx = ctx.facts(f)
        for (sym, node, it) in binders:
            for e in ast.walk(node):
                if isinstance(e, ast.BinOp) and isinstance(e.op, ast.Add) and any(isinstance(x, ast.Name) and x.id == sym for x in (e.left, e.right)):
                    other = e.right if (isinstance(e.left, ast.Name) and e.left.id == sym) else e.left
                    t = ctx.env(f).type_of(other)
                    if t is not None and t[0] not in ('str', 'any', 'top', 'unknown'):
                        continue
                    n += 1
                    nid = fx.stmt_of_expr(e)
                    atoms = set(fx.guard_atoms(nid)) if nid is not None else set()
                    from ..astutil import expr_guard_atoms
                    try:
                        atoms |= set(expr_guard_atoms(f.node, e))
                    except Exception:
                        pass
                    ok = any((a[0] == 'eq' and a[3] is False and sym in (a[1], a[2]) and 'epsilon' in (a[1] + a[2])) or
                             (a[0] == 'in' and a[3] is True and a[1] == sym and a[2].endswith('Sigma')) for a in atoms)
                    if ok:
                        rep.holds(rule, f, e, 'the symbol taken from a key of the transition relation is tested against epsilon / the alphabet before it is appended to a word')
                    else:
                        rep.violates(rule, f, e, 'the symbol `{}` is taken from the keys of the transition relation (`{}`), which include the epsilon symbol of the {}, and is appended to a word without a test: '
                                     'a silent move is spelled out as a letter, so words containing the epsilon symbol are produced (invisible while epsilon is the empty string)'.format(sym, u(it), '/'.join(sorted(kinds))))
    return n


def check_rekey_sites(ctx, rep, funcs, rule='R-EPS.rekey'):
    """_add_nfa_transitions(delta, X, e) copies the transitions of the operand X and re-keys X's epsilon moves with e.  A
    construction that merges SEVERAL operands into one transition map must hand every copy the one epsilon of the
    result; `X.epsilon` -- the operand's own epsilon, i.e. no translation -- for each of several operands leaves the
    epsilon moves of the later operands under a symbol that is not the epsilon of the result."""
    n = 0
    for g in funcs:
        sites = []
        for c in walk_no_nested(g.node):
            if isinstance(c, ast.Call) and ctx.callee_name(g, c) == '_add_nfa_transitions' and len(c.args) >= 3:
                sites.append(c)
        if not sites:
            continue
        # how many operands are merged here?
        operands = set()
        for c in sites:
            X = c.args[1]
            several = False
            if isinstance(X, ast.Name):
                for lp in walk_no_nested(g.node):
                    if isinstance(lp, ast.For) and isinstance(lp.target, ast.Name) and lp.target.id == X.id and any(x is c for x in ast.walk(lp)) \
                            and isinstance(lp.iter, (ast.Tuple, ast.List)) and len(lp.iter.elts) >= 2:
                        several = True
                        operands |= {u(e0) for e0 in lp.iter.elts}
            if not several:
                operands.add(u(X))
        for c in sites:
            X, e = c.args[1], c.args[2]
            er = resolve_alias(g, e) if isinstance(e, ast.Name) else e
            own = isinstance(er, ast.Attribute) and er.attr == 'epsilon' and u(er.value) == u(X)
            in_loop_over_operands = isinstance(X, ast.Name) and any(isinstance(lp, ast.For) and isinstance(lp.target, ast.Name) and lp.target.id == X.id and any(x is c for x in ast.walk(lp))
                                                                     and isinstance(lp.iter, (ast.Tuple, ast.List)) and len(lp.iter.elts) >= 2 for lp in walk_no_nested(g.node))
            n += 1
            if own and len(operands) >= 2 and in_loop_over_operands:
                rep.violates(rule, g, c, 'the transitions of each of the operands {} are copied under that operand\'s own epsilon ({}): the epsilon moves of an operand whose epsilon differs from the epsilon of the result are kept under an ordinary symbol (or an undeclared one)'.format(
                    sorted(operands), u(e)))
            else:
                rep.holds(rule, g, c, 'the copy is re-keyed with {}'.format(u(er)), nontrivial=False)
    return n
