"""R-MODEL M3 (regexp_simplify as Kleene-algebra identities), M4 (GNFA rip step), matcher / enumerator split facts."""
import ast
import itertools
import re

from .. import ka, abseval
from ..abseval import Unsupported
from ..astutil import u, names_in, walk_no_nested, atoms_of
from ..model import norm
from .dispatch import _if_chain, _isinstance_classes, REGEXP_FIELDS
from .models import single_def, resolve_alias

LEAF = {'Zero': lambda fresh: ka.ZERO, 'One': lambda fresh: ka.ONE, 'Symbol': lambda fresh: ka.sym(fresh()),
        'Iteration': lambda fresh: ('*', ka.sym(fresh())), 'Sum': lambda fresh: ('+', ka.sym(fresh()), ka.sym(fresh())),
        'Concat': lambda fresh: ('.', ka.sym(fresh()), ka.sym(fresh()))}


def _term_of(expr, env, lhs):
    """term denoted by a result expression built from constructors and child variables"""
    if isinstance(expr, ast.Name):
        if expr.id in env:
            return env[expr.id]
        if expr.id == 'r':
            return lhs
        raise Unsupported('name ' + expr.id)
    if isinstance(expr, ast.Call):
        fn = expr.func
        name = fn.id if isinstance(fn, ast.Name) else (fn.attr if isinstance(fn, ast.Attribute) else None)
        args = [_term_of(a, env, lhs) for a in expr.args]
        if name == 'Zero':
            return ka.ZERO
        if name == 'One':
            return ka.ONE
        if name == 'Iteration':
            return ('*', args[0])
        if name == 'Sum':
            return ('+', args[0], args[1])
        if name == 'Concat':
            return ('.', args[0], args[1])
        if name == 'regexp_simplify':
            return args[0]
        raise Unsupported('call ' + str(name))
    raise Unsupported(type(expr).__name__)


CLASSES = ('Zero', 'One', 'Symbol', 'Iteration', 'Sum', 'Concat')


class _NeedChoice(Exception):
    def __init__(self, key, options):
        self.key = key
        self.options = options


class _Case:
    """one run of the function body under fixed choices: class of r, classes of the simplified children (chosen
    lazily, when an isinstance test asks), truth values of side conditions that are not class tests"""

    def __init__(self, ctx, f, choices):
        self.ctx = ctx
        self.f = f
        self.choices = choices
        self.children = {}       # var -> field of r
        self.alias = {}          # var -> expr (other single assignments)
        self.result = None       # (expr, stmt)
        self.atoms = []          # side conditions consulted: (text, value)

    def choose(self, key, options):
        if key not in self.choices:
            raise _NeedChoice(key, options)
        return self.choices[key]

    def class_of(self, name):
        if name == 'r':
            return self.choose('r', CLASSES)
        if name in self.children:
            return self.choose('child:' + name, CLASSES)
        if name in self.alias and isinstance(self.alias[name], ast.Name):
            return self.class_of(self.alias[name].id)
        raise Unsupported('class of ' + name)

    def truth(self, t):
        if isinstance(t, ast.Constant):
            return bool(t.value)
        if isinstance(t, ast.UnaryOp) and isinstance(t.op, ast.Not):
            return not self.truth(t.operand)
        if isinstance(t, ast.BoolOp):
            if isinstance(t.op, ast.And):
                for v in t.values:
                    if not self.truth(v):
                        return False
                return True
            for v in t.values:
                if self.truth(v):
                    return True
            return False
        if isinstance(t, ast.Call) and isinstance(t.func, ast.Name) and t.func.id == 'isinstance' and len(t.args) == 2 and isinstance(t.args[0], ast.Name):
            k = self.class_of(t.args[0].id)
            elts = t.args[1].elts if isinstance(t.args[1], ast.Tuple) else [t.args[1]]
            names = [u(x).split('.')[-1] for x in elts]
            if 'Regexp' in names:
                return True
            return k in names
        # any other condition is a side condition with an unknown truth value
        text = u(t)
        v = self.choose('atom:' + text, (True, False))
        self.atoms.append((t, v))
        return v

    def reduce(self, e):
        # a conditional expression is decided like an if statement
        while isinstance(e, ast.IfExp):
            e = e.body if self.truth(e.test) else e.orelse
        return e

    def run(self, stmts):
        """returns True when a return/raise ended the run"""
        for st in stmts:
            if isinstance(st, ast.Expr) and isinstance(st.value, ast.Constant):
                continue
            if isinstance(st, ast.Assign) and len(st.targets) == 1 and isinstance(st.targets[0], ast.Name):
                name = st.targets[0].id
                v = st.value
                if isinstance(v, ast.Call) and self.ctx.callee_name(self.f, v) == self.f.name and v.args and isinstance(v.args[0], ast.Attribute) and u(v.args[0].value) == 'r':
                    self.children[name] = v.args[0].attr
                elif name == 'result':
                    self.result = (self.reduce(v), st)
                else:
                    self.alias[name] = v
                continue
            if isinstance(st, ast.If):
                if self.truth(st.test):
                    if self.run(st.body):
                        return True
                elif self.run(st.orelse):
                    return True
                continue
            if isinstance(st, ast.Return):
                if st.value is not None and not (isinstance(st.value, ast.Name) and st.value.id == 'result'):
                    self.result = (self.reduce(st.value), st)
                return True
            if isinstance(st, ast.Raise):
                self.result = None
                return True
            if isinstance(st, (ast.Pass, ast.Expr, ast.Assert)):
                continue
            raise Unsupported('statement {} in {}'.format(type(st).__name__, self.f.name))
        return False


def simplify_cases(ctx, f):
    """all runs of regexp_simplify over (class of r) x (classes of its simplified children, as far as tested) x (truth
    values of the other conditions consulted)"""
    cases = []
    stack = [{}]
    while stack:
        ch = stack.pop()
        c = _Case(ctx, f, ch)
        try:
            c.run(f.node.body)
        except _NeedChoice as nc:
            for o in nc.options:
                d = dict(ch)
                d[nc.key] = o
                stack.append(d)
            continue
        cases.append(c)
        if len(cases) > 5000:
            raise Unsupported('too many cases')
    return cases


def check_simplify(ctx, rep, f, rule='R-MODEL.M3'):
    try:
        cases = simplify_cases(ctx, f)
    except Unsupported as e:
        rep.undecided(rule, f, 'def ' + f.name, 'body outside the fragment: {}'.format(e))
        return 0
    groups = {}
    extracted = []
    for c in cases:
        K = c.choices.get('r')
        if K is None:
            continue
        if c.result is None:
            rep.violates(rule, f, 'isinstance(r, {})'.format(K), 'regexp_simplify raises / returns nothing for a {} node'.format(K))
            continue
        expr, stmt = c.result
        by_field = {fld: var for var, fld in c.children.items()}
        missing = REGEXP_FIELDS[K] - set(by_field) - {'symbol'}
        key = (K, id(stmt), u(expr))
        g = groups.setdefault(key, {'K': K, 'stmt': stmt, 'bad': None, 'n': 0, 'und': None, 'texts': [], 'weak': False})
        g['n'] += 1
        if missing and not (isinstance(expr, ast.Name) and expr.id == 'r'):
            g['bad'] = g['bad'] or 'the child {} of {} is not simplified before the node is rebuilt'.format(sorted(missing), K)
            continue
        counter = itertools.count()
        fresh = lambda: 'abcdefghijklm'[next(counter)]
        env = {}
        feasible = True
        same = None
        printed_eq = False
        unknown_true = []
        nullable_vars = set()
        non_nullable_vars = set()
        for (t, v) in c.atoms:
            text = u(t)
            mnull = re.fullmatch(r"regexp_accepts_word\((\w+), ''\)", text)
            if mnull and mnull.group(1) in c.children:
                (nullable_vars if v else non_nullable_vars).add(mnull.group(1))
                continue
            if isinstance(t, ast.Compare) and len(t.ops) == 1 and isinstance(t.ops[0], (ast.Eq, ast.NotEq)):
                a, b = u(t.left), u(t.comparators[0])
                is_eq = isinstance(t.ops[0], ast.Eq) == bool(v)
                if a in c.children and b in c.children:
                    if is_eq:
                        same = (a, b)
                    continue
                if re.fullmatch(r'(str|print_regexp\w*)\((\w+)\)', a) and re.fullmatch(r'(str|print_regexp\w*)\((\w+)\)', b):
                    if is_eq:
                        printed_eq = True
                    continue
            if v:
                unknown_true.append(text)
        for var, fld in c.children.items():
            k = c.choices.get('child:' + var)
            if k is not None:
                # a side condition on nullability must be compatible with the class of the operand
                if (var in nullable_vars and k in ('Zero', 'Symbol')) or (var in non_nullable_vars and k in ('One', 'Iteration')):
                    feasible = False
                env[var] = LEAF[k](fresh)
                if var in nullable_vars and k in ('Sum', 'Concat'):
                    env[var] = ('+', ka.ONE, env[var])
            elif var in nullable_vars:
                env[var] = ('+', ka.ONE, ka.sym(fresh()))
            else:
                env[var] = ka.sym(fresh())
        if not feasible:
            g['n'] -= 1
            continue
        if same:
            ka_, kb_ = c.choices.get('child:' + same[0]), c.choices.get('child:' + same[1])
            if ka_ is not None and kb_ is not None and ka_ != kb_:
                continue                      # structurally equal operands have the same class: infeasible case
            env[same[1]] = env[same[0]]
        try:
            if K in ('Zero', 'One', 'Symbol'):
                lhs = LEAF[K](fresh)
            elif K == 'Iteration':
                lhs = ('*', env[by_field['operand']] if 'operand' in by_field else ka.sym(fresh()))
            else:
                lhs = ('+' if K == 'Sum' else '.', env[by_field['left']] if 'left' in by_field else ka.sym(fresh()), env[by_field['right']] if 'right' in by_field else ka.sym(fresh()))
            for name, v in c.alias.items():
                try:
                    env.setdefault(name, _term_of(v, env, lhs))
                except Unsupported:
                    pass
            rhs = lhs if isinstance(expr, ast.Name) and expr.id == 'r' else _term_of(expr, env, lhs)
        except (Unsupported, KeyError) as e:
            g['und'] = g['und'] or 'result outside the fragment: {}'.format(e)
            continue
        ok, wit = ka.equivalent(lhs, rhs)
        text = '{} -> {}'.format(ka.show(lhs), ka.show(rhs))
        if text not in g['texts']:
            g['texts'].append(text)
        if not ok:
            if printed_eq:
                g['bad'] = g['bad'] or 'the rewrite {} is applied when the two operands merely print alike; printing is not injective (the symbol 1 and the constant One both print as 1), and without structural equality the rewrite changes the language (e.g. the word {!r})'.format(text, wit)
            elif unknown_true:
                g['und'] = g['und'] or 'rewrite {} is not an identity by itself and its side condition {} is outside the fragment'.format(text, unknown_true)
            else:
                when = ', '.join('{} is a {}'.format(k[6:], v) for k, v in sorted(c.choices.items()) if k.startswith('child:'))
                g['bad'] = g['bad'] or 'the rewrite {} does not preserve the language{}: the two sides differ on the word {!r}'.format(text, ' (taken when ' + when + ')' if when else '', wit)
        elif ka.size(rhs) > ka.size(lhs):
            g['bad'] = g['bad'] or 'the rewrite {} grows the expression (size {} > {})'.format(text, ka.size(rhs), ka.size(lhs))
    n = 0
    for key, g in sorted(groups.items(), key=lambda kv: (CLASSES.index(kv[0][0]), getattr(kv[1]['stmt'], 'lineno', 0))):
        n += 1
        extracted += g['texts'][:3]
        if g['bad']:
            rep.violates(rule, f, g['stmt'], g['bad'])
        elif g['und']:
            rep.undecided(rule, f, g['stmt'], g['und'])
        else:
            rep.holds(rule, f, g['stmt'], 'for a {} node this result is a Kleene-algebra identity in all {} class cases that reach it (e.g. {}), children simplified first, expression not grown'.format(g['K'], g['n'], '; '.join(g['texts'][:2])))
    rep.extra['simplify_rules_extracted'] = extracted
    rep.extra['simplify_cases'] = len(cases)
    rep.extra['simplify_results'] = n
    return len(cases)


def check_simplify_spec(ctx, rep, f, rule='R-MODEL.M3'):
    """cross-reference with the rewrite table of doc/main.tex (evidence only: an extra sound rule is no violation)"""
    tex = ctx.prog.texts.get('main.tex', '')
    rules = re.findall(r'\\textsf\{regexp-simplify\}\((.*?)\)\s*&=&\s*(.*?)\s*\\\\', tex)
    rep.extra['simplify_rules_documented'] = ['{} = {}'.format(a.replace('\\textbf', '').replace('\\cdot', '.'), b.replace('\\textbf', '')) for a, b in rules]
    if rules:
        rep.holds(rule, 'main.tex', 'rewrite table', '{} documented rewrite rules found for cross-reference (listed in the evidence)'.format(len(rules)), nontrivial=False)


# ---- M4 -------------------------------------------------------------------------------------------------------------------

def check_rip_step(ctx, rep, f, rule='R-MODEL.M4'):
    """gnfa_minimize: delta[i, j] := R1 . R2* . R3 + R4 with R1 = delta[i, rip], R2 = delta[rip, rip], R3 = delta[rip, j], R4 = delta[i, j]"""
    loops = [n for n in walk_no_nested(f.node) if isinstance(n, ast.For)]
    if len(loops) < 3:
        rep.undecided(rule, f, 'def ' + f.name, 'three nested elimination loops expected')
        return
    rip, qi, qj = (u(l.target) for l in sorted(loops, key=lambda l: l.lineno)[:3])
    def role_of_key(k):
        if k == (qi, rip):
            return 'a'
        if k == (rip, rip):
            return 'b'
        if k == (rip, qj):
            return 'c'
        if k == (qi, qj):
            return 'd'
        return None

    bad_roles = []

    def term_of(e, depth=0):
        """Kleene-algebra term of the stored expression; reads of delta become the letters a, b, c, d by their key"""
        if depth > 8:
            raise Unsupported('alias chain too long')
        if isinstance(e, ast.Name):
            d = single_def(f, e.id)
            if len(d) != 1:
                raise Unsupported('name {} has {} definitions'.format(e.id, len(d)))
            return term_of(d[0], depth + 1)
        if isinstance(e, ast.Subscript) and u(resolve_alias(f, e.value)) in ('delta', 'G.delta'):
            sl = e.slice
            if isinstance(sl, ast.Name):
                sl = resolve_alias(f, sl)
            k = tuple(u(x) for x in sl.elts) if isinstance(sl, ast.Tuple) else None
            r = role_of_key(k)
            if r is None:
                bad_roles.append(u(e))
                raise Unsupported('read of delta[{}] has no role in the rip step'.format(', '.join(k or ('?',))))
            return ka.sym(r)
        if isinstance(e, ast.Call):
            fn = e.func
            name = fn.id if isinstance(fn, ast.Name) else (fn.attr if isinstance(fn, ast.Attribute) else None)
            args = [term_of(a, depth + 1) for a in e.args]
            if name == 'Zero':
                return ka.ZERO
            if name == 'One':
                return ka.ONE
            if name == 'Iteration':
                return ('*', args[0])
            if name == 'Sum':
                return ('+', args[0], args[1])
            if name == 'Concat':
                return ('.', args[0], args[1])
            if name == 'regexp_simplify':
                return args[0]
            raise Unsupported('call ' + str(name))
        raise Unsupported(type(e).__name__)

    stores = [st for st in walk_no_nested(f.node) if isinstance(st, ast.Assign) and isinstance(st.targets[0], ast.Subscript) and u(resolve_alias(f, st.targets[0].value)) in ('delta', 'G.delta')
              and any(x is st for l in loops for x in ast.walk(l))]
    if len(stores) != 1:
        rep.undecided(rule, f, 'def ' + f.name, 'single store into delta inside the loops expected')
        return
    st = stores[0]
    ksl = st.targets[0].slice
    if isinstance(ksl, ast.Name):
        ksl = resolve_alias(f, ksl)
    key = tuple(u(x) for x in ksl.elts) if isinstance(ksl, ast.Tuple) else None
    try:
        term = term_of(st.value)
    except Unsupported as e:
        if bad_roles:
            rep.violates(rule, f, st, 'the rip step reads {} with unexpected index roles ({})'.format(bad_roles, e))
        else:
            rep.undecided(rule, f, st, 'rip term outside the fragment: {}'.format(e))
        return
    want = ('+', ('.', ka.sym('a'), ('.', ('*', ka.sym('b')), ka.sym('c'))), ka.sym('d'))
    ok, wit = ka.equivalent(term, want)
    if ok and key == (qi, qj):
        rep.holds(rule, f, st, 'delta[{i},{j}] := {t}, Kleene-algebra equivalent to R1.R2*.R3 + R4 with R1=delta[{i},{r}], R2=delta[{r},{r}], R3=delta[{r},{j}], R4=delta[{i},{j}]'.format(i=qi, j=qj, r=rip, t=ka.show(term)))
    elif not ok:
        rep.violates(rule, f, st, 'the rip step assigns {} (a=delta[i,rip], b=delta[rip,rip], c=delta[rip,j], d=delta[i,j]), which differs from a.b*.c + d on the word {!r}'.format(ka.show(term), wit))
    else:
        rep.violates(rule, f, st, 'the rip result is stored at delta[{}] instead of delta[{}, {}]'.format(', '.join(key or ()), qi, qj))
    # the ripped state is removed before the inner loops, the loops exclude accept as source and start as target
    lrip, li, lj = sorted(loops, key=lambda l: l.lineno)[:3]
    facts = {
        'rip range excludes start and accept': all(x in u(resolve_alias(f, lrip.iter)) for x in ('q_start', 'q_accept')) and '-' in u(resolve_alias(f, lrip.iter)),
        'source range excludes accept': 'q_accept' in u(resolve_alias(f, li.iter)) and '-' in u(resolve_alias(f, li.iter)),
        'target range excludes start': 'q_start' in u(resolve_alias(f, lj.iter)) and '-' in u(resolve_alias(f, lj.iter)),
    }
    removes = [n for n in lrip.body if isinstance(n, ast.Expr) and isinstance(n.value, ast.Call) and isinstance(n.value.func, ast.Attribute) and n.value.func.attr in ('remove', 'discard') and u(n.value.args[0]) == rip]
    facts['ripped state removed from Q before the inner loops'] = bool(removes) and li in lrip.body and lrip.body.index(removes[0]) < lrip.body.index(li)
    for what, okf in facts.items():
        if okf:
            rep.holds(rule, f, what, what, nontrivial=False)
        else:
            rep.violates(rule, f, what, 'state elimination: {} does not hold'.format(what))


def check_gnfa_edges(ctx, rep, f, rule='R-MODEL.M4'):
    """dfa_to_gnfa: parallel DFA edges are summed, not overwritten; start -> q0 and F -> accept carry One"""
    fx = ctx.facts(f)
    loops = [n for n in walk_no_nested(f.node) if isinstance(n, ast.For) and isinstance(n.iter, ast.Call) and isinstance(n.iter.func, ast.Attribute) and n.iter.func.attr == 'items']
    if len(loops) != 1:
        rep.undecided(rule, f, 'def ' + f.name, 'edge loop not found')
        return
    lp = loops[0]
    def canon(e):
        if isinstance(e, str):
            try:
                e = ast.parse(e, mode='eval').body
            except SyntaxError:
                return e.replace(' ', '')
        e = resolve_alias(f, e)
        if isinstance(e, ast.Subscript):
            k = resolve_alias(f, e.slice) if isinstance(e.slice, ast.Name) else e.slice
            kt = u(k).replace(' ', '')
            kt = kt[1:-1] if kt.startswith('(') and kt.endswith(')') else kt
            return '{}[{}]'.format(u(resolve_alias(f, e.value)), kt)
        t = u(e).replace(' ', '')
        return t[1:-1] if t.startswith('(') and t.endswith(')') else t

    stores = [s_ for s_ in ast.walk(lp) if isinstance(s_, ast.Assign) and isinstance(s_.targets[0], ast.Subscript)]
    summed = False
    plain_guarded = True
    for s_ in stores:
        v = s_.value
        tgt = canon(s_.targets[0])
        kslice = s_.targets[0].slice
        keyc = canon(kslice)
        mapc = canon(s_.targets[0].value)
        atoms = fx.guard_atoms(fx.cfg.n_of(s_))
        present = [a for a in atoms if a[0] == 'in' and canon(a[2]) == mapc and canon(a[1]) == keyc]
        is_sum = isinstance(v, ast.Call) and (ctx.callee_name(f, v) in ('Sum', 'regexp.Sum') or (isinstance(v.func, ast.Attribute) and v.func.attr == 'Sum'))
        if is_sum:
            if any(canon(a) == tgt for a in v.args) and present and present[0][3] is True:
                summed = True
            elif not any(canon(a) == tgt for a in v.args):
                plain_guarded = plain_guarded and bool(present and present[0][3] is False)
        else:
            if not (present and present[0][3] is False):
                plain_guarded = False
    if summed and plain_guarded:
        rep.holds(rule, f, lp, 'a second DFA edge between the same states is added to the existing label with Sum; a plain store happens only when no label exists yet')
    else:
        rep.violates(rule, f, lp, 'parallel DFA edges between the same pair of states must be summed (existing label + new symbol); here a label can be overwritten')


# ---- matcher / enumerator split facts ----------------------------------------------------------------------------------------

def _branch_for(ctx, f, K):
    for st in f.node.body:
        if isinstance(st, ast.If):
            for (t, body) in _if_chain(st):
                if t is None:
                    continue
                for var, classes in _isinstance_classes(ctx, f, t):
                    if any(c == K for c, _ in classes):
                        return t, body
    return None, None


def _comprehension_with_calls(body, fname):
    for b in body:
        for n in ast.walk(b):
            if isinstance(n, (ast.GeneratorExp, ast.ListComp, ast.SetComp)) and len(n.generators) == 1:
                calls = [c for c in ast.walk(n.elt) if isinstance(c, ast.Call) and isinstance(c.func, ast.Name) and c.func.id == fname]
                if len(calls) == 2:
                    return n, calls
    return None, None


class _MatcherModel:
    """truth-table model of one run of the matcher: the class of r and |w| = n are fixed, every recursive call
    M(child, w[lo:hi]) and the test `w == r.symbol` are boolean atoms with an assigned value; the body is evaluated
    on booleans and small integers only (nothing of the repository runs)."""

    def __init__(self, ctx, f, K, n, assign):
        self.ctx, self.f, self.K, self.n, self.assign = ctx, f, K, n, assign
        self.r = f.pos_params[0].arg
        self.w = f.pos_params[1].arg
        self.env = {}
        self.used = set()

    def atom(self, key):
        self.used.add(key)
        if key not in self.assign:
            raise _NeedChoice(key, (False, True))
        return self.assign[key]

    def word(self, e, ienv):
        """(lo, hi) of a word expression"""
        if isinstance(e, ast.Name) and isinstance(self.env.get(e.id), tuple) and self.env[e.id][0] == 'word':
            return self.env[e.id][1]
        if isinstance(e, ast.Name) and e.id == self.w:
            return (0, self.n)
        if isinstance(e, ast.Subscript) and isinstance(e.slice, ast.Slice) and e.slice.step is None:
            lo0, hi0 = self.word(e.value, ienv)
            lo = self.int(e.slice.lower, ienv) if e.slice.lower is not None else 0
            hi = self.int(e.slice.upper, ienv) if e.slice.upper is not None else (hi0 - lo0)
            ln = hi0 - lo0
            lo = max(0, min(ln, lo if lo >= 0 else ln + lo))
            hi = max(0, min(ln, hi if hi >= 0 else ln + hi))
            return (lo0 + lo, lo0 + max(lo, hi))
        raise Unsupported('word expression ' + u(e))

    def int(self, e, ienv):
        if isinstance(e, ast.Constant) and isinstance(e.value, int) and not isinstance(e.value, bool):
            return e.value
        if isinstance(e, ast.Name):
            if e.id in ienv:
                return ienv[e.id]
            v = self.env.get(e.id)
            if isinstance(v, int) and not isinstance(v, bool):
                return v
            raise Unsupported('integer ' + e.id)
        if isinstance(e, ast.Call) and isinstance(e.func, ast.Name) and e.func.id == 'len' and len(e.args) == 1:
            lo, hi = self.word(e.args[0], ienv)
            return hi - lo
        if isinstance(e, ast.BinOp) and isinstance(e.op, (ast.Add, ast.Sub)):
            a, b = self.int(e.left, ienv), self.int(e.right, ienv)
            return a + b if isinstance(e.op, ast.Add) else a - b
        if isinstance(e, ast.UnaryOp) and isinstance(e.op, ast.USub):
            return -self.int(e.operand, ienv)
        raise Unsupported('integer expression ' + u(e))

    def child(self, e):
        t = u(e)
        if t == self.r:
            return 'self'
        if isinstance(e, ast.Attribute) and u(e.value) == self.r:
            return e.attr
        if isinstance(e, ast.Name) and isinstance(self.env.get(e.id), tuple) and self.env[e.id][0] == 'child':
            return self.env[e.id][1]
        raise Unsupported('regexp argument ' + t)

    def val(self, e, ienv):
        """boolean (or None) value of an expression"""
        if isinstance(e, ast.Constant):
            return e.value
        if isinstance(e, ast.Name):
            if e.id in self.env and not isinstance(self.env[e.id], tuple):
                return self.env[e.id]
            if e.id == self.w:
                lo, hi = self.word(e, ienv)
                return hi > lo             # truthiness of the word
            raise Unsupported('name ' + e.id)
        if isinstance(e, ast.UnaryOp) and isinstance(e.op, ast.Not):
            return not self.val(e.operand, ienv)
        if isinstance(e, ast.BoolOp):
            vals = [self.val(v, ienv) for v in e.values]      # every operand is evaluated: atoms are total, order is irrelevant
            return all(vals) if isinstance(e.op, ast.And) else any(vals)
        if isinstance(e, ast.IfExp):
            return self.val(e.body, ienv) if self.val(e.test, ienv) else self.val(e.orelse, ienv)
        if isinstance(e, ast.Compare) and len(e.ops) == 1:
            a, b, op = e.left, e.comparators[0], e.ops[0]
            ta, tb = u(a), u(b)
            sym = '{}.symbol'.format(self.r)
            if {ta, tb} == {self.w, sym} and isinstance(op, (ast.Eq, ast.NotEq)):
                v = self.atom(('symbol',)) if self.n == 1 else False
                return v if isinstance(op, ast.Eq) else not v
            if isinstance(op, (ast.Eq, ast.NotEq)) and (tb in ("''", '""') or ta in ("''", '""')):
                other = a if tb in ("''", '""') else b
                lo, hi = self.word(other, ienv)
                return (hi == lo) if isinstance(op, ast.Eq) else (hi != lo)
            x, y = self.int(a, ienv), self.int(b, ienv)
            return {ast.Eq: x == y, ast.NotEq: x != y, ast.Lt: x < y, ast.LtE: x <= y, ast.Gt: x > y, ast.GtE: x >= y}[type(op)]
        if isinstance(e, ast.Call) and isinstance(e.func, ast.Name) and e.func.id == self.f.name and len(e.args) == 2:
            return self.atom(('M', self.child(e.args[0])) + self.word(e.args[1], ienv))
        if isinstance(e, ast.Call) and isinstance(e.func, ast.Name) and e.func.id in ('any', 'all') and len(e.args) == 1 and isinstance(e.args[0], (ast.GeneratorExp, ast.ListComp)):
            g = e.args[0]
            if len(g.generators) != 1 or not isinstance(g.generators[0].target, ast.Name):
                raise Unsupported('comprehension ' + u(g))
            gen = g.generators[0]
            it = gen.iter
            if not (isinstance(it, ast.Call) and isinstance(it.func, ast.Name) and it.func.id == 'range' and 1 <= len(it.args) <= 2):
                raise Unsupported('iteration over ' + u(it))
            lo = self.int(it.args[0], ienv) if len(it.args) == 2 else 0
            hi = self.int(it.args[-1], ienv)
            vals = []
            for k in range(lo, hi):
                ie = dict(ienv)
                ie[gen.target.id] = k
                if all(self.val(c, ie) for c in gen.ifs):
                    vals.append(self.val(g.elt, ie))
            return any(vals) if e.func.id == 'any' else all(vals)
        if isinstance(e, ast.Call) and isinstance(e.func, ast.Name) and e.func.id == 'bool' and len(e.args) == 1:
            return bool(self.val(e.args[0], ienv))
        if isinstance(e, ast.Call) and isinstance(e.func, ast.Name) and e.func.id == 'isinstance':
            elts = e.args[1].elts if isinstance(e.args[1], ast.Tuple) else [e.args[1]]
            names = [u(x).split('.')[-1] for x in elts]
            if u(e.args[0]) != self.r:
                raise Unsupported('isinstance of ' + u(e.args[0]))
            return self.K in names or 'Regexp' in names
        raise Unsupported('expression ' + u(e))

    def run(self, stmts):
        """('ret', value) or None"""
        for st in stmts:
            if isinstance(st, ast.Expr):
                continue
            if isinstance(st, (ast.Assign, ast.AnnAssign)):
                tg = st.targets[0] if isinstance(st, ast.Assign) else st.target
                if st.value is None or not isinstance(tg, ast.Name):
                    continue
                v = st.value
                try:
                    self.env[tg.id] = self.val(v, {})
                except Unsupported:
                    try:
                        self.env[tg.id] = self.int(v, {})
                    except Unsupported:
                        try:
                            self.env[tg.id] = ('word', self.word(v, {}))
                        except Unsupported:
                            self.env[tg.id] = ('child', self.child(v))
                continue
            if isinstance(st, ast.If):
                r = self.run(st.body) if self.val(st.test, {}) else self.run(st.orelse)
                if r is not None:
                    return r
                continue
            if isinstance(st, ast.Return):
                return ('ret', self.val(st.value, {}) if st.value is not None else None)
            if isinstance(st, ast.Raise):
                return ('raise', None)
            if isinstance(st, ast.Pass):
                continue
            if isinstance(st, ast.Break):
                return ('break', None)
            if isinstance(st, ast.Continue):
                return ('continue', None)
            if isinstance(st, ast.AugAssign) and isinstance(st.target, ast.Name) and isinstance(st.op, (ast.BitOr, ast.BitAnd)):
                cur = self.env.get(st.target.id)
                v = self.val(st.value, {})
                if isinstance(cur, tuple):
                    raise Unsupported('update of ' + st.target.id)
                self.env[st.target.id] = (bool(cur) or bool(v)) if isinstance(st.op, ast.BitOr) else (bool(cur) and bool(v))
                continue
            if isinstance(st, ast.For) and isinstance(st.target, ast.Name) and isinstance(st.iter, ast.Call) and isinstance(st.iter.func, ast.Name) \
                    and st.iter.func.id == 'range' and 1 <= len(st.iter.args) <= 3 and not st.iter.keywords:
                # an explicit loop over the split points
                args = [self.int(a, {}) for a in st.iter.args]
                broke = False
                for k in range(*args):
                    self.env[st.target.id] = k
                    r = self.run(st.body)
                    if r is None or r[0] == 'continue':
                        continue
                    if r[0] == 'break':
                        broke = True
                        break
                    return r
                if not broke and st.orelse:
                    r = self.run(st.orelse)
                    if r is not None:
                        return r
                continue
            if isinstance(st, ast.While):
                broke = False
                for _ in range(4 * self.n + 8):
                    if not self.val(st.test, {}):
                        break
                    r = self.run(st.body)
                    if r is None or r[0] == 'continue':
                        continue
                    if r[0] == 'break':
                        broke = True
                        break
                    return r
                else:
                    raise Unsupported('loop does not end within the model')
                if not broke and st.orelse:
                    r = self.run(st.orelse)
                    if r is not None:
                        return r
                continue
            raise Unsupported('statement ' + type(st).__name__)
        return None


def _matcher_spec(K, n, get):
    """the denotational answer from the same atoms"""
    if K == 'Zero':
        return False
    if K == 'One':
        return n == 0
    if K == 'Symbol':
        return get(('symbol',)) if n == 1 else False
    if K == 'Sum':
        return get(('M', 'left', 0, n)) or get(('M', 'right', 0, n))
    if K == 'Concat':
        return any(get(('M', 'left', 0, k)) and get(('M', 'right', k, n)) for k in range(0, n + 1))
    if K == 'Iteration':
        consulted = getattr(get, 'consulted', None)

        def star(lo):
            # M(r*, w[lo:n]): the value the body was given when it asked for it, else the denotational unfolding
            if lo == n:
                return True if consulted is None or ('M', 'self', lo, n) not in consulted else get(('M', 'self', lo, n))
            if consulted is None or ('M', 'self', lo, n) in consulted:
                return get(('M', 'self', lo, n))
            return any(get(('M', 'operand', lo, j)) and star(j) for j in range(lo + 1, n + 1))
        return n == 0 or any(get(('M', 'operand', 0, k)) and star(k) for k in range(1, n + 1))
    raise Unsupported(K)


def check_matcher(ctx, rep, f, rule='R-MODEL.M3m'):
    """regexp_accepts_word as a truth-table model: for every class of r, every |w| = 0..3 and every truth assignment of the
    recursive calls on sub-words that the body consults, the value returned equals the denotational clause
      0: false | 1: w = eps | a: w = a | r+s: M(r,w) or M(s,w) | r.s: exists k in [0,|w|]: M(r,w[:k]) and M(s,w[k:])
      r*: w = eps or exists k in [1,|w|]: M(r,w[:k]) and M(r*,w[k:])
    evaluated on the same atoms (atoms the body does not consult are quantified over as well)."""
    decided = 0
    for K in CLASSES:
        bad = None
        und = None
        total = 0
        for n in range(0, 4):
            stack = [{}]
            while stack and bad is None and und is None:
                asg = stack.pop()
                m = _MatcherModel(ctx, f, K, n, asg)
                try:
                    out = m.run(f.node.body)
                except _NeedChoice as nc:
                    for o in nc.options:
                        d = dict(asg)
                        d[nc.key] = o
                        stack.append(d)
                    continue
                except Unsupported as e:
                    und = str(e)
                    break
                total += 1
                got = out[1] if out is not None and out[0] == 'ret' else None
                # atoms of the specification the body never consulted: the answer must not depend on them either way
                need = []

                def get(key):
                    if key in asg:
                        return asg[key]
                    need.append(key)
                    return False
                # an iterative star matcher never asks for M(r*, suffix): those values are then the unfolding of the clause
                get.consulted = {k for k in asg if k[0] == 'M' and k[1] == 'self'}
                want_lo = _matcher_spec(K, n, get)
                missing = sorted(set(need))
                if missing:
                    def get2(key):
                        return asg[key] if key in asg else True
                    get2.consulted = get.consulted
                    want_hi = _matcher_spec(K, n, get2)
                else:
                    want_hi = want_lo
                if want_lo != want_hi or bool(got) != bool(want_lo) or got is None:
                    shown = ', '.join('{}={}'.format('M({},w[{}:{}])'.format(*k[1:]) if k[0] == 'M' else 'w==symbol', v) for k, v in sorted(asg.items(), key=repr))
                    if want_lo != want_hi:
                        bad = 'for a {} node and |w| = {} the result does not depend on {} although the language does (with {})'.format(K, n, ['M({},w[{}:{}])'.format(*k[1:]) if k[0] == 'M' else 'w==symbol' for k in missing], shown or 'no sub-results')
                    else:
                        bad = 'for a {} node and |w| = {} the matcher returns {} where the denotational clause gives {} (sub-results: {})'.format(K, n, got, want_lo, shown or 'none')
        decided += 1
        if und is not None:
            rep.undecided(rule, f, 'isinstance(r, {})'.format(K), 'matcher body outside the truth-table fragment: {}'.format(und))
        elif bad is not None:
            rep.violates(rule, f, 'isinstance(r, {})'.format(K), bad)
        else:
            rep.holds(rule, f, 'isinstance(r, {})'.format(K), 'for |w| = 0..3 and all {} truth assignments of the recursive sub-results the {} case equals its denotational clause'.format(total, K))
    return decided


# ---- M3 by finite-shape evaluation -----------------------------------------------------------------------------------------

def check_simplify_shapes(ctx, rep, f, rule='R-MODEL.M3'):
    """regexp_simplify, evaluated (analyser's own evaluator) on every regular-expression tree of depth <= 3 over the
    leaves 0, 1 and distinct letters: the result denotes the same language (Kleene-algebra equivalence with the letters as
    free variables) and is not larger than the argument.  The simplifier decides by the class of a node and of its
    (already simplified) children, so depth 3 covers every combination of decisions.  Returns the number of trees
    evaluated, or None when the body is outside the evaluator's fragment."""
    from .. import shapes
    from ..abseval import Unsupported as U2
    trees = list(shapes.shapes(3))
    # one level deeper for rules that look at the class of a GRANDCHILD (`(r* . s)*`): the lowest compound level is one
    # representative per class over letters, the two levels above it are complete
    a = ('Symbol', 'a')
    reps = [('Zero',), ('One',), a, ('Iteration', a), ('Sum', a, a), ('Concat', a, a)]
    mid = reps[:3] + [('Iteration', x) for x in reps] + [(k, x, y) for k in ('Sum', 'Concat') for x in reps for y in reps]
    seen_t = set(trees)
    for t in [('Iteration', x) for x in mid] + [(k, x, y) for k in ('Sum', 'Concat') for x in mid for y in mid]:
        if t not in seen_t:
            seen_t.add(t)
            trees.append(t)
    n = 0
    try:
        for t in trees:
            r = shapes.rename(t, 'x')
            got = shapes.ShapeEval(ctx, None, {}).call(f, [r], False)
            n += 1
            if got == ('raise',):
                rep.violates(rule, f, 'def ' + f.name, '{} raises for the expression {}'.format(f.name, ka.show(shapes.ka_of(r))))
                return n
            if not (isinstance(got, tuple) and got and got[0] in shapes.ARITY):
                raise U2('result is not a regular expression')
            if got == r:
                continue
            if not ka.equivalent(shapes.ka_of(r), shapes.ka_of(got))[0]:
                rep.violates(rule, f, 'def ' + f.name, '{}({}) = {}: the result does not denote the language of the argument ({} = {} is not an identity of Kleene algebra)'.format(
                    f.name, ka.show(shapes.ka_of(r)), ka.show(shapes.ka_of(got)), ka.show(shapes.ka_of(r)), ka.show(shapes.ka_of(got))))
                return n
            if shapes.size(got) > shapes.size(r):
                rep.violates(rule, f, 'def ' + f.name, '{}({}) = {}: the result is larger than the argument'.format(f.name, ka.show(shapes.ka_of(r)), ka.show(shapes.ka_of(got))))
                return n
    except (U2, Unsupported, RecursionError) as e:
        rep.note('{}: finite-shape evaluation not applicable ({})'.format(f.short, e))
        return None
    rep.holds(rule, f, 'def ' + f.name, 'on all {} trees (every tree of depth <= 3 over 0, 1 and distinct letters, and the trees of depth 4 whose lowest compound level is one representative per class) the result is equal to the argument in Kleene algebra and not larger'.format(n))
    return n


# ---- M4 by finite-model evaluation ------------------------------------------------------------------------------------------

def check_rip_model(ctx, rep, f, rule='R-MODEL.M4'):
    """gnfa_minimize, evaluated (analyser's own evaluator, the simplifier replaced by the identity) on a generalised NFA
    with a start state, an accepting state and two inner states whose twelve edges carry twelve distinct letters (plus
    a variant with missing edges): the expression left on the edge start -> accept must be equal, in Kleene algebra with the
    letters as free variables, to the expression that the textbook elimination R1 . R2* . R3 + R4 gives -- in whichever
    order the states are ripped.  All edges of the model are independent variables, so this is the general two-state case;
    a rip step only combines the four edges around the ripped state.  Returns True when decided."""
    import collections
    from .. import shapes
    from ..miniexec import Interp, Obj, Raised
    from ..abseval import Unsupported as U2

    classes = {'Zero': lambda: ('Zero',), 'One': lambda: ('One',), 'Symbol': lambda symbol: ('Symbol', symbol), 'Iteration': lambda operand: ('Iteration', operand),
               'Sum': lambda left, right: ('Sum', left, right), 'Concat': lambda left, right: ('Concat', left, right)}

    def reference(edges, inner):
        d = dict(edges)
        get = lambda i, j: d.get((i, j), ('Zero',))
        rest = ['s', 't'] + list(inner)
        for r in inner:
            rest.remove(r)
            nd = {}
            for i in rest:
                for j in rest:
                    if i == 't' or j == 's':
                        continue
                    nd[i, j] = ('Sum', ('Concat', get(i, r), ('Concat', ('Iteration', get(r, r)), get(r, j))), get(i, j))
            d = nd
        return get('s', 't')
    variants = []
    letters = iter('abcdefghijklmnop')
    full = {}
    for i in ('s', 'p', 'q'):
        for j in ('p', 'q', 't'):
            full[i, j] = ('Symbol', next(letters))
    variants.append(('all twelve edges', full, ['p', 'q']))
    sparse = {k: v for k, v in full.items() if k not in (('s', 't'), ('p', 'p'), ('q', 'p'))}
    variants.append(('no direct edge, no loop on p, no edge q -> p', sparse, ['p', 'q']))
    variants.append(('one inner state', {k: v for k, v in full.items() if 'q' not in k}, ['p']))
    bad = None
    try:
        for name, edges, inner in variants:
            delta = collections.defaultdict(lambda: ('Zero',))
            delta.update(edges)
            G = Obj('GNFA', Q={'s', 't'} | set(inner), Sigma=set(), delta=delta, q_start='s', q_accept='t')
            try:
                Interp(ctx, stubs={'regexp_simplify': lambda it, a, k: a[0]}, classes=classes, max_steps=200000).call(f, [G])
            except Raised as ex:
                bad = 'on the model "{}" the elimination raises {}'.format(name, ex.name)
                break
            got = G._f['delta'].get(('s', 't'), ('Zero',)) if isinstance(G._f['delta'], dict) else None
            if not (isinstance(got, tuple) and got and got[0] in shapes.ARITY):
                raise U2('the edge start -> accept does not carry a regular expression')
            want = reference(edges, inner)
            if not ka.equivalent(shapes.ka_of(want), shapes.ka_of(got))[0]:
                bad = 'on the model "{}" the expression left on start -> accept is {}, which is not equal to the elimination R1.R2*.R3 + R4 of the same automaton ({})'.format(
                    name, ka.show(shapes.ka_of(got))[:160], ka.show(shapes.ka_of(want))[:160])
                break
    except (U2, Unsupported) as e:
        rep.note('{}: finite-model evaluation not applicable ({})'.format(f.short, e))
        return False
    if bad:
        rep.violates(rule, f, 'def ' + f.name, bad)
    else:
        rep.holds(rule, f, 'def ' + f.name, 'on generalised NFAs with up to two inner states and independent letters on every edge the remaining expression equals the textbook elimination in Kleene algebra')
    return True


def check_gnfa_edges_model(ctx, rep, f, rule='R-MODEL.M4'):
    """dfa_to_gnfa, evaluated with the analyser's finite-model evaluator on a DFA whose state pairs are joined by one, two
    and three parallel transitions (loops and non-loops): every edge of the generalised NFA must carry an expression equal
    (Kleene algebra) to the SUM of the symbols of the parallel transitions, start -> q0 and F -> accept carry 1, the two new
    states are new, and nothing else is added.  The construction handles each transition on its own and groups by state
    pair, so one, two and three parallel symbols cover "first, second, any later".  Returns True when decided."""
    import collections
    from .. import shapes
    from ..miniexec import Interp, Obj, Raised
    from ..abseval import Unsupported as U2
    classes = {'Zero': lambda: ('Zero',), 'One': lambda: ('One',), 'Symbol': lambda symbol: ('Symbol', symbol), 'Iteration': lambda operand: ('Iteration', operand),
               'Sum': lambda left, right: ('Sum', left, right), 'Concat': lambda left, right: ('Concat', left, right),
               'GNFA': lambda Q, Sigma, delta, q_start, q_accept, *rest, **kw: Obj('GNFA', Q=Q, Sigma=Sigma, delta=delta, q_start=q_start, q_accept=q_accept)}
    # q: its parallel transitions to p (a, c) and to itself (b, d) are interleaved in the order of the symbols
    trans = {('p', 'a'): 'q', ('p', 'b'): 'q', ('p', 'c'): 'q', ('p', 'd'): 'p', ('q', 'a'): 'p', ('q', 'b'): 'q', ('q', 'c'): 'p', ('q', 'd'): 'q',
             ('start1', 'a'): 'start1', ('start1', 'b'): 'p', ('start1', 'c'): 'p', ('start1', 'd'): 'p'}
    D = Obj('DFA', Q={'p', 'q', 'start1'}, Sigma={'a', 'b', 'c', 'd'}, delta=dict(trans), q0='p', F={'q', 'start1'})
    try:
        try:
            G = Interp(ctx, classes=classes).call(f, [D])
        except Raised as ex:
            rep.violates(rule, f, 'def ' + f.name, 'the construction raises {} on a DFA with parallel transitions'.format(ex.name))
            return True
        if not isinstance(G, Obj) or G._cls != 'GNFA':
            raise U2('result is not a GNFA')
        d1 = G._f['delta']
        qs, qa = G._f['q_start'], G._f['q_accept']
        bad = None
        if qs in D._f['Q'] or qa in D._f['Q'] or qs == qa:
            bad = 'the new start / accept states ({}, {}) are not new, distinct states (the DFA has a state start1)'.format(qs, qa)
        elif set(G._f['Q']) != D._f['Q'] | {qs, qa}:
            bad = 'the state set of the result is {} instead of Q plus the two new states'.format(sorted(G._f['Q']))
        get = lambda x, y: d1[x, y] if (x, y) in d1 else ('Zero',)
        want = collections.defaultdict(list)
        for (x, a), y in sorted(trans.items()):
            want[x, y].append(a)
        expected = {}
        for (x, y), syms in want.items():
            t = ('Symbol', syms[0])
            for a in syms[1:]:
                t = ('Sum', t, ('Symbol', a))
            expected[x, y] = t
        expected[qs, 'p'] = ('One',)
        for q in D._f['F']:
            expected[q, qa] = ('One',)
        if bad is None:
            keys = set(expected) | {k for k in d1.keys()}
            for k in sorted(keys, key=repr):
                got = get(*k)
                if not (isinstance(got, tuple) and got and got[0] in shapes.ARITY):
                    raise U2('an edge does not carry a regular expression')
                w = expected.get(k, ('Zero',))
                if not ka.equivalent(shapes.ka_of(w), shapes.ka_of(got))[0]:
                    bad = 'the edge {} -> {} carries {} where the parallel transitions of the DFA give {}: transitions are lost (or invented), so the extracted expression denotes another language'.format(
                        k[0], k[1], ka.show(shapes.ka_of(got)), ka.show(shapes.ka_of(w)))
                    break
    except (U2, Unsupported) as e:
        rep.note('{}: finite-model evaluation not applicable ({})'.format(f.short, e))
        return False
    if bad:
        rep.violates(rule, f, 'def ' + f.name, bad)
    else:
        rep.holds(rule, f, 'def ' + f.name, 'on a DFA with one, two and three parallel transitions between its states (contiguous and interleaved in the order of the symbols) every edge of the generalised NFA carries the sum of the parallel symbols, start and accept edges carry 1, nothing else is added')
    return True
