"""R-MODEL M3 (regexp_simplify as Kleene-algebra identities), M4 (GNFA rip step), matcher / enumerator split facts."""
import ast
import itertools
import re

from .. import ka, abseval
from ..abseval import Unsupported
from ..astutil import u, names_in, walk_no_nested, atoms_of
from ..model import norm
from .dispatch import _if_chain, _isinstance_classes, REGEXP_FIELDS
from .models import single_def, resolve_alias

LEAF = {'Zero': lambda fresh: ka.ZERO, 'One': lambda fresh: ka.ONE, 'Symbol': lambda fresh: ka.sym(fresh()),
        'Iteration': lambda fresh: ('*', ka.sym(fresh())), 'Sum': lambda fresh: ('+', ka.sym(fresh()), ka.sym(fresh())),
        'Concat': lambda fresh: ('.', ka.sym(fresh()), ka.sym(fresh()))}


def _term_of(expr, env, lhs):
    """term denoted by a result expression built from constructors and child variables"""
    if isinstance(expr, ast.Name):
        if expr.id in env:
            return env[expr.id]
        if expr.id == 'r':
            return lhs
        raise Unsupported('name ' + expr.id)
    if isinstance(expr, ast.Call):
        fn = expr.func
        name = fn.id if isinstance(fn, ast.Name) else (fn.attr if isinstance(fn, ast.Attribute) else None)
        args = [_term_of(a, env, lhs) for a in expr.args]
        if name == 'Zero':
            return ka.ZERO
        if name == 'One':
            return ka.ONE
        if name == 'Iteration':
            return ('*', args[0])
        if name == 'Sum':
            return ('+', args[0], args[1])
        if name == 'Concat':
            return ('.', args[0], args[1])
        if name == 'regexp_simplify':
            return args[0]
        raise Unsupported('call ' + str(name))
    raise Unsupported(type(expr).__name__)


def simplify_paths(ctx, f):
    """decision paths of regexp_simplify: [(constructor, {child var: class or None}, extra conditions, result expr, stmt)]"""
    out = []
    top = [s for s in f.node.body if isinstance(s, ast.If)]
    if not top:
        return out, []
    issues = []
    for (t, body) in _if_chain(top[0]):
        if t is None:
            continue
        tests = _isinstance_classes(ctx, f, t)
        if not tests:
            continue
        for (K, _) in tests[0][1]:
            if K not in REGEXP_FIELDS:
                continue
            child_of = {}
            for st in body:
                if isinstance(st, ast.Assign) and isinstance(st.targets[0], ast.Name) and isinstance(st.value, ast.Call) and ctx.callee_name(f, st.value) == f.name:
                    a = st.value.args[0]
                    if isinstance(a, ast.Attribute):
                        child_of[st.targets[0].id] = a.attr
            missing = REGEXP_FIELDS[K] - set(child_of.values()) - ({'symbol'})
            if missing:
                issues.append((K, 'the child {} of {} is not simplified before the node is rebuilt'.format(sorted(missing), K), t))
            inner = [s for s in body if isinstance(s, ast.If)]
            direct = [s for s in body if isinstance(s, ast.Assign) and isinstance(s.targets[0], ast.Name) and s.targets[0].id == 'result']
            if not inner:
                for s in direct:
                    out.append((K, child_of, {}, [], s.value, s))
                continue
            prior = []
            for (ct, cbody) in _if_chain(inner[0]):
                res = [s for s in cbody if isinstance(s, ast.Assign) and isinstance(s.targets[0], ast.Name) and s.targets[0].id == 'result']
                if not res:
                    continue
                if ct is None:
                    out.append((K, child_of, {}, [], res[0].value, res[0]))
                    continue
                its = _isinstance_classes(ctx, f, ct)
                other = []
                for a in atoms_of(ct, True):
                    if a[0] != 'isinstance':
                        other.append(a)
                if its and not other and isinstance(ct, ast.Call):
                    var, classes = its[0]
                    for (cls, _) in classes:
                        out.append((K, child_of, {var: cls}, [], res[0].value, res[0]))
                else:
                    cons = {}
                    for var, classes in its:
                        if len(classes) == 1:
                            cons[var] = classes[0][0]
                    out.append((K, child_of, cons, other, res[0].value, res[0]))
    return out, issues


def check_simplify(ctx, rep, f, rule='R-MODEL.M3'):
    paths, issues = simplify_paths(ctx, f)
    for (K, msg, node) in issues:
        rep.violates(rule, f, node, msg)
    extracted = []
    for (K, child_of, cons, other, result, stmt) in paths:
        counter = itertools.count()
        fresh = lambda: 'abcdefgh'[next(counter)]
        env = {}
        same = None
        printed_eq = False
        unknown = False
        nullable_vars = set()
        for a in other:
            mnull = re.fullmatch(r"regexp_accepts_word\((\w+), ''\)", a[1]) if a[0] == 'truthy' and a[3] is True else None
            if mnull and mnull.group(1) in child_of:
                nullable_vars.add(mnull.group(1))     # side condition "the child matches the empty word"
                continue
            if a[0] == 'eq' and a[3] is True and a[1] in child_of and a[2] in child_of:
                same = (a[1], a[2])
            elif a[0] == 'eq' and a[3] is True and re.fullmatch(r'(str|print_regexp\w*)\((\w+)\)', a[1]) and re.fullmatch(r'(str|print_regexp\w*)\((\w+)\)', a[2]):
                printed_eq = True
            else:
                unknown = True
        for var, fld in child_of.items():
            if var in cons:
                env[var] = LEAF[cons[var]](fresh)
            elif var in nullable_vars:
                env[var] = ('+', ka.ONE, ka.sym(fresh()))     # r is nullable iff r = 1 + r
            else:
                env[var] = ka.sym(fresh())
        if same:
            env[same[1]] = env[same[0]]
        # LHS: constructor applied to its (already simplified) children, in field order
        by_field = {fld: var for var, fld in child_of.items()}
        try:
            if K in ('Zero', 'One', 'Symbol'):
                lhs = LEAF[K](fresh)
                rhs = lhs if isinstance(result, ast.Name) and result.id == 'r' else _term_of(result, env, lhs)
            elif K == 'Iteration':
                lhs = ('*', env[by_field['operand']])
                rhs = _term_of(result, env, lhs)
            else:
                lhs = ('+' if K == 'Sum' else '.', env[by_field['left']], env[by_field['right']])
                rhs = _term_of(result, env, lhs)
        except (Unsupported, KeyError) as e:
            rep.undecided(rule, f, stmt, 'rewrite path outside the fragment: {}'.format(e))
            continue
        ok, wit = ka.equivalent(lhs, rhs)
        text = '{} -> {}'.format(ka.show(lhs), ka.show(rhs))
        extracted.append(text)
        if ok and ka.size(rhs) <= ka.size(lhs):
            if unknown or printed_eq:
                rep.holds(rule, f, stmt, 'rewrite {} is a Kleene-algebra identity even without its side condition; size {} <= {}'.format(text, ka.size(rhs), ka.size(lhs)))
            else:
                rep.holds(rule, f, stmt, 'rewrite {} is a Kleene-algebra identity (children as fresh letters) and does not grow the expression ({} <= {})'.format(text, ka.size(rhs), ka.size(lhs)))
        elif not ok:
            if printed_eq:
                rep.violates(rule, f, stmt, 'the rewrite {} is applied when the two operands merely print alike; printing is not injective (the symbol 1 and the constant One both print as 1), and without structural equality the rewrite changes the language (e.g. the word {!r})'.format(text, wit))
            elif unknown:
                rep.undecided(rule, f, stmt, 'rewrite {} is not an identity by itself and its side condition {} is outside the fragment'.format(text, [(a[0], a[1], a[2]) for a in other]))
            else:
                rep.violates(rule, f, stmt, 'the rewrite {} does not preserve the language: the two sides differ on the word {!r}'.format(text, wit))
        else:
            rep.violates(rule, f, stmt, 'the rewrite {} grows the expression (size {} > {})'.format(text, ka.size(rhs), ka.size(lhs)))
    rep.extra['simplify_rules_extracted'] = extracted
    # the fall-through for unknown node kinds raises
    return len(paths)


def check_simplify_spec(ctx, rep, f, rule='R-MODEL.M3'):
    """cross-reference with the rewrite table of doc/main.tex (evidence only: an extra sound rule is no violation)"""
    tex = ctx.prog.texts.get('main.tex', '')
    rules = re.findall(r'\\textsf\{regexp-simplify\}\((.*?)\)\s*&=&\s*(.*?)\s*\\\\', tex)
    rep.extra['simplify_rules_documented'] = ['{} = {}'.format(a.replace('\\textbf', '').replace('\\cdot', '.'), b.replace('\\textbf', '')) for a, b in rules]
    if rules:
        rep.holds(rule, 'main.tex', 'rewrite table', '{} documented rewrite rules found for cross-reference (listed in the evidence)'.format(len(rules)), nontrivial=False)


# ---- M4 -------------------------------------------------------------------------------------------------------------------

def check_rip_step(ctx, rep, f, rule='R-MODEL.M4'):
    """gnfa_minimize: delta[i, j] := R1 . R2* . R3 + R4 with R1 = delta[i, rip], R2 = delta[rip, rip], R3 = delta[rip, j], R4 = delta[i, j]"""
    loops = [n for n in walk_no_nested(f.node) if isinstance(n, ast.For)]
    if len(loops) < 3:
        rep.undecided(rule, f, 'def ' + f.name, 'three nested elimination loops expected')
        return
    rip, qi, qj = (u(l.target) for l in sorted(loops, key=lambda l: l.lineno)[:3])
    role = {}
    for st in walk_no_nested(f.node):
        if isinstance(st, ast.Assign) and isinstance(st.targets[0], ast.Name) and isinstance(st.value, ast.Subscript) and u(st.value.value) in ('delta', 'G.delta'):
            k = tuple(u(x) for x in st.value.slice.elts) if isinstance(st.value.slice, ast.Tuple) else None
            if k == (qi, rip):
                role[st.targets[0].id] = 'a'
            elif k == (rip, rip):
                role[st.targets[0].id] = 'b'
            elif k == (rip, qj):
                role[st.targets[0].id] = 'c'
            elif k == (qi, qj):
                role[st.targets[0].id] = 'd'
            elif k is not None:
                role[st.targets[0].id] = '?' + str(k)
    stores = [st for st in walk_no_nested(f.node) if isinstance(st, ast.Assign) and isinstance(st.targets[0], ast.Subscript) and u(st.targets[0].value) in ('delta', 'G.delta')
              and any(x is st for l in loops for x in ast.walk(l))]
    if len(stores) != 1:
        rep.undecided(rule, f, 'def ' + f.name, 'single store into delta inside the loops expected')
        return
    st = stores[0]
    key = tuple(u(x) for x in st.targets[0].slice.elts) if isinstance(st.targets[0].slice, ast.Tuple) else None
    expr = resolve_alias(f, st.value)
    env = {k: ka.sym(v) for k, v in role.items() if len(v) == 1}
    try:
        term = _term_of(expr, env, None)
    except Unsupported as e:
        bad = [k for k, v in role.items() if len(v) > 1]
        rep.violates(rule, f, st, 'the rip step reads {} with unexpected index roles ({})'.format(bad or 'an unknown value', e)) if bad else rep.undecided(rule, f, st, 'rip term outside the fragment: {}'.format(e))
        return
    want = ('+', ('.', ka.sym('a'), ('.', ('*', ka.sym('b')), ka.sym('c'))), ka.sym('d'))
    ok, wit = ka.equivalent(term, want)
    if ok and key == (qi, qj):
        rep.holds(rule, f, st, 'delta[{i},{j}] := {t}, Kleene-algebra equivalent to R1.R2*.R3 + R4 with R1=delta[{i},{r}], R2=delta[{r},{r}], R3=delta[{r},{j}], R4=delta[{i},{j}]'.format(i=qi, j=qj, r=rip, t=ka.show(term)))
    elif not ok:
        rep.violates(rule, f, st, 'the rip step assigns {} (a=delta[i,rip], b=delta[rip,rip], c=delta[rip,j], d=delta[i,j]), which differs from a.b*.c + d on the word {!r}'.format(ka.show(term), wit))
    else:
        rep.violates(rule, f, st, 'the rip result is stored at delta[{}] instead of delta[{}, {}]'.format(', '.join(key or ()), qi, qj))
    # the ripped state is removed before the inner loops, the loops exclude accept as source and start as target
    lrip, li, lj = sorted(loops, key=lambda l: l.lineno)[:3]
    facts = {
        'rip range excludes start and accept': all(x in u(lrip.iter) for x in ('q_start', 'q_accept')) and '-' in u(lrip.iter),
        'source range excludes accept': 'q_accept' in u(li.iter) and '-' in u(li.iter),
        'target range excludes start': 'q_start' in u(lj.iter) and '-' in u(lj.iter),
    }
    removes = [n for n in lrip.body if isinstance(n, ast.Expr) and isinstance(n.value, ast.Call) and isinstance(n.value.func, ast.Attribute) and n.value.func.attr in ('remove', 'discard') and u(n.value.args[0]) == rip]
    facts['ripped state removed from Q before the inner loops'] = bool(removes) and lrip.body.index(removes[0]) < lrip.body.index(li)
    for what, okf in facts.items():
        if okf:
            rep.holds(rule, f, what, what, nontrivial=False)
        else:
            rep.violates(rule, f, what, 'state elimination: {} does not hold'.format(what))


def check_gnfa_edges(ctx, rep, f, rule='R-MODEL.M4'):
    """dfa_to_gnfa: parallel DFA edges are summed, not overwritten; start -> q0 and F -> accept carry One"""
    fx = ctx.facts(f)
    loops = [n for n in walk_no_nested(f.node) if isinstance(n, ast.For) and isinstance(n.iter, ast.Call) and isinstance(n.iter.func, ast.Attribute) and n.iter.func.attr == 'items']
    if len(loops) != 1:
        rep.undecided(rule, f, 'def ' + f.name, 'edge loop not found')
        return
    lp = loops[0]
    stores = [s for s in ast.walk(lp) if isinstance(s, ast.Assign) and isinstance(s.targets[0], ast.Subscript)]
    summed = False
    plain_guarded = True
    for s in stores:
        v = s.value
        key = u(s.targets[0])
        atoms = fx.guard_atoms(fx.cfg.n_of(s))
        present = [a for a in atoms if a[0] == 'in' and a[2] == u(s.targets[0].value)]
        if isinstance(v, ast.Call) and ctx.callee_name(f, v) in ('Sum', 'regexp.Sum') or (isinstance(v, ast.Call) and isinstance(v.func, ast.Attribute) and v.func.attr == 'Sum'):
            if any(u(a) == key for a in v.args) and present and present[0][3] is True:
                summed = True
        else:
            if not (present and present[0][3] is False):
                plain_guarded = False
    if summed and plain_guarded:
        rep.holds(rule, f, lp, 'a second DFA edge between the same states is added to the existing label with Sum; a plain store happens only when no label exists yet')
    else:
        rep.violates(rule, f, lp, 'parallel DFA edges between the same pair of states must be summed (existing label + new symbol); here a label can be overwritten')


# ---- matcher / enumerator split facts ----------------------------------------------------------------------------------------

def _branch_for(ctx, f, K):
    for st in f.node.body:
        if isinstance(st, ast.If):
            for (t, body) in _if_chain(st):
                if t is None:
                    continue
                for var, classes in _isinstance_classes(ctx, f, t):
                    if any(c == K for c, _ in classes):
                        return t, body
    return None, None


def _comprehension_with_calls(body, fname):
    for b in body:
        for n in ast.walk(b):
            if isinstance(n, (ast.GeneratorExp, ast.ListComp, ast.SetComp)) and len(n.generators) == 1:
                calls = [c for c in ast.walk(n.elt) if isinstance(c, ast.Call) and isinstance(c.func, ast.Name) and c.func.id == fname]
                if len(calls) == 2:
                    return n, calls
    return None, None


def check_matcher(ctx, rep, f, rule='R-MODEL.M3m'):
    """regexp_accepts_word: concatenation splits k in [0,|w|], star takes a non-empty prefix k in [1,|w|] and recurses on the
    same star node, base cases |w| = 0 / w = symbol"""
    w = f.pos_params[1].arg
    r = f.pos_params[0].arg
    for K, lo_want, second_want in (('Concat', 0, 'right'), ('Iteration', 1, 'self')):
        t, body = _branch_for(ctx, f, K)
        if body is None:
            rep.violates(rule, f, 'def ' + f.name, 'no branch for {}'.format(K))
            continue
        comp, calls = _comprehension_with_calls(body, f.name)
        if comp is None:
            rep.undecided(rule, f, t, 'split comprehension not recognised')
            continue
        gen = comp.generators[0]
        k = u(gen.target)
        try:
            ok = True
            for n in range(0, 4):
                rng = list(abseval.ev(gen.iter, {'len({})'.format(w): n}))
                want = list(range(lo_want, n + 1))
                if rng != want:
                    ok = False
                    rep.violates(rule, f, gen.iter, 'for |w|={} the {} case tries the split points {} but must try {}'.format(n, K, rng, want))
                    break
        except Unsupported as e:
            rep.undecided(rule, f, gen.iter, 'range outside the fragment: {}'.format(e))
            continue
        # the two calls: (first child, w[:k]) and (second, w[k:])
        c1, c2 = sorted(calls, key=lambda c: c.col_offset)
        a1 = (u(c1.args[0]), u(c1.args[1]).replace(' ', ''))
        a2 = (u(c2.args[0]), u(c2.args[1]).replace(' ', ''))
        first = '{}.left'.format(r) if K == 'Concat' else '{}.operand'.format(r)
        second = '{}.right'.format(r) if K == 'Concat' else r
        want1 = (first, '{}[:{}]'.format(w, k))
        want2 = (second, '{}[{}:]'.format(w, k))
        conj = isinstance(comp.elt, ast.BoolOp) and isinstance(comp.elt.op, ast.And)
        if a1 == want1 and a2 == want2 and conj and ok:
            rep.holds(rule, f, comp, '{}: some split k in [{},|w|] with the prefix matched by {} and the suffix by {}'.format(K, lo_want, first, second))
        elif ok:
            rep.violates(rule, f, comp, '{}: the split must match ({} on {}[:{}]) and ({} on {}[{}:]); found {} and {}'.format(K, first, w, k, second, w, k, a1, a2))
    # base cases
    for K, want in (('Zero', 'False'), ('One', 'len({}) == 0'.format(w)), ('Symbol', '{} == {}.symbol'.format(w, r))):
        t, body = _branch_for(ctx, f, K)
        if body is None:
            rep.violates(rule, f, 'def ' + f.name, 'no branch for {}'.format(K))
            continue
        vals = [u(s.value).strip('()') for s in body if isinstance(s, ast.Assign)] + [u(s.value).strip('()') for s in body if isinstance(s, ast.Return) and s.value is not None]
        alts = {want, '{}.symbol == {}'.format(r, w), 'not {}'.format(w), "{} == ''".format(w)} if K != 'Zero' else {want}
        if any(v in alts for v in vals):
            rep.holds(rule, f, t, 'base case {}: {}'.format(K, want), nontrivial=False)
        else:
            rep.violates(rule, f, t, 'base case {} must be `{}`; found {}'.format(K, want, vals))
    # star accepts the empty word
    t, body = _branch_for(ctx, f, 'Iteration')
    if body is not None:
        fx = ctx.facts(f)
        trues = [s for b in body for s in ast.walk(b) if isinstance(s, ast.Assign) and isinstance(s.value, ast.Constant) and s.value.value is True]
        if trues and any(a[0] == 'empty' and a[1] == w and a[3] is True for a in fx.guard_atoms(fx.cfg.n_of(trues[0]))):
            rep.holds(rule, f, trues[0], 'star accepts the empty word')
        else:
            rep.violates(rule, f, t, 'the star case must accept the empty word (`if len(w) == 0: True`)')
    # sum is a disjunction of both children on the whole word
    t, body = _branch_for(ctx, f, 'Sum')
    if body is not None:
        v = [s.value for s in body if isinstance(s, (ast.Assign, ast.Return)) and s.value is not None]
        okk = False
        if v and isinstance(v[0], ast.BoolOp) and isinstance(v[0].op, ast.Or) and len(v[0].values) == 2:
            sig = sorted((u(c.args[0]), u(c.args[1])) for c in v[0].values if isinstance(c, ast.Call))
            okk = sig == sorted([('{}.left'.format(r), w), ('{}.right'.format(r), w)])
        if okk:
            rep.holds(rule, f, t, 'sum: left or right on the whole word')
        else:
            rep.violates(rule, f, t, 'the sum case must be `match(left, w) or match(right, w)`')
