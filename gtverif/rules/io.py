"""R-IO -- writer/reader agreement (printers vs parsers, formats vs regular expressions, grammars vs generated
parsers)."""
import ast
import re

from .. import relang
from ..astutil import u, names_in, walk_no_nested, atoms_of, const_str
from ..model import norm, AnalysisError
from .models import single_def, resolve_alias

RULE = 'R-IO'
KINDS = {'dfa': 'dfa_algorithms', 'nfa': 'nfa_algorithms', 'pda': 'pda_algorithms', 'tm': 'tm_algorithms'}
BASE_KEYWORDS = {'states', 'initial', 'final'}


def _returned_const(ctx, f):
    """string / frozenset literal returned by a tiny function"""
    rets = [r for r in walk_no_nested(f.node) if isinstance(r, ast.Return)]
    if len(rets) != 1:
        return None
    return rets[0].value


def keyword_set(ctx, name):
    f = ctx.prog.func('automaton_algorithms.' + name)
    v = _returned_const(ctx, f)
    if isinstance(v, ast.Call) and isinstance(v.func, ast.Name) and v.func.id == 'frozenset' and v.args and isinstance(v.args[0], (ast.List, ast.Set, ast.Tuple)):
        return {e.value for e in v.args[0].elts if isinstance(e, ast.Constant)}
    if isinstance(v, ast.BinOp):
        out = set()
        for c in ast.walk(v):
            if isinstance(c, ast.Call) and isinstance(c.func, ast.Name) and c.func.id.endswith('_keywords'):
                out |= keyword_set(ctx, c.func.id)
        return out
    raise AnalysisError('keyword set {} not recognised'.format(name))


def printed_keywords(ctx, f):
    """first words of the lines written by out.write('<kw> ...')"""
    out = []
    for c in walk_no_nested(f.node):
        if isinstance(c, ast.Call) and isinstance(c.func, ast.Attribute) and c.func.attr == 'write' and c.args:
            a = c.args[0]
            fmt = None
            if isinstance(a, ast.Call) and isinstance(a.func, ast.Attribute) and a.func.attr == 'format' and isinstance(a.func.value, ast.Constant):
                fmt = a.func.value.value
            elif isinstance(a, ast.Constant):
                fmt = a.value
            if fmt is None:
                continue
            first = fmt.split(' ')[0].split('{')[0].strip()
            if first:
                out.append((first, c))
    return out


def check_keywords(ctx, rep, rule=RULE + '.a'):
    n = 0
    for kind, mod in KINDS.items():
        pf = ctx.prog.func('{}.print_{}'.format(mod, kind))
        parse = ctx.prog.func('{}.parse_{}'.format(mod, kind))
        # keyword set handed to AutomatonParser by parse_<kind>
        kws = None
        ctor_sites = [(parse, c) for c in ctx.prog.calls_in(parse)]
        # the parser object may be created by a helper the entry point delegates to (parse_automaton)
        for c0 in ctx.prog.calls_in(parse):
            r0 = ctx.resolve_call(parse, c0)
            if r0 is not None and r0.kind == 'func' and r0.target.cls is None and r0.target.name.startswith('parse_'):
                ctor_sites += [(r0.target, c1) for c1 in ctx.prog.calls_in(r0.target)]
        for (owner, c) in ctor_sites:
            if ctx.callee_name(owner, c) == 'AutomatonParser':
                for k in c.keywords:
                    if k.arg == 'keywords' and isinstance(k.value, ast.Call) and isinstance(k.value.func, ast.Name):
                        kws = keyword_set(ctx, k.value.func.id)
                if kws is None:
                    kws = keyword_set(ctx, 'automaton_keywords')
        if kws is None:
            rep.undecided(rule, parse, 'def ' + parse.name, 'AutomatonParser call not found')
            continue
        for (kw, c) in printed_keywords(ctx, pf):
            n += 1
            if kw in BASE_KEYWORDS or kw in kws:
                rep.holds(rule, pf, c, "printed keyword '{}' is read back by parse_{}".format(kw, kind))
            else:
                rep.violates(rule, pf, c, "print_{} writes the keyword '{}' which parse_{} does not know ({}): the line is read as a transition".format(kind, kw, kind, sorted(kws | BASE_KEYWORDS)))
        # keys the builder reads are keywords of that kind
        bcls = [c for c in ctx.prog.classes.values() if c.name == kind.upper() + 'Builder']
        if bcls:
            build = bcls[0].methods['build']
            for c in ctx.prog.calls_in(build):
                nm = ctx.callee_name(build, c)
                kw0 = [k0.value for k0 in c.keywords if k0.arg == 'key' and isinstance(k0.value, ast.Constant)]
                if nm in ('get_symbol_set', 'get_state', 'get_symbol', 'parse_symbol') and ((c.args and isinstance(c.args[0], ast.Constant)) or kw0):
                    n += 1
                    k = c.args[0].value if c.args else kw0[0].value
                    if k in kws:
                        rep.holds(rule, build, c, "the builder reads '{}', a keyword of this kind".format(k), nontrivial=False)
                    else:
                        rep.violates(rule, build, c, "the builder reads the key '{}' which the parser never stores for this kind of automaton".format(k))
                elif nm == 'parse_symbol' and not c.args:
                    if 'epsilon' not in kws:
                        rep.violates(rule, build, c, "the builder reads 'epsilon' which is not a keyword of this kind")
        # every word the parser of this kind reserves has a consumer in the builder of this kind: a reserved word nobody
        # reads turns a transition line that starts with a state of that name into a silently swallowed declaration
        if bcls:
            consumed = set()
            for c in ctx.prog.calls_in(build):
                nm = ctx.callee_name(build, c)
                if nm in ('get_symbol_set', 'get_state', 'get_symbol', 'parse_symbol'):
                    kwkey = [k.value for k in c.keywords if k.arg == 'key' and isinstance(k.value, ast.Constant)]
                    if c.args and isinstance(c.args[0], ast.Constant):
                        consumed.add(c.args[0].value)
                    elif kwkey:
                        consumed.add(kwkey[0].value)
                    elif not c.args and nm == 'parse_symbol':
                        r = ctx.resolve_call(build, c)
                        d = r.target.defaults.get('key') if r is not None and r.kind == 'func' else None
                        if isinstance(d, ast.Constant):
                            consumed.add(d.value)
            site = [c for (owner, c) in ctor_sites if ctx.callee_name(owner, c) == 'AutomatonParser'][0]
            for kw in sorted(kws):
                n += 1
                if kw in consumed:
                    rep.holds(rule, parse, "reserved word '{}'".format(kw), "the reserved word '{}' of parse_{} is consumed by {}Builder.build".format(kw, kind, kind.upper()), nontrivial=False)
                else:
                    rep.violates(rule, parse, site, "parse_{0} reserves the word '{1}' (keyword set {2}) but {3}Builder never reads it: a transition line of a {3} whose source state is called '{1}' is swallowed as a declaration, so a well-formed description is rejected or misread and print/parse does not round-trip".format(kind, kw, sorted(kws), kind.upper()))
    return n


def check_label_layout(ctx, rep, kind, rule=RULE + '.b'):
    """the character roles produced by the printer's label format equal the roles the builder's unpack pattern stores"""
    mod = KINDS[kind]
    pf = ctx.prog.func('{}.print_{}'.format(mod, kind))
    bcls = [c for c in ctx.prog.classes.values() if c.name == kind.upper() + 'Builder'][0]
    build = bcls.methods['build']
    # printer: transitions[...].append('<fmt>'.format(x, y, z))
    fmt = None
    for c in walk_no_nested(pf.node):
        if isinstance(c, ast.Call) and isinstance(c.func, ast.Attribute) and c.func.attr == 'append' and c.args and isinstance(c.args[0], ast.Call) \
                and isinstance(c.args[0].func, ast.Attribute) and c.args[0].func.attr == 'format' and isinstance(c.args[0].func.value, ast.Constant):
            fmt = c.args[0]
    if fmt is None:
        rep.undecided(rule, pf, 'def ' + pf.name, 'label format not found')
        return
    fs = fmt.func.value.value
    fargs = [u(a) for a in fmt.args]
    # positions: each {} is one character (single-character symbols)
    layout = []
    i = 0
    k = 0
    while i < len(fs):
        if fs.startswith('{}', i):
            layout.append(('field', fargs[k] if k < len(fargs) else '?'))
            k += 1
            i += 2
        else:
            layout.append(('lit', fs[i]))
            i += 1
    # roles of the printed names in the delta entry: loop target patterns
    role = {}
    for n in walk_no_nested(pf.node):
        if isinstance(n, ast.For) and isinstance(n.iter, ast.Call) and isinstance(n.iter.func, ast.Attribute) and n.iter.func.attr == 'items' and u(n.iter.func.value).endswith('delta'):
            t = n.target
            if isinstance(t, ast.Tuple) and len(t.elts) == 2:
                for j, x in enumerate(t.elts[0].elts if isinstance(t.elts[0], ast.Tuple) else []):
                    role[u(x)] = ('key', j)
                if isinstance(t.elts[1], ast.Tuple):
                    for j, x in enumerate(t.elts[1].elts):
                        role[u(x)] = ('val', j)
        if isinstance(n, ast.For) and isinstance(n.target, ast.Tuple) and not (isinstance(n.iter, ast.Call)):
            for j, x in enumerate(n.target.elts):
                role.setdefault(u(x), ('val', j))
    # builder: a, _, u, v = label ; delta[p, a, u].add((q, v)) / delta[p, a] = (q, b, d)
    unpack = None
    for n in walk_no_nested(build.node):
        if isinstance(n, ast.Assign) and isinstance(n.targets[0], ast.Tuple) and u(n.value) == 'label':
            unpack = [u(x) for x in n.targets[0].elts]
    if unpack is None:
        rep.undecided(rule, build, 'def build', 'label unpack not found')
        return
    brole = {}
    for n in walk_no_nested(build.node):
        key = val = None
        if isinstance(n, ast.Assign) and isinstance(n.targets[0], ast.Subscript) and u(n.targets[0].value) == 'delta':
            key, val = n.targets[0].slice, n.value
        if isinstance(n, ast.Call) and isinstance(n.func, ast.Attribute) and n.func.attr == 'add' and isinstance(n.func.value, ast.Subscript) and u(n.func.value.value) == 'delta':
            key, val = n.func.value.slice, n.args[0]
        if key is not None:
            def bare(x):
                # State(p) / Symbol(a) / Direction(d) are identity wrappers (NewTypes)
                while isinstance(x, ast.Call) and isinstance(x.func, ast.Name) and x.func.id in ('State', 'Symbol', 'Direction') and len(x.args) == 1:
                    x = x.args[0]
                return u(x)
            if isinstance(key, ast.Name):
                key = resolve_alias(build, key)
            if isinstance(val, ast.Name):
                val = resolve_alias(build, val)
            for j, x in enumerate(key.elts if isinstance(key, ast.Tuple) else [key]):
                brole[bare(x)] = ('key', j)
            if isinstance(val, ast.Tuple):
                for j, x in enumerate(val.elts):
                    brole[bare(x)] = ('val', j)
    if len(unpack) != len(layout):
        rep.violates(rule, build, 'unpack of label', 'the label written by print_{} has {} characters but the builder unpacks {}'.format(kind, len(layout), len(unpack)))
        return
    ok = True
    for pos, ((lk, lv), target) in enumerate(zip(layout, unpack)):
        if lk == 'lit':
            if target != '_':
                ok = False
                rep.violates(rule, build, 'unpack of label', "position {} of the label is the separator '{}' but the builder stores it as {}".format(pos, lv, target))
            continue
        pr = role.get(lv)
        br = brole.get(target)
        if pr is None or br is None or pr != br:
            ok = False
            rep.violates(rule, build, 'unpack of label', 'position {} of the label is written from {} ({}) but read into {} ({})'.format(
                pos, lv, '{} component {}'.format(*pr) if pr else 'unknown role', target, '{} component {}'.format(*br) if br else 'unknown role'))
    if ok:
        rep.holds(rule, build, 'unpack of label', "label layout '{}' of print_{} and unpack pattern ({}) agree position by position on the transition components".format(fs, kind, ', '.join(unpack)))
    # fixed length enforced by the transition regex equals the unpack arity
    rx = ctx.prog.func('{}.{}_transition_transition_regex'.format(mod, kind))
    pattern = _eval_regex_fn(rx)
    if pattern is None:
        rep.undecided(rule, rx, 'def ' + rx.name, 'regex not recognised')
        return
    lens = _match_lengths(pattern)
    if lens == {len(unpack)}:
        rep.holds(rule, rx, 'return', 'the transition regex {} admits only labels of length {} = unpack arity'.format(pattern, len(unpack)))
    else:
        rep.violates(rule, rx, 'return', 'the transition regex {} admits labels of length {} but the builder unpacks exactly {} characters'.format(pattern, sorted(lens)[:4], len(unpack)))
    # the separator position of the regex is the separator the printer writes
    comp_fmt = fs
    for a in fargs:
        comp_fmt = comp_fmt.replace('{}', '\x00R' if a == 'd' else '\x00S', 1)
    wr = ''.join(re.escape(ch) if ch not in '\x00' else '' for ch in comp_fmt)
    wr = ''
    i = 0
    while i < len(comp_fmt):
        if comp_fmt[i] == '\x00':
            wr += '[LR]' if comp_fmt[i + 1] == 'R' else '[a-z]'
            i += 2
        else:
            wr += re.escape(comp_fmt[i])
            i += 1
    ok_lit, w = relang.included(wr, pattern)
    if ok_lit:
        rep.holds(rule, rx, 'separator', 'labels written by the printer (single letters as symbols) match the transition regex')
    else:
        rep.violates(rule, rx, 'separator', "a label written by print_{} such as '{}' is rejected by the transition regex {}".format(kind, w, pattern))


def _eval_regex_fn(f):
    """pattern string returned by a regex helper of the form s = r'..'; return r'..{0}..'.format(s)"""
    env = {}
    for n in walk_no_nested(f.node):
        if isinstance(n, ast.Assign) and isinstance(n.targets[0], ast.Name) and isinstance(n.value, ast.Constant) and isinstance(n.value.value, str):
            env[n.targets[0].id] = n.value.value
    for r in walk_no_nested(f.node):
        if isinstance(r, ast.Return):
            v = r.value
            if isinstance(v, ast.Constant) and isinstance(v.value, str):
                return v.value
            if isinstance(v, ast.Call) and isinstance(v.func, ast.Attribute) and v.func.attr == 'format' and isinstance(v.func.value, ast.Constant):
                args = []
                for a in v.args:
                    if isinstance(a, ast.Name) and a.id in env:
                        args.append(env[a.id])
                    elif isinstance(a, ast.Constant):
                        args.append(a.value)
                    else:
                        return None
                try:
                    return v.func.value.value.format(*args)
                except (IndexError, KeyError):
                    return None
    return None


def _match_lengths(pattern, limit=8):
    """set of lengths of words matched (full match) by the pattern, up to limit; limit+1 stands for longer"""
    relang.set_alphabet(pattern)
    nfa, s, fin = relang.compile_regex(pattern)
    cur = {nfa.closure({s})}
    lens = set()
    for n in range(limit + 2):
        if any(X & fin for X in cur):
            lens.add(n)
        nxt = set()
        for X in cur:
            for c in relang.ALPHABET:
                Y = set()
                for x in X:
                    Y |= nfa.tr.get((x, c), set())
                if Y:
                    nxt.add(nfa.closure(Y))
        cur = nxt
        if not cur:
            break
    return lens


# ---- (c) state-name formats ---------------------------------------------------------------------------------------

def _format_language(ctx, f):
    """regular expression for the names a formatting function can return (components match \\w+); understands
    '<fmt>'.format(..), f-strings, concatenation with +, '<sep>'.join(..) components and constants"""
    def comp(a):
        a = resolve_alias(f, a) if isinstance(a, ast.Name) else a
        if isinstance(a, ast.Call) and isinstance(a.func, ast.Attribute) and a.func.attr == 'join' and isinstance(a.func.value, ast.Constant):
            sep = re.escape(a.func.value.value)
            return r'\w+(?:' + sep + r'\w+)*'
        if isinstance(a, ast.Constant) and isinstance(a.value, str):
            return re.escape(a.value)
        return r'\w+'

    def lang(v):
        v = resolve_alias(f, v) if isinstance(v, ast.Name) else v
        if isinstance(v, ast.Call) and isinstance(v.func, ast.Name) and v.func.id in ('State', 'Symbol', 'str') and len(v.args) == 1:
            return lang(v.args[0])
        if isinstance(v, ast.Constant) and isinstance(v.value, str):
            return re.escape(v.value)
        if isinstance(v, ast.BinOp) and isinstance(v.op, ast.Add):
            a, b = lang(v.left), lang(v.right)
            return None if a is None or b is None else a + b
        if isinstance(v, ast.JoinedStr):
            out = ''
            for part in v.values:
                if isinstance(part, ast.Constant):
                    out += re.escape(part.value)
                else:
                    out += '(?:' + comp(part.value) + ')'
            return out
        if isinstance(v, ast.Call) and isinstance(v.func, ast.Attribute) and v.func.attr == 'join' and isinstance(v.func.value, ast.Constant):
            return '(?:' + comp(v) + ')'
        if isinstance(v, ast.Call) and isinstance(v.func, ast.Attribute) and v.func.attr == 'format' and isinstance(v.func.value, ast.Constant):
            comps = [comp(a) for a in v.args]
            fmt = v.func.value.value
            out = ''
            i = 0
            k = 0
            while i < len(fmt):
                if fmt.startswith('{{', i):
                    out += re.escape('{')
                    i += 2
                elif fmt.startswith('}}', i):
                    out += re.escape('}')
                    i += 2
                elif fmt.startswith('{}', i):
                    out += '(?:' + (comps[k] if k < len(comps) else r'\w+') + ')'
                    k += 1
                    i += 2
                else:
                    out += re.escape(fmt[i])
                    i += 1
            return out
        return None

    alts = []
    for r in walk_no_nested(f.node):
        if not isinstance(r, ast.Return) or r.value is None:
            continue
        a = lang(r.value)
        if a is None:
            return None
        alts.append(a)
    if not alts:
        return None
    return '|'.join('(?:' + a + ')' for a in alts)


def check_state_formats(ctx, rep, chains, rule=RULE + '.c'):
    """chains: [(writer spec, checker spec, answer parameter)] -- the names the writer produces are accepted by the state
    regex the checker's parser is given"""
    n = 0
    for (wspec, cspec, param) in chains:
        w = ctx.prog.func(wspec)
        c = ctx.prog.func(cspec)
        lang = _format_language(ctx, w)
        if lang is None:
            rep.undecided(rule, w, 'def ' + w.name, 'name format not recognised')
            continue
        # the parse call of the answer parameter
        rx = None
        site = None
        for call in ctx.prog.calls_in(c):
            nm = ctx.callee_name(c, call)
            if nm in ('parse_dfa', 'parse_nfa', 'parse_automaton') and call.args and u(call.args[0]) == param:
                site = call
                rx = r'\w+'
                for k in call.keywords:
                    if k.arg == 'state_regex':
                        r = ctx.prog.resolve_expr(c, c.module, k.value.func) if isinstance(k.value, ast.Call) else None
                        rx = _eval_regex_fn(r.target) if r is not None and r.kind == 'func' else None
        if site is None or rx is None:
            rep.undecided(rule, c, 'def ' + c.name, 'parse call of the answer {} not recognised'.format(param))
            continue
        n += 1
        ok, wit = relang.included(lang, rx)
        if ok:
            rep.holds(rule, c, site, 'state names produced by {} ({}) are accepted by the state regex {}'.format(w.name, lang, rx))
        else:
            rep.violates(rule, c, site, "the library's own answer contains the state name '{}' (format of {}), which the state regex {} of this checker rejects: the answer key is refused".format(wit, w.name, rx))
    return n


# ---- (d) regular expressions -----------------------------------------------------------------------------------------

def check_regexp_io(ctx, rep, rule=RULE + '.d'):
    g_full = ctx.prog.grammars.get('regexp')
    g_simple = ctx.prog.grammars.get('regexp_simple')
    if g_full is None or g_simple is None:
        raise AnalysisError('regexp grammars vanished')
    # operator tokens of the printers
    pr = ctx.prog.func('regexp.print_regexp')
    ps = ctx.prog.func('regexp.print_regexp_simple')

    def op_tokens(f):
        toks = set()
        for c in walk_no_nested(f.node):
            s = None
            if isinstance(c, ast.Call) and isinstance(c.func, ast.Attribute) and c.func.attr == 'format' and isinstance(c.func.value, ast.Constant):
                s = c.func.value.value
            if isinstance(c, ast.Return) and isinstance(c.value, ast.Constant) and isinstance(c.value.value, str):
                s = c.value.value
            if s is not None:
                for ch in s.replace('{}', ''):
                    if not ch.isspace():
                        toks.add(ch)
        return toks

    for f, g in ((pr, g_full), (ps, g_simple)):
        lits = g.literals()
        toks = op_tokens(f)
        bad = sorted(t for t in toks if t not in lits)
        if not bad:
            rep.holds(rule, f, 'operator tokens', 'every token written ({}) is a literal of grammar {}'.format(' '.join(sorted(toks)), g.name))
        else:
            rep.violates(rule, f, 'operator tokens', 'the printer writes {} which grammar {} does not define ({})'.format(bad, g.name, sorted(lits)))
    # __str__ of the classes writes ' + ' / ' . ' / '*' (full syntax)
    for cname, tok in (('Sum', '+'), ('Concat', '.'), ('Iteration', '*')):
        cls = ctx.prog.cls('regexp.' + cname)
        st = cls.methods.get('__str__')
        consts = [c.value.strip() for c in ast.walk(st.node) if isinstance(c, ast.Constant) and isinstance(c.value, str)] if st else []
        if tok in consts and tok in g_full.literals():
            rep.holds(rule, st, "'{}'".format(tok), '{}.__str__ writes the token of grammar regexp'.format(cname), nontrivial=False)
        else:
            rep.violates(rule, st if st else 'regexp.py:' + cname, "'{}'".format(tok), '{}.__str__ does not write the operator {} of grammar regexp'.format(cname, tok))
    # precedence order agrees with the order of alternatives
    prec = ctx.prog.func('regexp.precedence')
    order = {}
    from .dispatch import _if_chain, _isinstance_classes
    for st in prec.node.body:
        if isinstance(st, ast.If):
            for (t, body) in _if_chain(st):
                if t is None:
                    continue
                names = [nm for var, ns in _isinstance_classes(ctx, prec, t) for nm, mod in ns]
                val = [r.value.value for b in body for r in ast.walk(b) if isinstance(r, ast.Return) and isinstance(r.value, ast.Constant)]
                for nm in names:
                    if val:
                        order[nm] = val[0]
    label_of = {'Iteration': 'IterationExpression', 'Concat': 'ConcatExpression', 'Sum': 'SumExpression'}
    for g in (g_full, g_simple):
        alts = [lab for (_, lab) in g.rules.get('expression', [])]
        try:
            pos = {k: alts.index(v) for k, v in label_of.items()}
        except ValueError:
            rep.undecided(rule, g.base, 'rule expression', 'labelled alternatives not found')
            continue
        # ANTLR: earlier alternative binds tighter; printer: larger number binds tighter
        ok = all((pos[a] < pos[b]) == (order.get(a, 0) > order.get(b, 0)) for a in label_of for b in label_of if a != b)
        if ok:
            rep.holds(rule, g.base, 'rule expression', 'the order of the operator alternatives ({}) agrees with regexp.precedence'.format(' < '.join(sorted(pos, key=pos.get))))
        else:
            rep.violates(rule, g.base, 'rule expression', 'the order of alternatives in {} (earlier binds tighter) disagrees with regexp.precedence {}: printed expressions re-parse with a different structure'.format(g.base, order))
    # symbol class: DFA symbols (default_symbol_regex) that reach regexp.Symbol via dfa_to_regexp must be IDENTIFIERs of the simple grammar
    sym_rx = _eval_regex_fn(ctx.prog.func('automaton_algorithms.default_symbol_regex'))
    m = re.search(r'IDENTIFIER\s*:\s*(\[[^\]]+\](?:\[[^\]]+\]\*)?)', g_simple.text)
    ident = m.group(1) if m else None
    if sym_rx and ident:
        if sym_rx.endswith('+'):
            sym_rx = sym_rx[:-1]      # symbols are single characters (assumption of the properties)
        ok, wit = relang.included(sym_rx, ident)
        where = ctx.prog.func('regexp_algorithms.dfa_to_gnfa')
        if ok:
            rep.holds(rule, where, 'regexp.Symbol(a)', 'every DFA input symbol ({}) is an IDENTIFIER of the simple grammar ({})'.format(sym_rx, ident))
        else:
            rep.violates(rule, where, 'regexp.Symbol(a)', "a DFA input symbol such as '{}' (allowed by {}) is not an IDENTIFIER {} of regexp_simple.g4: the expression computed by dfa_to_regexp for such a DFA is re-read as a different expression (0 and 1 are the constants Zero and One) and the library's own answer is rejected".format(wit, sym_rx, ident))


# ---- (e) CFG -------------------------------------------------------------------------------------------------------------

def check_cfg_io(ctx, rep, rule=RULE + '.e'):
    pf = ctx.prog.func('cfg_algorithms.cfg_print_simple')
    helper = pf.nested.get('print_alternative')
    if helper is None:
        # the helper that renders one alternative, whatever its name: a nested function that joins `<x>.symbols`
        for h0 in pf.nested.values():
            if any(isinstance(c, ast.Call) and isinstance(c.func, ast.Attribute) and c.func.attr == 'join' and c.args and u(c.args[0]).endswith('.symbols') for c in ast.walk(h0.node)):
                helper = h0
    eps_written = None
    sep = None
    class _R:       # a returned value together with the node to report
        def __init__(self, value, node):
            self.value, self.node = value, node
    if helper is not None:
        fx = ctx.facts(helper)
        for r in walk_no_nested(helper.node):
            if isinstance(r, ast.Return):
                atoms = fx.guard_atoms(fx.cfg.n_of(r))
                v = r.value
                # conditional expression form:  X if a.symbols else 'eps'
                if isinstance(v, ast.IfExp) and any(a[0] == 'truthy' and a[1].endswith('symbols') for a in atoms_of(v.test, True)):
                    pos = [a for a in atoms_of(v.test, True) if a[0] == 'truthy' and a[1].endswith('symbols')][0][3]
                    empty_branch, full_branch = (v.orelse, v.body) if pos else (v.body, v.orelse)
                    eps_written = _R(empty_branch, r)
                    if isinstance(full_branch, ast.Call) and isinstance(full_branch.func, ast.Attribute) and full_branch.func.attr == 'join':
                        sep = const_str(full_branch.func.value)
                    continue
                if any(a[0] == 'truthy' and a[3] is False and a[1].endswith('symbols') for a in atoms):
                    eps_written = _R(r.value, r)
                elif isinstance(r.value, ast.Call) and isinstance(r.value.func, ast.Attribute) and r.value.func.attr == 'join':
                    sep = const_str(r.value.func.value)
    if eps_written is None:
        rep.undecided(rule, pf, 'def ' + pf.name, 'epsilon spelling not found')
    else:
        v = eps_written.value
        eps_written = eps_written.node
        parser = ctx.prog.func('cfg_algorithms.SimpleCFGParser.parse_epsilon')
        # spellings the parser infers without a declaration: 'ε' if it occurs, else '_'
        inferred = {c.value for c in ast.walk(parser.node) if isinstance(c, ast.Constant) and isinstance(c.value, str) and c.value in ('ε', '_')}
        declares = any(isinstance(c, ast.Constant) and isinstance(c.value, str) and 'epsilon' in c.value for c in ast.walk(pf.node))
        if isinstance(v, ast.Constant) and v.value == 'ε' and 'ε' in inferred:
            rep.holds(rule, helper, eps_written, "an empty alternative is printed as 'ε', the spelling parse_simple_cfg infers when no declaration is present")
        elif isinstance(v, ast.Constant) and v.value in inferred and v.value == '_':
            rep.holds(rule, helper, eps_written, "an empty alternative is printed as '_', the default of parse_simple_cfg")
        elif declares:
            rep.undecided(rule, helper, eps_written, 'the printer emits an epsilon declaration; spelling not decided')
        else:
            rep.violates(rule, helper, eps_written, "an empty alternative is printed as {} but the printed text carries no `epsilon = ...` declaration: parse_simple_cfg only infers 'ε' or '_', so any other epsilon symbol is re-read as an ordinary terminal".format(u(v)))
    if sep == '':
        rep.holds(rule, pf, "''.join(a.symbols)", 'symbols of an alternative are written without separator, as the simple parser reads them character by character', nontrivial=False)
    elif sep is not None:
        rep.violates(rule, pf, "join", "symbols are joined with '{}' but the simple parser reads one symbol per character".format(sep))
    # rule separators accepted by the rule regex
    fmts = [c.func.value.value for c in ast.walk(pf.node) if isinstance(c, ast.Call) and isinstance(c.func, ast.Attribute) and c.func.attr in ('format', 'join') and isinstance(c.func.value, ast.Constant)]
    arrow = [s for s in fmts if '->' in s]
    bar = [s for s in fmts if '|' in s]
    if arrow and bar:
        rep.holds(rule, pf, 'rule layout', "rules are written as 'X -> a | b', the layout of SimpleCFGParser.rule_regex")
    else:
        rep.violates(rule, pf, 'rule layout', "rules must be written with '->' and '|' (found formats {})".format(fmts))


# ---- (f) generated parsers ---------------------------------------------------------------------------------------------------

def check_generated(ctx, rep, rule=RULE + '.f'):
    n = 0
    for gname, g in sorted(ctx.prog.grammars.items()):
        src = ctx.prog.generated_sources.get(gname + 'Parser')
        if src is None:
            rep.violates(rule, g.base, 'generated parser', 'no generated parser {}Parser.py for grammar {}'.format(gname, gname))
            continue
        n += 1
        m = re.search(r'literalNames\s*=\s*\[(.*?)\]', src, flags=re.S)
        lits = set(re.findall(r'"\'((?:[^\'\\]|\\.)+)\'"', m.group(1))) if m else set()
        want = g.parser_literals()
        if lits == want:
            rep.holds(rule, g.base, 'literalNames', 'token literals of the generated parser equal those of the grammar ({})'.format(' '.join(sorted(want))))
        else:
            rep.violates(rule, g.base, 'literalNames', 'the generated parser was built from a different grammar: literals {} vs {}'.format(sorted(lits), sorted(want)))
        m = re.search(r'ruleNames\s*=\s*\[(.*?)\]', src, flags=re.S)
        rules = re.findall(r'"(\w+)"', m.group(1)) if m else []
        want_rules = [r for r in g.rules if r[0].islower()]
        if sorted(rules) == sorted(want_rules):
            rep.holds(rule, g.base, 'ruleNames', 'parser rules of the generated parser equal those of the grammar', nontrivial=False)
        else:
            rep.violates(rule, g.base, 'ruleNames', 'parser rules differ: generated {} vs grammar {}'.format(rules, want_rules))
        # every labelled alternative has a visit method in the hand-written visitor
        labels = [lab for alts in g.rules.values() for (_, lab) in alts if lab]
        vis_mod = {'regexp': 'regexp_parser', 'regexp_simple': 'regexp_simple_parser', 'CFG': 'cfg_parser'}.get(gname)
        if labels and vis_mod:
            mod = ctx.prog.module(vis_mod)
            methods = {f.name for f in ctx.prog.functions.values() if f.module is mod and f.cls is not None}
            missing = [l for l in labels if 'visit' + l not in methods]
            if missing:
                rep.violates(rule, mod.base, 'visitor', 'the visitor has no method for the alternative(s) {}'.format(missing))
            else:
                rep.holds(rule, mod.base, 'visitor', 'every labelled alternative of {} has a visit method'.format(g.base))
    return n


def check_paren_independence(ctx, rep, rule=RULE + '.d'):
    """precedence-aware printers: whether one operand is parenthesised must depend on that operand only.  Each wrap
    `xk = '({})'.format(xk)` is guarded by its own flag and by nothing derived from the other operand."""
    n = 0
    for spec in ('regexp.print_regexp_simple', 'regexp.print_binary_operation'):
        f = ctx.prog.func(spec)
        fx = ctx.facts(f)
        wraps = []
        for st in walk_no_nested(f.node):
            if isinstance(st, ast.Assign) and len(st.targets) == 1 and isinstance(st.targets[0], ast.Name) and isinstance(st.value, ast.Call) \
                    and isinstance(st.value.func, ast.Attribute) and st.value.func.attr == 'format' and isinstance(st.value.func.value, ast.Constant) \
                    and st.value.func.value.value == '({})' and st.value.args and u(st.value.args[0]) == st.targets[0].id:
                wraps.append(st)
        # flags: n1, n2 = needs_parentheses_binary(x)
        flags = {}
        for st in walk_no_nested(f.node):
            if isinstance(st, ast.Assign) and isinstance(st.targets[0], ast.Tuple) and len(st.targets[0].elts) == 2 and isinstance(st.value, ast.Call):
                a, b = (u(x) for x in st.targets[0].elts)
                flags[a] = 0
                flags[b] = 1
        # the wrap may live in a local helper:  def parenthesize(text, needed): return '({})'.format(text) if needed else text
        for h in f.nested.values():
            ps = [p_ for p_ in h.params]
            if len(ps) != 2:
                continue
            wraps_text = any(isinstance(c, ast.Call) and isinstance(c.func, ast.Attribute) and c.func.attr == 'format' and isinstance(c.func.value, ast.Constant)
                             and c.func.value.value == '({})' and c.args and u(c.args[0]) == ps[0] for c in ast.walk(h.node))
            cond_on_flag = any(isinstance(t, (ast.IfExp, ast.If)) and u(t.test) == ps[1] for t in ast.walk(h.node))
            if not (wraps_text and cond_on_flag):
                continue
            for c in walk_no_nested(f.node):
                if isinstance(c, ast.Call) and isinstance(c.func, ast.Name) and c.func.id == h.name and len(c.args) == 2:
                    n += 1
                    fl = names_in(c.args[1]) & set(flags)
                    if isinstance(c.args[1], ast.Name) and len(fl) == 1:
                        rep.holds(rule, f, c, 'the operand {} is parenthesised under its own flag {} only (through {})'.format(u(c.args[0])[:40], u(c.args[1]), h.name))
                    elif len(fl) > 1:
                        rep.violates(rule, f, c, 'the parenthesisation of one operand depends on the flags {} of both operands'.format(sorted(fl)))
                    elif isinstance(c.args[1], ast.Name) or isinstance(c.args[1], ast.Call):
                        rep.holds(rule, f, c, 'the operand is parenthesised under the single condition {}'.format(u(c.args[1])), nontrivial=False)
                    else:
                        rep.undecided(rule, f, c, 'flag expression not recognised')
        by_branch = {}
        for w in wraps:
            n += 1
            atoms = [a for a in fx.guard_atoms(fx.cfg.n_of(w)) if a[0] == 'truthy' and a[1] in flags]
            own = [a for a in atoms if a[3] is True]
            foreign = [a for a in atoms if a[3] is False]
            if len(own) == 1 and not foreign:
                rep.holds(rule, f, w, 'operand {} is parenthesised under its own flag {} only'.format(w.targets[0].id, own[0][1]))
            elif foreign:
                rep.violates(rule, f, w, 'operand {} is parenthesised only when the flag {} of the other operand is false: when both operands need parentheses one of them is printed without, and the text re-parses as a different expression'.format(w.targets[0].id, foreign[0][1]))
            else:
                rep.undecided(rule, f, w, 'guard of the parenthesisation not recognised')
    return n


def check_line_delimiters(ctx, rep, rule=RULE + '.g'):
    """a character at which the line reader cuts a line (split / partition / find with a literal argument) must not be a
    character that a state name, a symbol or a transition label may contain; the comment test looks at the first word
    only, and no state name may start with the comment character"""
    f = ctx.prog.func('automaton_algorithms.AutomatonParser.parse_line')
    patterns = {}
    for g in ctx.prog.functions.values():
        if g.parent is None and g.name.endswith('_regex') and not g.module.name.startswith('template:') and not g.pos_params:
            p = _eval_regex_fn(g)
            if p is not None:
                patterns[g.short] = p
    if len(patterns) < 5:
        raise AnalysisError('fewer than 5 label regular expressions found')
    n = 0
    methods = [f]
    if f.cls is not None:
        # the other methods of the reader that see raw text (parse: the loop over the lines)
        methods += [m for k, m in sorted(f.cls.methods.items()) if m is not f and any(p in ('text', 'line', 'lines') for p in m.params)]
    for f in methods:
        n += _line_delimiters_in(ctx, rep, f, patterns, rule)
    return n


def _first_word_alias(f, e):
    """follow local names to the expression they denote, also through  head, rest = words[0], words[1:]"""
    for _ in range(4):
        if not isinstance(e, ast.Name):
            break
        nxt = None
        for st in walk_no_nested(f.node):
            if isinstance(st, ast.Assign) and len(st.targets) == 1:
                tg, val = st.targets[0], st.value
                if isinstance(tg, ast.Name) and tg.id == e.id:
                    nxt = val
                elif isinstance(tg, (ast.Tuple, ast.List)) and isinstance(val, (ast.Tuple, ast.List)) and len(tg.elts) == len(val.elts):
                    for t0, v0 in zip(tg.elts, val.elts):
                        if isinstance(t0, ast.Name) and t0.id == e.id:
                            nxt = v0
        if nxt is None:
            break
        e = nxt
    return e


def _line_delimiters_in(ctx, rep, f, patterns, rule):
    n = 0
    # the comment test spelled as a comparison of the first character:  head[:1] == '%'  /  head[0] == '%'
    for c in walk_no_nested(f.node):
        if isinstance(c, ast.Compare) and len(c.ops) == 1 and isinstance(c.ops[0], (ast.Eq, ast.NotEq)) and isinstance(c.comparators[0], ast.Constant) \
                and isinstance(c.comparators[0].value, str) and len(c.comparators[0].value) == 1 and isinstance(c.left, ast.Subscript):
            sl = c.left.slice
            first_char = (isinstance(sl, ast.Constant) and sl.value == 0) or (isinstance(sl, ast.Slice) and sl.lower is None and isinstance(sl.upper, ast.Constant) and sl.upper.value == 1)
            if not first_char:
                continue
            d = c.comparators[0].value
            recv = _first_word_alias(f, c.left.value)
            if isinstance(recv, ast.Subscript) and isinstance(recv.slice, ast.Constant) and recv.slice.value == 0:
                n += 1
                bad = None
                for where, p in sorted(patterns.items()):
                    if 'state' not in where:
                        continue
                    ok, wit = relang.included(p, '[^{}].*|'.format(re.escape(d)))
                    if not ok:
                        bad = (where, p, wit)
                if bad:
                    rep.violates(rule, f, c, "a state name may start with the comment character '{}' ({} admits '{}')".format(d, bad[1], bad[2]))
                else:
                    rep.holds(rule, f, c, "the comment test looks at the first word only, and no state name starts with '{}'".format(d))
    derived = {p for p in f.params if p != 'self'}
    for _ in range(3):
        for s in walk_no_nested(f.node):
            if isinstance(s, ast.Assign) and len(s.targets) == 1 and isinstance(s.targets[0], ast.Name) and names_in(s.value) & derived:
                derived.add(s.targets[0].id)
            if isinstance(s, ast.Assign) and len(s.targets) == 1 and isinstance(s.targets[0], ast.Tuple) and names_in(s.value) & derived:
                derived |= {x.id for x in ast.walk(s.targets[0]) if isinstance(x, ast.Name)}
            if isinstance(s, ast.For) and names_in(s.iter) & derived:
                derived |= {x.id for x in ast.walk(s.target) if isinstance(x, ast.Name)}
            if isinstance(s, (ast.ListComp, ast.GeneratorExp, ast.SetComp, ast.DictComp)):
                for g0 in s.generators:
                    if names_in(g0.iter) & derived:
                        derived |= {x.id for x in ast.walk(g0.target) if isinstance(x, ast.Name)}
    for c in walk_no_nested(f.node):
        if not (isinstance(c, ast.Call) and isinstance(c.func, ast.Attribute)):
            continue
        if c.func.attr in ('split', 'rsplit', 'partition', 'rpartition', 'find', 'index', 'rfind') and c.args and isinstance(c.args[0], ast.Constant) and isinstance(c.args[0].value, str) \
                and names_in(c.func.value) & derived and not isinstance(c.func.value, ast.Subscript):
            d = c.args[0].value
            if not d.strip():
                continue
            n += 1
            bad = None
            for where, p in sorted(patterns.items()):
                try:
                    ok, wit = relang.included(p, '[^{}]*'.format(re.escape(d[0])))
                except Exception:
                    continue
                if not ok:
                    bad = (where, p, wit)
                    break
            if bad:
                rep.violates(rule, f, c, "the line reader cuts every line at '{}', but '{}' may occur inside a label: {} ({}) admits '{}' -- the rest of such a line is dropped, so text written by the printers is not read back".format(d, d, bad[1], bad[0], bad[2]))
            else:
                rep.holds(rule, f, c, "the delimiter '{}' cannot occur in any state name, symbol or label".format(d))
        if c.func.attr == 'startswith' and c.args and isinstance(c.args[0], ast.Constant) and isinstance(c.args[0].value, str):
            d = c.args[0].value
            n += 1
            recv = _first_word_alias(f, c.func.value)
            first_word = isinstance(recv, ast.Subscript) and isinstance(recv.slice, ast.Constant) and recv.slice.value == 0
            if not first_word:
                if not (names_in(c.func.value) & derived):
                    n -= 1
                    continue
                # the test is applied to a word that need not be the first of its line: a label or symbol that begins with
                # the marker is then taken for the start of a comment
                bad = None
                for where, p in sorted(patterns.items()):
                    try:
                        ok, wit = relang.included(p, '[^{}].*|'.format(re.escape(d[0])))
                    except Exception:
                        continue
                    if not ok:
                        bad = (where, p, wit)
                        break
                if bad:
                    rep.violates(rule, f, c, "the comment test `{}` is applied to words inside a line, but a label or symbol may begin with '{}': {} ({}) admits '{}' -- such a word and the rest of its line are dropped, so text written by the printers is not read back".format(u(c), d, bad[1], bad[0], bad[2]))
                else:
                    rep.holds(rule, f, c, "no state name, symbol or label begins with '{}'".format(d))
                continue
            bad = None
            for where, p in sorted(patterns.items()):
                if 'state' not in where:
                    continue
                ok, wit = relang.included(p, '[^{}].*|'.format(re.escape(d[0])))
                if not ok:
                    bad = (where, p, wit)
            if bad:
                rep.violates(rule, f, c, "a state name may start with the comment character '{}' ({} admits '{}')".format(d, bad[1], bad[2]))
            else:
                rep.holds(rule, f, c, "the comment test looks at the first word only, and no state name starts with '{}'".format(d))
    return n


def check_word_list_tokens(ctx, rep, f, rule=RULE + '.tokens'):
    """a list of words is cut at white space by ``str.split()`` WITHOUT an argument -- the only splitter that yields no
    token for an empty (or blank) text.  ``str.split(sep)`` and ``re.split`` yield one empty token for the empty text;
    in a word list the empty token is the empty word, so the empty list would be read as {epsilon}.  Such a splitter must
    be followed by a filter of the empty tokens."""
    n = 0
    for c in walk_no_nested(f.node):
        if not isinstance(c, ast.Call):
            continue
        is_re = isinstance(c.func, ast.Attribute) and c.func.attr == 'split' and u(c.func.value) == 're'
        is_str = isinstance(c.func, ast.Attribute) and c.func.attr in ('split', 'rsplit') and not is_re
        if not (is_re or is_str):
            continue
        n += 1
        if is_str and not c.args and not c.keywords:
            rep.holds(rule, f, c, 'the words are cut by split() without an argument: an empty text has no tokens')
            continue
        # filtered?  filter(None, <split>) / [w for w in <split> if w] / if w.strip()
        filtered = False
        for p in ast.walk(f.node):
            if isinstance(p, ast.Call) and isinstance(p.func, ast.Name) and p.func.id == 'filter' and len(p.args) == 2 and any(x is c for x in ast.walk(p.args[1])):
                filtered = True
            if isinstance(p, (ast.ListComp, ast.SetComp, ast.GeneratorExp)):
                for g in p.generators:
                    if any(x is c for x in ast.walk(g.iter)) and isinstance(g.target, ast.Name):
                        for cond in g.ifs:
                            t = cond
                            if isinstance(t, ast.Name) and t.id == g.target.id:
                                filtered = True
                            if isinstance(t, ast.Call) and isinstance(t.func, ast.Attribute) and t.func.attr == 'strip' and u(t.func.value) == g.target.id:
                                filtered = True
                            if isinstance(t, ast.Compare) and len(t.ops) == 1 and isinstance(t.ops[0], ast.NotEq) and u(t.left) == g.target.id and u(t.comparators[0]) in ("''", '""'):
                                filtered = True
        # an explicit loop over the tokens that skips the empty ones before anything else:  for t in <split>: if not t: continue
        for lp in walk_no_nested(f.node):
            if isinstance(lp, ast.For) and isinstance(lp.target, ast.Name) and any(x is c for x in ast.walk(lp.iter)) and lp.body:
                t0 = lp.target.id
                first = lp.body[0]
                if isinstance(first, ast.Expr) and isinstance(first.value, ast.Constant) and len(lp.body) > 1:
                    first = lp.body[1]
                if isinstance(first, ast.If):
                    tst = first.test
                    empty_test = (isinstance(tst, ast.UnaryOp) and isinstance(tst.op, ast.Not) and u(tst.operand) in (t0, t0 + '.strip()')) or \
                        (isinstance(tst, ast.Compare) and len(tst.ops) == 1 and isinstance(tst.ops[0], ast.Eq) and u(tst.left) == t0 and u(tst.comparators[0]) in ("''", '""')) or \
                        (isinstance(tst, ast.Compare) and len(tst.ops) == 1 and isinstance(tst.ops[0], ast.Eq) and u(tst.left) == 'len({})'.format(t0) and u(tst.comparators[0]) == '0')
                    nonempty_test = (isinstance(tst, ast.Name) and tst.id == t0) or \
                        (isinstance(tst, ast.Compare) and len(tst.ops) == 1 and isinstance(tst.ops[0], ast.NotEq) and u(tst.left) == t0 and u(tst.comparators[0]) in ("''", '""'))
                    if empty_test and not first.orelse and len(first.body) == 1 and isinstance(first.body[0], ast.Continue):
                        filtered = True
                    if nonempty_test and not first.orelse and first is lp.body[-1]:
                        filtered = True
        if filtered:
            rep.holds(rule, f, c, 'the empty tokens of {} are filtered out'.format(u(c.func)))
        else:
            rep.violates(rule, f, c, '`{}` yields one empty token for an empty text, and in a word list the empty token is the empty word: an empty list of words is read as {{epsilon}} '
                         '(a checker then demands / accepts the empty word for the empty language)'.format(u(c)))
    return n


def check_declared_lines_unconditional(ctx, rep, rule=RULE + '.a'):
    """a declaration whose ABSENCE the builder of the kind fills with a default of its own (`X = self.get_symbol_set('K')`
    and then `if X is None: X = <default>`) must be written by the printer of that kind on every path: a printer that
    leaves the line out for an empty set makes the reader apply the default, and the empty set does not come back."""
    n = 0
    for kind, mod in KINDS.items():
        pf = ctx.prog.func('{}.print_{}'.format(mod, kind))
        bcls = [c for c in ctx.prog.classes.values() if c.name == kind.upper() + 'Builder' and not c.module.name.startswith('template:')]
        if not bcls or 'build' not in bcls[0].methods:
            continue
        build = bcls[0].methods['build']
        defaulted = {}
        for st in walk_no_nested(build.node):
            if isinstance(st, ast.Assign) and len(st.targets) == 1 and isinstance(st.targets[0], ast.Name) and isinstance(st.value, ast.Call) \
                    and isinstance(st.value.func, ast.Attribute) and st.value.func.attr == 'get_symbol_set' and len(st.value.args) == 1 and isinstance(st.value.args[0], ast.Constant):
                var = st.targets[0].id
                for t in walk_no_nested(build.node):
                    if isinstance(t, ast.If) and any(a[0] == 'eq' and a[1] == var and a[2] == 'None' and a[3] is True for a in atoms_of_test(t.test)):
                        defaulted[st.value.args[0].value] = t
        if not defaulted:
            continue
        fx = ctx.facts(pf)
        # direct writes and writes through a local helper (def write(keyword, xs): if xs: out.write(...))
        written = {}
        for (kw, c) in printed_keywords(ctx, pf):
            nid = fx.stmt_of_expr(c)
            written.setdefault(kw, []).append(bool(fx.guard_atoms(nid)) if nid is not None else False)
        for c in walk_no_nested(pf.node):
            if isinstance(c, ast.Call) and isinstance(c.func, ast.Name) and c.func.id in pf.nested and c.args and isinstance(c.args[0], ast.Constant) and isinstance(c.args[0].value, str):
                h = pf.nested[c.func.id]
                hx = ctx.facts(h)
                conds = []
                for w in walk_no_nested(h.node):
                    if isinstance(w, ast.Call) and isinstance(w.func, ast.Attribute) and w.func.attr == 'write':
                        hn = hx.stmt_of_expr(w)
                        conds.append(bool(hx.guard_atoms(hn)) if hn is not None else False)
                nid = fx.stmt_of_expr(c)
                outer = bool(fx.guard_atoms(nid)) if nid is not None else False
                if conds:
                    written.setdefault(c.args[0].value, []).append(outer or all(conds))
        for kw, site in sorted(defaulted.items()):
            n += 1
            if kw not in written:
                # the keyword may sit in a table of (keyword, value) rows that is written out row by row
                occ = [x for x in ast.walk(pf.node) if isinstance(x, ast.Constant) and x.value == kw]
                conditional = set()
                for t0 in ast.walk(pf.node):
                    if isinstance(t0, ast.If):
                        for b0 in t0.body + t0.orelse:
                            conditional |= {id(x) for x in ast.walk(b0)}
                    if isinstance(t0, ast.IfExp):
                        conditional |= {id(x) for x in ast.walk(t0.body)} | {id(x) for x in ast.walk(t0.orelse)}
                    if isinstance(t0, (ast.ListComp, ast.GeneratorExp, ast.SetComp)) and any(g0.ifs for g0 in t0.generators):
                        conditional |= {id(x) for x in ast.walk(t0)}
                if occ and not any(id(x) in conditional for x in occ):
                    rep.holds(rule, pf, "line '{}'".format(kw), "the declaration '{}' is part of an unconditional table of lines".format(kw), nontrivial=False)
                    continue
                if occ:
                    rep.undecided(rule, pf, "line '{}'".format(kw), "how the declaration '{}' is written is not recognised".format(kw))
                    continue
                rep.violates(rule, pf, 'def ' + pf.name, "print_{0} never writes the declaration '{1}', for which {2}Builder substitutes a default when it is absent: an automaton whose {1} differ from that default does not come back".format(kind, kw, kind.upper()))
            elif all(written[kw]):
                rep.violates(rule, pf, "line '{}'".format(kw), "print_{0} writes the declaration '{1}' only under a condition, but {2}Builder fills an ABSENT '{1}' with a default of its own ({3}): for the case in which the line is left out (an empty set) the reader builds a different automaton".format(
                    kind, kw, kind.upper(), u(site.body[0])[:60]))
            else:
                rep.holds(rule, pf, "line '{}'".format(kw), "the declaration '{}', whose absence has a default in the builder, is written on every path".format(kw))
    return n


def atoms_of_test(t):
    from ..astutil import atoms_of
    return atoms_of(t, True)
