"""R-MODEL M7 (CYK loop-nest schedule, decided on the extracted index arithmetic for n <= 12) and the CNF typestate of
the grammar handed to the CYK routines."""
import ast

from .. import abseval
from ..abseval import Unsupported
from ..astutil import u, names_in, walk_no_nested, atoms_of
from ..cfg import cfg_of
from ..model import norm

RULE = 'R-MODEL.M7'


class _Sched:
    def __init__(self, table, skip_flag):
        self.table = table
        self.skip_flag = skip_flag
        self.events = []      # (kind, cell, stmt)
        self.steps = 0
        self.early = None

    def accesses(self, expr, env, store=False, stmt=None):
        for n in ast.walk(expr):
            if isinstance(n, ast.Subscript) and u(n.value) == self.table:
                idx = n.slice
                cell = abseval.ev(idx, env)
                kind = 'w' if isinstance(n.ctx, ast.Store) else 'r'
                self.events.append((kind, cell, stmt))

    def run(self, stmts, env):
        for s in stmts:
            self.steps += 1
            if self.steps > 200000:
                raise Unsupported('schedule too long')
            if isinstance(s, ast.If):
                if self.skip_flag in names_in(s.test):
                    continue
                if any(isinstance(x, (ast.Break, ast.Return)) for b in s.body + s.orelse for x in ast.walk(b)):
                    # an exit from the loop nest that depends on what the table holds so far
                    if any(isinstance(x, ast.Subscript) and u(x.value) == self.table for x in ast.walk(s.test)):
                        self.early = s
                        continue
                    raise Unsupported('early exit under `{}`'.format(u(s.test)))
                self.accesses(s.test, env, stmt=s)
                self.run(s.body, env)
                self.run(s.orelse, env)
            elif isinstance(s, ast.For):
                it = s.iter
                if isinstance(it, ast.Call) and isinstance(it.func, ast.Name) and it.func.id == 'range' and isinstance(s.target, ast.Name):
                    for v in abseval.ev(it, env):
                        env2 = dict(env)
                        env2[s.target.id] = v
                        self.run(s.body, env2)
                else:
                    self.accesses(it, env, stmt=s)
                    self.run(s.body, env)
            elif isinstance(s, ast.Assign):
                t = s.targets[0]
                if isinstance(t, ast.Name):
                    try:
                        env[t.id] = abseval.ev(s.value, env)
                    except Unsupported:
                        self.accesses(s.value, env, stmt=s)
                        env.pop(t.id, None)
                else:
                    self.accesses(s.value, env, stmt=s)
                    if isinstance(t, ast.Subscript) and u(t.value) == self.table:
                        self.events.append(('w', abseval.ev(t.slice, env), s))
            elif isinstance(s, ast.AugAssign):
                self.accesses(s.value, env, stmt=s)
                t = s.target
                if isinstance(t, ast.Subscript) and u(t.value) == self.table:
                    self.events.append(('w', abseval.ev(t.slice, env), s))
            elif isinstance(s, ast.Expr):
                self.accesses(s.value, env, stmt=s)
                c = s.value
                # X[i, j].update(..) / .add(..) grows the cell in place
                if isinstance(c, ast.Call) and isinstance(c.func, ast.Attribute) and c.func.attr in ('update', 'add') and isinstance(c.func.value, ast.Subscript) and u(c.func.value.value) == self.table:
                    cell = abseval.ev(c.func.value.slice, env)
                    # the receiver itself was recorded as a read of the cell: it is the cell being written
                    if self.events and self.events[-1][0] == 'r' and self.events[-1][1] == cell:
                        pass
                    self.events = [e for e in self.events if not (e[2] is s and e[0] == 'r' and e[1] == cell)]
                    self.events.append(('w', cell, s))
            elif isinstance(s, (ast.Return, ast.Assert, ast.Pass)):
                continue
            else:
                raise Unsupported('statement ' + type(s).__name__)


def check_cyk_schedule(ctx, rep, f, max_n=12):
    """for every n <= max_n each cell (i,j) is written after all cells it reads, and its reads are exactly the splits"""
    # the table: the defaultdict returned
    rets = [r for r in walk_no_nested(f.node) if isinstance(r, ast.Return) and isinstance(r.value, ast.Name)]
    if not rets:
        rep.undecided(RULE, f, 'def ' + f.name, 'returned table not found')
        return 0
    table = rets[0].value.id
    wparam = f.pos_params[1].arg
    # statements from the definition of n = len(w) on
    body = list(f.node.body)
    n_name = None
    for s in body:
        if isinstance(s, ast.Assign) and isinstance(s.targets[0], ast.Name) and u(s.value) == 'len({})'.format(wparam):
            n_name = s.targets[0].id
    if n_name is None:
        rep.undecided(RULE, f, 'def ' + f.name, 'word length variable not found')
        return 0
    loops = [s for s in body if isinstance(s, ast.For)]
    checked = 0
    try:
        for n in range(1, max_n + 1):
            sch = _Sched(table, 'verbose')
            env = {n_name: n, 'len({})'.format(wparam): n}
            sch.run([s for s in body if isinstance(s, (ast.For, ast.If))], env)
            ev = sch.events
            if sch.early is not None:
                rep.violates(RULE, f, sch.early, 'the loop nest is left early when `{}` holds: whether the remaining cells are computed depends on the contents of the table, but an empty diagonal does not make the longer spans empty (S -> PP, P -> AB over abab: no span of length 3 is derivable, the span of length 4 is)'.format(u(sch.early.test)))
                return checked
            cells = {(i, j) for i in range(n) for j in range(i, n)}
            written = {c for k, c, _ in ev if k == 'w'}
            outside = [c for k, c, _ in ev if not (isinstance(c, tuple) and len(c) == 2 and 0 <= c[0] <= c[1] < n)]
            if outside:
                rep.violates(RULE, f, 'loop nest', 'for n={} the table is accessed at {} outside 0 <= i <= j < n'.format(n, outside[0]))
                return checked
            if written != cells:
                miss = sorted(cells - written)
                rep.violates(RULE, f, 'loop nest', 'for n={} the cells {} are never written'.format(n, miss[:3]))
                return checked
            last_write = {}
            first_read = {}
            for t, (k, c, st) in enumerate(ev):
                if k == 'w':
                    last_write[c] = t
                else:
                    first_read.setdefault(c, t)
            # reads grouped by the write that follows them
            group = []
            reads_of = {}
            for (k, c, st) in ev:
                if k == 'r':
                    group.append(c)
                else:
                    if c[0] != c[1]:
                        reads_of.setdefault(c, set()).update(x for x in group if x != c)
                    group = []
            for c in sorted(cells):
                i, j = c
                if i == j:
                    continue
                want = {(i, k) for k in range(i, j)} | {(k + 1, j) for k in range(i, j)}
                got = reads_of.get(c, set())
                if got != want:
                    rep.violates(RULE, f, 'loop nest', 'for n={} cell X[{},{}] is computed from {} but the splits of the span are {}'.format(n, i, j, sorted(got)[:6], sorted(want)[:6]))
                    return checked
                for r in want:
                    # every read cell is complete: its last write precedes the first write of c
                    fw = min(t for t, (k, cc, _) in enumerate(ev) if k == 'w' and cc == c)
                    if last_write[r] > fw:
                        rep.violates(RULE, f, 'loop nest', 'for n={} cell X[{},{}] is computed before X[{},{}] is complete'.format(n, i, j, r[0], r[1]))
                        return checked
            checked += 1
    except Unsupported as e:
        rep.undecided(RULE, f, 'loop nest', 'loop nest outside the fragment: {}'.format(e))
        return checked
    rep.holds(RULE, f, 'loop nest', 'for every n = 1..{} all cells 0 <= i <= j < n are written, X[i,j] reads exactly {{(i,k),(k+1,j) | i <= k < j}}, and every cell is complete before it is read'.format(max_n))
    # diagonal seeded from the terminal rules of the matching letter
    init = [l for l in loops if any(isinstance(x, ast.Assign) and isinstance(x.targets[0], ast.Subscript) and u(x.targets[0].value) == table for x in l.body)]
    if init:
        l = init[0]
        i = u(l.target)
        ok = any(isinstance(x, ast.Assign) and '{}[{}]'.format(wparam, i) in u(x.value) for x in l.body)
        st = [x for x in l.body if isinstance(x, ast.Assign) and isinstance(x.targets[0], ast.Subscript)][0]
        if ok and u(st.targets[0].slice).replace(' ', '') in ('({0},{0})'.format(i), '{0},{0}'.format(i)):
            rep.holds(RULE, f, st, 'diagonal cell X[i,i] is seeded from the terminal rules for w[i]')
        else:
            rep.violates(RULE, f, st, 'the diagonal must be seeded as X[i,i] from the rules A -> w[i]')
    # the combination step: A joins X[i,j] iff [B, C] is a right-hand side of A with B from the left part, C from the right part
    from .models import resolve_alias
    source_of = {}       # loop variable -> text of the iterable it ranges over (aliases resolved)
    for s in walk_no_nested(f.node):
        if isinstance(s, ast.For):
            if isinstance(s.iter, ast.Call) and ctx.callee_name(f, s.iter) == 'itertools.product' and isinstance(s.target, ast.Tuple) and len(s.iter.args) == len(s.target.elts):
                for t, a in zip(s.target.elts, s.iter.args):
                    if isinstance(t, ast.Name):
                        source_of[t.id] = (u(resolve_alias(f, a)).replace(' ', ''), s)
            elif isinstance(s.target, ast.Name):
                source_of[s.target.id] = (u(resolve_alias(f, s.iter)).replace(' ', ''), s)
    pairs = []
    for c in walk_no_nested(f.node):
        if isinstance(c, ast.Compare) and len(c.ops) == 1 and isinstance(c.ops[0], ast.In):
            lhs = resolve_alias(f, c.left) if isinstance(c.left, ast.Name) else c.left
            if isinstance(lhs, ast.List) and len(lhs.elts) == 2 and all(isinstance(x, ast.Name) for x in lhs.elts):
                pairs.append((lhs, c))
    for lhs, c in pairs[:1]:
        b, cc = lhs.elts[0].id, lhs.elts[1].id
        sb, sc = source_of.get(b), source_of.get(cc)
        if sb is None or sc is None:
            rep.undecided(RULE, f, c, 'the sources of the pair [{}, {}] are not loops over table cells'.format(b, cc))
        elif sb[0].startswith(table + '[i,k') and sc[0].startswith(table + '[k+1,j'):
            rep.holds(RULE, f, sb[1], 'pairs (B, C) are drawn from X[i,k] x X[k+1,j] in this order and looked up as the right-hand side [B, C]')
        else:
            rep.violates(RULE, f, sb[1], 'the combination step must draw B from X[i,k] and C from X[k+1,j] and look up the right-hand side [B, C] in that order (found B from {}, C from {})'.format(sb[0], sc[0]))
    return checked


# ---- CNF typestate ---------------------------------------------------------------------------------------------------------

def cnf_names(ctx, f):
    """forward must-analysis: names known to denote a grammar in Chomsky normal form, per CFG node"""
    cfg = cfg_of(f.node)
    TOP = None
    state = {n: TOP for n in cfg.nodes()}
    state[cfg.entry] = frozenset()

    def cnf_test(expr, lab):
        out = set()
        for a in atoms_of(expr, lab):
            if a[0] == 'truthy' and a[3] is True and a[1].endswith('.is_chomsky()'):
                out.add(a[1][:-len('.is_chomsky()')])
        return out

    def value_is_cnf(v, cur):
        if isinstance(v, ast.Call) and ctx.callee_name(f, v) in ('cfg_to_chomsky',):
            return True
        if isinstance(v, ast.Name) and v.id in cur:
            return True
        if isinstance(v, ast.IfExp):
            a = value_is_cnf(v.body, cur | cnf_test(v.test, True))
            b = value_is_cnf(v.orelse, cur | cnf_test(v.test, False))
            return a and b
        return False

    work = [cfg.entry]
    while work:
        n = work.pop()
        cur = state[n]
        node = cfg.node[n]
        after = set(cur)
        s = node.stmt
        if node.kind == 'stmt' and isinstance(s, ast.Assign):
            for t in s.targets:
                if isinstance(t, ast.Name):
                    if value_is_cnf(s.value, set(cur)):
                        after.add(t.id)
                    else:
                        after.discard(t.id)
        after = frozenset(after)
        for (s2, lab) in cfg.succ[n]:
            out = after
            if node.kind in ('test', 'assert') and lab in (True, False):
                out = frozenset(set(after) | cnf_test(node.expr, lab))
            old = state[s2]
            new = out if old is TOP else (old & out)
            if old is TOP or new != old:
                state[s2] = new
                work.append(s2)
    return cfg, {n: (v if v is not None else frozenset()) for n, v in state.items()}


def check_cnf_use(ctx, rep, f, rule='R-CNF'):
    """in a function that converts its grammar to CNF on the fly, every use of the grammar's rules / start variable and
    every call of a CYK routine happens on the converted grammar"""
    gparam = f.pos_params[0].arg
    cfg, st = cnf_names(ctx, f)
    fx = ctx.facts(f)
    converts = [c for c in ctx.prog.calls_in(f) if ctx.callee_name(f, c) == 'cfg_to_chomsky']
    if not converts:
        rep.undecided(rule, f, 'def ' + f.name, 'no on-the-fly conversion found')
        return 0
    n = 0
    for e in walk_no_nested(f.node):
        if isinstance(e, ast.Attribute) and isinstance(e.value, ast.Name) and e.value.id == gparam and e.attr in ('R', 'S', 'V'):
            nid = fx.stmt_of_expr(e)
            if nid is None:
                continue
            n += 1
            if gparam in st.get(nid, frozenset()):
                rep.holds(rule, f, e, '{} is read from the grammar after it is known to be in Chomsky normal form'.format(u(e)))
            else:
                rep.violates(rule, f, e, '{} is read on a path where {} has not been converted to Chomsky normal form yet: decisions taken from it (such as "is there a rule S -> epsilon") are wrong for grammars whose start variable is nullable only indirectly'.format(u(e), gparam))
        if isinstance(e, ast.Call) and ctx.callee_name(f, e) in ('cfg_cyk_matrix', 'cfg_derive_word') and e.args and isinstance(e.args[0], ast.Name):
            nid = fx.stmt_of_expr(e)
            n += 1
            if e.args[0].id in st.get(nid, frozenset()):
                rep.holds(rule, f, e, 'the CYK routine receives a grammar known to be in Chomsky normal form')
            else:
                rep.violates(rule, f, e, 'the CYK routine is called with a grammar that is not known to be in Chomsky normal form on every path')
    return n


def check_cyk_callers(ctx, rep, rule='R-CNF'):
    """every call of cfg_cyk_matrix / cfg_derive_word is made with a CNF grammar, under an explicit CNF test, or inside a
    try block whose handler reports the error"""
    n = 0
    for f in ctx.prog.functions.values():
        if f.module.name.startswith('template:'):
            continue
        calls = [c for c in ctx.prog.calls_in(f) if ctx.callee_name(f, c) in ('cfg_cyk_matrix', 'cfg_derive_word')]
        if not calls:
            continue
        cfg, st = cnf_names(ctx, f)
        fx = ctx.facts(f)
        for c in calls:
            n += 1
            nid = fx.stmt_of_expr(c)
            g = c.args[0].id if c.args and isinstance(c.args[0], ast.Name) else None
            in_try = any(isinstance(t, ast.Try) and any(x is c for b in t.body for x in ast.walk(b)) for t in walk_no_nested(f.node))
            if g is not None and g in st.get(nid, frozenset()):
                rep.holds(rule, f, c, 'called on a grammar known to be in Chomsky normal form')
            elif in_try:
                rep.holds(rule, f, c, 'a grammar that is not in Chomsky normal form trips the assertion of the routine, which the enclosing handler reports as an error', nontrivial=False)
            else:
                rep.violates(rule, f, c, 'the CYK routine is reached with a grammar not known to be in Chomsky normal form and outside any error handler')
    return n


def check_empty_word_guard(ctx, rep, f, rule='R-CNF'):
    """the empty word never indexes the table: X[0, n - 1] is dominated by the test w != ''"""
    fx = ctx.facts(f)
    w = f.pos_params[1].arg
    for e in walk_no_nested(f.node):
        if isinstance(e, ast.Subscript) and isinstance(e.slice, ast.Tuple) and u(e.slice.elts[1]).replace(' ', '') == 'n-1':
            nid = fx.stmt_of_expr(e)
            from ..astutil import must_atoms
            atoms = must_atoms(fx).get(nid, frozenset())
            if any(a[0] == 'eq' and a[3] is False and {a[1], a[2]} == {w, "''"} for a in atoms) or any(a[0] == 'empty' and a[1] == w and a[3] is False for a in atoms):
                rep.holds(rule, f, e, 'the table is indexed with n - 1 only for a non-empty word')
            else:
                rep.violates(rule, f, e, 'for the empty word the table is indexed with X[0, -1]: the empty-word case must be decided before')


# ---- extracted model of the CNF recogniser ----------------------------------------------------------------------------------

class _Obj:
    def __init__(self, cls, **kw):
        self.cls = cls
        self.__dict__.update(kw)


def _mini_eval(ctx, cls_info, e, env, depth=0):
    """concrete evaluation of the tiny predicate methods of Alternative on tagged symbol lists (the analyser's own
    finite model: symbols are ('T',) or ('V',))"""
    if depth > 6:
        raise Unsupported('depth')
    if isinstance(e, ast.Constant):
        return e.value
    if isinstance(e, ast.Name):
        if e.id in env:
            return env[e.id]
        raise Unsupported('name ' + e.id)
    if isinstance(e, ast.Attribute):
        base = _mini_eval(ctx, cls_info, e.value, env, depth)
        if isinstance(base, _Obj) and hasattr(base, e.attr):
            return getattr(base, e.attr)
        raise Unsupported('attribute ' + e.attr)
    if isinstance(e, ast.BoolOp):
        if isinstance(e.op, ast.And):
            r = True
            for v in e.values:
                r = _mini_eval(ctx, cls_info, v, env, depth)
                if not r:
                    return r
            return r
        r = False
        for v in e.values:
            r = _mini_eval(ctx, cls_info, v, env, depth)
            if r:
                return r
        return r
    if isinstance(e, ast.UnaryOp) and isinstance(e.op, ast.Not):
        return not _mini_eval(ctx, cls_info, e.operand, env, depth)
    if isinstance(e, ast.Compare) and len(e.ops) == 1:
        a = _mini_eval(ctx, cls_info, e.left, env, depth)
        b = _mini_eval(ctx, cls_info, e.comparators[0], env, depth)
        op = type(e.ops[0])
        return {ast.Eq: a == b, ast.NotEq: a != b, ast.Lt: a < b, ast.LtE: a <= b, ast.Gt: a > b, ast.GtE: a >= b}[op]
    if isinstance(e, ast.Subscript):
        base = _mini_eval(ctx, cls_info, e.value, env, depth)
        idx = _mini_eval(ctx, cls_info, e.slice, env, depth)
        return base[idx]
    if isinstance(e, (ast.ListComp, ast.SetComp, ast.GeneratorExp)) and len(e.generators) == 1:
        g = e.generators[0]
        out = []
        for x in _mini_eval(ctx, cls_info, g.iter, env, depth):
            env2 = dict(env)
            env2[g.target.id] = x
            if all(_mini_eval(ctx, cls_info, c, env2, depth) for c in g.ifs):
                out.append(_mini_eval(ctx, cls_info, e.elt, env2, depth))
        return out
    if isinstance(e, ast.Call):
        fn = e.func
        if isinstance(fn, ast.Name):
            if fn.id == 'len':
                return len(_mini_eval(ctx, cls_info, e.args[0], env, depth))
            if fn.id == 'isinstance':
                v = _mini_eval(ctx, cls_info, e.args[0], env, depth)
                k = e.args[1]
                names = [u(x) for x in (k.elts if isinstance(k, ast.Tuple) else [k])]
                return any((n == 'Terminal' and v == ('T',)) or (n == 'Variable' and v == ('V',)) for n in names)
            if fn.id in ('set', 'list', 'all', 'any', 'bool'):
                v = _mini_eval(ctx, cls_info, e.args[0], env, depth) if e.args else []
                return {'set': lambda x: list(x), 'list': lambda x: list(x), 'all': all, 'any': any, 'bool': bool}[fn.id](v)
        if isinstance(fn, ast.Attribute) and isinstance(fn.value, ast.Name) and fn.value.id == 'self' and fn.attr in cls_info.methods:
            m = cls_info.methods[fn.attr]
            rets = [r for r in walk_no_nested(m.node) if isinstance(r, ast.Return)]
            if len(rets) != 1:
                raise Unsupported('method ' + fn.attr)
            return _mini_eval(ctx, cls_info, rets[0].value, {'self': env['self']}, depth + 1)
    raise Unsupported(type(e).__name__ + ' ' + u(e)[:40])


def check_alternative_recogniser(ctx, rep, rule='R-CNF.shape'):
    """Alternative.is_chomsky as a truth table over all right-hand sides of length <= 3 made of terminals / variables:
    true exactly for the empty side, a single terminal, and two variables"""
    import itertools
    cls = ctx.prog.cls('cfg.Alternative')
    m = cls.methods.get('is_chomsky')
    rets = [r for r in walk_no_nested(m.node) if isinstance(r, ast.Return)] if m else []
    if len(rets) != 1:
        rep.undecided(rule, 'cfg.py:Alternative.is_chomsky', 'def is_chomsky', 'single return expression expected')
        return
    try:
        for k in range(0, 4):
            for combo in itertools.product([('T',), ('V',)], repeat=k):
                obj = _Obj('Alternative', symbols=list(combo))
                got = bool(_mini_eval(ctx, cls, rets[0].value, {'self': obj}))
                want = (k == 0) or (k == 1 and combo[0] == ('T',)) or (k == 2 and combo == (('V',), ('V',)))
                if got != want:
                    shape = ' '.join('terminal' if c == ('T',) else 'variable' for c in combo) or 'empty'
                    rep.violates(rule, m, rets[0], 'a right-hand side of the shape [{}] is {} as Chomsky normal form but must be {}: the conversion is skipped (or forced) for such grammars and the CYK table ignores the rule'.format(
                        shape, 'accepted' if got else 'rejected', 'accepted' if want else 'rejected'))
                    return
    except Unsupported as e:
        rep.undecided(rule, m, rets[0], 'recogniser outside the fragment: {}'.format(e))
        return
    rep.holds(rule, m, rets[0], 'truth table over all 15 right-hand-side shapes of length <= 3: accepted exactly the empty side, one terminal, two variables')


def check_grammar_recogniser(ctx, rep, rule='R-CNF.shape'):
    """CFG.is_chomsky as a truth table over ONE rule: with c = the rule has a CNF shape, s = the start variable occurs on its
    right-hand side, e = it is an epsilon rule, v = its left-hand side is the start variable, the method must return
    c and not s and (not e or v) for all sixteen assignments (the method quantifies over self.R; a one-rule grammar
    exposes each conjunct)."""
    g = ctx.prog.func('cfg.CFG.is_chomsky')

    class Rule_:
        pass

    def ev(e, env, atoms):
        if isinstance(e, ast.Constant):
            return e.value
        if isinstance(e, ast.Name):
            if e.id in env:
                return env[e.id]
            raise Unsupported('name ' + e.id)
        if isinstance(e, ast.Attribute):
            t = u(e)
            if t == 'self.R':
                return [Rule_]
            if t == 'self.S':
                return 'S'
            base = ev(e.value, env, atoms)
            if base is Rule_ and e.attr == 'variable':
                return 'RV'
            raise Unsupported('attribute ' + t)
        if isinstance(e, ast.UnaryOp) and isinstance(e.op, ast.Not):
            return not ev(e.operand, env, atoms)
        if isinstance(e, ast.BoolOp):
            vals = [ev(v, env, atoms) for v in e.values]
            return all(vals) if isinstance(e.op, ast.And) else any(vals)
        if isinstance(e, ast.IfExp):
            return ev(e.body, env, atoms) if ev(e.test, env, atoms) else ev(e.orelse, env, atoms)
        if isinstance(e, ast.Compare) and len(e.ops) == 1:
            a, b = ev(e.left, env, atoms), ev(e.comparators[0], env, atoms)
            op = e.ops[0]
            if {a, b} == {'S', 'RV'} and isinstance(op, (ast.Eq, ast.NotEq)):
                return atoms['v'] if isinstance(op, ast.Eq) else not atoms['v']
            if a == 'S' and b == 'VARS' and isinstance(op, (ast.In, ast.NotIn)):
                return atoms['s'] if isinstance(op, ast.In) else not atoms['s']
            raise Unsupported('comparison ' + u(e))
        if isinstance(e, (ast.ListComp, ast.GeneratorExp, ast.SetComp)) and len(e.generators) == 1 and isinstance(e.generators[0].target, ast.Name):
            gen = e.generators[0]
            out = []
            for x in ev(gen.iter, env, atoms):
                env2 = dict(env)
                env2[gen.target.id] = x
                if all(ev(c, env2, atoms) for c in gen.ifs):
                    out.append(ev(e.elt, env2, atoms))
            return out
        if isinstance(e, ast.Call):
            fn = e.func
            if isinstance(fn, ast.Name) and fn.id in ('all', 'any', 'list', 'bool') and len(e.args) == 1:
                v = ev(e.args[0], env, atoms)
                return {'all': all, 'any': any, 'list': list, 'bool': bool}[fn.id](v)
            if isinstance(fn, ast.Attribute) and not e.args:
                base = ev(fn.value, env, atoms)
                if base is Rule_ and fn.attr == 'is_chomsky':
                    return atoms['c']
                if base is Rule_ and fn.attr == 'is_epsilon':
                    return atoms['e']
                if base is Rule_ and fn.attr == 'variables':
                    return 'VARS'
            raise Unsupported('call ' + u(e))
        raise Unsupported(type(e).__name__)

    def run(stmts, env, atoms):
        for st in stmts:
            if isinstance(st, ast.Expr):
                continue
            if isinstance(st, ast.Assign) and len(st.targets) == 1 and isinstance(st.targets[0], ast.Name):
                env[st.targets[0].id] = ev(st.value, env, atoms)
                continue
            if isinstance(st, ast.If):
                r = run(st.body if ev(st.test, env, atoms) else st.orelse, env, atoms)
                if r is not None:
                    return r
                continue
            if isinstance(st, ast.For) and isinstance(st.target, ast.Name):
                for x in ev(st.iter, env, atoms):
                    env[st.target.id] = x
                    r = run(st.body, env, atoms)
                    if r is not None:
                        return r
                continue
            if isinstance(st, ast.Return):
                return ('ret', ev(st.value, env, atoms))
            raise Unsupported('statement ' + type(st).__name__)
        return None

    import itertools
    bad = None
    try:
        for c, s_, e_, v in itertools.product((True, False), repeat=4):
            atoms = {'c': c, 's': s_, 'e': e_, 'v': v}
            out = run(g.node.body, {}, atoms)
            got = bool(out[1]) if out is not None else None
            want = c and not s_ and (not e_ or v)
            if got != want and bad is None:
                bad = (atoms, got, want)
    except Unsupported as ex:
        rep.undecided(rule, g, 'def is_chomsky', 'body outside the truth-table fragment: {}'.format(ex))
        return 0
    if bad is None:
        rep.holds(rule, g, 'def is_chomsky', 'for all 16 assignments of (CNF shape, S on the right-hand side, epsilon rule, left-hand side is S) the answer is shape and not S-on-rhs and (not epsilon or lhs = S)')
    else:
        atoms, got, want = bad
        what = []
        if not atoms['c']:
            what.append('the rule has no CNF shape')
        if atoms['s']:
            what.append('the start variable occurs on its right-hand side')
        if atoms['e'] and not atoms['v']:
            what.append('it is an epsilon rule of a variable other than the start variable')
        rep.violates(rule, g, 'def is_chomsky', 'the grammar-level CNF test answers {} for a one-rule grammar where {} (expected {})'.format(got, ' and '.join(what) or 'all conditions of the normal form hold', want))
    return 1
