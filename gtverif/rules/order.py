"""R-ORDER -- iteration-order independence where it is provable, enumeration of choice points where not.

Sources of order: iteration over set/frozenset values (loops, comprehensions), set.pop(), set_element / next(iter(S)).
Order-insensitive consumers: growth of sets, dict stores keyed by the element, any/all, membership, early returns of a
constant, saturation loops that run until their worklist is empty.  Order-sensitive consumers: list/str construction,
first-match return/break of an element-derived value, last-writer-wins assignments, and a loop exit that does not wait for
exhaustion (counter cut-off)."""
import ast

from ..astutil import u, names_in, walk_no_nested, atoms_of
from ..model import norm
from ..types import members

RULE = 'R-ORDER'


def _is_unordered(ctx, f, e):
    t = ctx.env(f).type_of(e)
    if t is None:
        # attribute names of the operand classes that are sets
        if isinstance(e, ast.Attribute) and e.attr in ('Q', 'F', 'Sigma', 'Gamma', 'V'):
            return True
        return False
    return any(m[0] in ('set', 'frozenset') for m in members(t))


def _elem_names(target):
    return {n.id for n in ast.walk(target) if isinstance(n, ast.Name)}


def _derived(stmts, seeds):
    """names (transitively) assigned from the seed names inside the statements"""
    names = set(seeds)
    for _ in range(5):
        changed = False
        for s in stmts:
            for n in ast.walk(s):
                if isinstance(n, ast.Assign) and names_in(n.value) & names:
                    for t in n.targets:
                        for x in ast.walk(t):
                            if isinstance(x, ast.Name) and x.id not in names:
                                names.add(x.id)
                                changed = True
                if isinstance(n, ast.For) and names_in(n.iter) & names:
                    for x in ast.walk(n.target):
                        if isinstance(x, ast.Name) and x.id not in names:
                            names.add(x.id)
                            changed = True
        if not changed:
            break
    return names


def analyse(ctx, f):
    """returns (choice points, harmful patterns): lists of (node, description)"""
    choices, harmful = [], []
    env = ctx.env(f)
    local_sets = set()
    for name, t in env.vars.items():
        if t is not None and any(m[0] in ('set', 'frozenset') for m in members(t)):
            local_sets.add(name)
    for n in walk_no_nested(f.node):
        # explicit picks
        if isinstance(n, ast.Call):
            nm = ctx.callee_name(f, n)
            if nm == 'set_element' or (nm == 'next' and n.args and isinstance(n.args[0], ast.Call) and ctx.callee_name(f, n.args[0]) == 'iter'
                                       and _is_unordered(ctx, f, n.args[0].args[0] if n.args[0].args else None)):
                choices.append((n, 'an arbitrary element is picked from a set'))
            if isinstance(n.func, ast.Attribute) and n.func.attr == 'pop' and not n.args and _is_unordered(ctx, f, n.func.value):
                # a set.pop() inside a loop with a cut-off is harmful; inside a saturation loop it is a benign choice
                loop = _enclosing_loop(f, n)
                if loop is not None and _is_open_loop(loop) and _has_cutoff(loop, u(n.func.value)):
                    harmful.append((n, 'elements are popped from the unordered set {} in a loop that can stop before the set is exhausted (counter cut-off): which elements were expanded depends on the hash order'.format(u(n.func.value))))
                elif loop is not None and _is_open_loop(loop) and _returns_element_value(loop):
                    choices.append((n, 'a search pops from an unordered set and returns a witness built from the element found first'))
        if isinstance(n, ast.Call) and isinstance(n.func, ast.Name) and n.func.id in ('list', 'tuple') and len(n.args) == 1 and _is_unordered(ctx, f, n.args[0]) \
                and not _sanitised(f, n):
            choices.append((n, 'a sequence is built from a set in its iteration order'))
        # iteration over unordered collections
        loops = []
        if isinstance(n, ast.For) and _is_unordered(ctx, f, n.iter):
            loops.append((n.target, n.body, n))
        if isinstance(n, (ast.ListComp,)) and any(_is_unordered(ctx, f, g.iter) for g in n.generators):
            # a list built in set order: order-sensitive unless consumed by sorted()/set()/join of sorted
            if not _sanitised(f, n):
                choices.append((n, 'a list is built in the iteration order of a set'))
        for (target, body, node) in loops:
            elems = _derived(body, _elem_names(target))
            for s in body:
                for x in ast.walk(s):
                    if isinstance(x, ast.Return) and x.value is not None and not isinstance(x.value, ast.Constant) and names_in(x.value) & elems:
                        choices.append((x, 'the first matching element in set order determines the returned value'))
                    if isinstance(x, ast.Call) and isinstance(x.func, ast.Attribute) and x.func.attr in ('append', 'insert', 'extend') \
                            and isinstance(x.func.value, ast.Name) and x.func.value.id not in local_sets and names_in(x) & elems:
                        # appending to a list that is a local worklist is fine if the list is only consumed as a bag
                        if not _list_is_bag(ctx, f, x.func.value.id):
                            choices.append((x, 'a list is extended in the iteration order of a set'))
                    if isinstance(x, ast.Break):
                        choices.append((x, 'the loop over a set stops at the first matching element'))
    return choices, harmful


def _enclosing_loop(f, node):
    best = None
    for l in walk_no_nested(f.node):
        if isinstance(l, (ast.While, ast.For)) and any(x is node for x in ast.walk(l)):
            if best is None or any(x is l for x in ast.walk(best)):
                best = l
    return best


def _is_open_loop(loop):
    from .work import is_count_loop
    return isinstance(loop, ast.While) or is_count_loop(loop)


def _has_cutoff(loop, wl):
    from .work import loop_conj
    for c in loop_conj(loop):
        if isinstance(c, ast.Compare) and isinstance(c.ops[0], (ast.Lt, ast.LtE, ast.Gt, ast.GtE)) and wl not in names_in(c):
            return True
    return False


def _returns_element_value(loop):
    for x in ast.walk(loop):
        if isinstance(x, ast.Return) and x.value is not None and not isinstance(x.value, ast.Constant):
            return True
    return False


def _is_bag_name(f, name, depth=0, seen=None):
    """every use of the list `name` is insensitive to the order of its elements: membership tests, commutative
    accumulation loops, set()/sorted()/any()..., a comprehension whose own result is such a bag again, or the life of a
    saturation worklist (pop / append / extend / emptiness test in a loop that never returns an element-derived value)"""
    seen = seen or set()
    if depth > 4 or name in seen:
        return name in seen
    seen = seen | {name}
    parents = {}
    for n in ast.walk(f.node):
        for c in ast.iter_child_nodes(n):
            parents[id(c)] = n
    uses = [x for x in walk_no_nested(f.node) if isinstance(x, ast.Name) and x.id == name and isinstance(x.ctx, ast.Load)]
    if not uses:
        return False
    for x in uses:
        p = parents.get(id(x))
        ok = False
        if isinstance(p, ast.Compare) and len(p.ops) == 1 and isinstance(p.ops[0], (ast.In, ast.NotIn)) and p.comparators[0] is x:
            ok = True
        elif isinstance(p, ast.For) and p.iter is x and _commutative_body(p.body):
            ok = True
        elif isinstance(p, ast.Call) and any(a is x for a in p.args):
            fn = p.func
            nm = fn.id if isinstance(fn, ast.Name) else (fn.attr if isinstance(fn, ast.Attribute) else None)
            ORDER_FREE = ('set', 'frozenset', 'sorted', 'any', 'all', 'union', 'sum', 'len', 'max', 'min', 'update', 'intersection', 'difference', 'extend')
            ok = nm in ORDER_FREE
            if nm in ('filter', 'map') and p.args and p.args[-1] is x:
                # filter(pred, xs) / map(fn, xs) handed straight to an order-free consumer:  result.update(filter(accepts, level))
                pp = parents.get(id(p))
                if isinstance(pp, ast.Call) and any(a is p for a in pp.args):
                    fn2 = pp.func
                    nm2 = fn2.id if isinstance(fn2, ast.Name) else (fn2.attr if isinstance(fn2, ast.Attribute) else None)
                    ok = nm2 in ORDER_FREE and nm2 != 'extend'
            if nm == 'extend' and not (isinstance(fn, ast.Attribute) and isinstance(fn.value, ast.Name) and _is_bag_name(f, fn.value.id, depth + 1, seen)):
                ok = False
        elif isinstance(p, ast.Starred):
            pp = parents.get(id(p))
            ok = isinstance(pp, ast.Call) and isinstance(pp.func, ast.Attribute) and pp.func.attr in ('union', 'intersection', 'update')
        elif isinstance(p, ast.Attribute) and p.value is x and p.attr in ('pop', 'append', 'extend'):
            # worklist life; harmless unless the loop hands out something derived from the element it happens to meet first
            loop = None
            for l in walk_no_nested(f.node):
                if isinstance(l, ast.While) and any(y is x for y in ast.walk(l)):
                    loop = l
            ok = loop is None or not any(isinstance(r, (ast.Return, ast.Break)) and not (isinstance(r, ast.Return) and (r.value is None or isinstance(r.value, ast.Constant))) for r in ast.walk(loop))
        elif isinstance(p, ast.While) and p.test is x:
            ok = True
        elif isinstance(p, ast.UnaryOp) and isinstance(p.op, ast.Not):
            ok = True
        elif isinstance(p, ast.comprehension) and p.iter is x:
            comp = parents.get(id(p))
            cp = parents.get(id(comp))
            if isinstance(comp, (ast.SetComp, ast.DictComp)):
                ok = True
            elif isinstance(cp, ast.Call) and isinstance(cp.func, ast.Name) and cp.func.id in ('set', 'frozenset', 'sorted', 'any', 'all', 'sum', 'len', 'max', 'min'):
                ok = True
            elif isinstance(cp, (ast.Assign, ast.AnnAssign)):
                tg = cp.targets[0] if isinstance(cp, ast.Assign) else cp.target
                ok = isinstance(tg, ast.Name) and _is_bag_name(f, tg.id, depth + 1, seen)
        if not ok:
            return False
    return True


def _sanitised(f, comp):
    # a list that is only ever used as the right-hand side of a membership test is a bag
    for n in walk_no_nested(f.node):
        if isinstance(n, (ast.Assign, ast.AnnAssign)) and n.value is comp:
            tg = n.targets[0] if isinstance(n, ast.Assign) else n.target
            if isinstance(tg, ast.Name) and _is_bag_name(f, tg.id):
                return True
    for n in walk_no_nested(f.node):
        if isinstance(n, ast.Assign) and n.value is comp and len(n.targets) == 1 and isinstance(n.targets[0], ast.Name):
            name = n.targets[0].id
            uses = [x for x in walk_no_nested(f.node) if isinstance(x, ast.Name) and x.id == name and isinstance(x.ctx, ast.Load)]
            members_only = True
            for x in uses:
                ok = False
                for c in walk_no_nested(f.node):
                    if isinstance(c, ast.Compare) and len(c.ops) == 1 and isinstance(c.ops[0], (ast.In, ast.NotIn)) and c.comparators[0] is x:
                        ok = True
                    # iterated by a loop that only accumulates commutatively (update / add / |=) and never leaves early
                    if isinstance(c, ast.For) and c.iter is x and _commutative_body(c.body):
                        ok = True
                    if isinstance(c, ast.Call) and any(a is x for a in c.args):
                        fn = c.func
                        nm = fn.id if isinstance(fn, ast.Name) else (fn.attr if isinstance(fn, ast.Attribute) else None)
                        if nm in ('set', 'frozenset', 'sorted', 'any', 'all', 'union', 'sum', 'len', 'max', 'min', 'update', 'intersection', 'difference'):
                            ok = True
                    if isinstance(c, ast.Call) and any(isinstance(a, ast.Starred) and a.value is x for a in c.args) and isinstance(c.func, ast.Attribute) \
                            and c.func.attr in ('union', 'intersection', 'update'):
                        ok = True
                if not ok:
                    members_only = False
            if uses and members_only:
                return True
    for n in walk_no_nested(f.node):
        if isinstance(n, ast.Call) and any(x is comp for a in n.args for x in ast.walk(a)):
            fn = n.func
            name = fn.id if isinstance(fn, ast.Name) else (fn.attr if isinstance(fn, ast.Attribute) else None)
            if name in ('set', 'frozenset', 'sorted', 'any', 'all', 'union', 'sum', 'len', 'max', 'min', 'update', 'remove_duplicates'):
                return True
    return False


def _commutative_body(stmts):
    for st in stmts:
        if isinstance(st, ast.Expr) and isinstance(st.value, ast.Call) and isinstance(st.value.func, ast.Attribute) and st.value.func.attr in ('update', 'add', 'discard', 'difference_update', 'intersection_update'):
            continue
        if isinstance(st, ast.AugAssign) and isinstance(st.op, (ast.BitOr, ast.BitAnd, ast.Add)) and not isinstance(st.target, ast.Subscript):
            continue
        if isinstance(st, ast.If) and _commutative_body(st.body) and _commutative_body(st.orelse):
            continue
        if isinstance(st, ast.Pass):
            continue
        return False
    return True


def _list_is_bag(ctx, f, name):
    """the list is only popped / tested for emptiness / iterated into sets (a worklist)"""
    for n in walk_no_nested(f.node):
        if isinstance(n, ast.Return) and n.value is not None and name in names_in(n.value):
            return False
        if isinstance(n, ast.Subscript) and u(n.value) == name:
            return False
    return True


def check_independence(ctx, rep, funcs, must=True, rule=RULE):
    """acceptance tests and enumerators: no order-sensitive consumer is fed by an unordered iteration"""
    n = 0
    for f in funcs:
        choices, harmful = analyse(ctx, f)
        n += 1
        for (node, why) in harmful:
            rep.violates(rule + '.cutoff', f, node, why)
        if not harmful and not choices:
            rep.holds(rule, f, 'def ' + f.name, 'PROVEN-INDEPENDENT: every iteration over an unordered collection feeds only order-insensitive consumers')
        elif not harmful:
            if must:
                for (node, why) in choices:
                    rep.violates(rule, f, node, 'the value returned by {} depends on set iteration order: {}'.format(f.name, why))
            else:
                rep.holds(rule + '.choice', f, 'def ' + f.name, '{} choice point(s) enumerated (representation may depend on order; independence of the language is not decided): {}'.format(
                    len(choices), '; '.join(sorted({norm(c[0])[:50] for c in choices}))[:300]), nontrivial=True)
    return n
