"""R-DISPATCH -- dispatch tables are exhaustive and agree."""
import ast

from ..astutil import u, names_in, walk_no_nested, atoms_of
from ..model import norm

RULE = 'R-DISPATCH'
REGEXP_LEAVES = ['Zero', 'One', 'Symbol', 'Iteration', 'Sum', 'Concat']
REGEXP_FIELDS = {'Zero': set(), 'One': set(), 'Symbol': {'symbol'}, 'Iteration': {'operand'}, 'Sum': {'left', 'right'}, 'Concat': {'left', 'right'}}
KINDS = ['DFA', 'NFA', 'PDA', 'TM', 'CFG', 'Regexp']
EXT_KIND = {'.dfa': 'DFA', '.nfa': 'NFA', '.pda': 'PDA', '.tm': 'TM', '.cfg': 'CFG', '.regexp': 'Regexp'}
PARSER_KIND = {'parse_dfa': 'DFA', 'parse_nfa': 'NFA', 'parse_pda': 'PDA', 'parse_tm': 'TM', 'parse_simple_cfg': 'CFG', 'parse_simple_regexp': 'Regexp'}


def _isinstance_classes(ctx, f, test, var=None):
    """[(variable text, [class names])] for isinstance tests in a condition"""
    out = []
    for n in ast.walk(test):
        if isinstance(n, ast.Call) and isinstance(n.func, ast.Name) and n.func.id == 'isinstance' and len(n.args) == 2:
            k = n.args[1]
            ks = list(k.elts) if isinstance(k, ast.Tuple) else [k]
            names = []
            for x in ks:
                r = ctx.prog.resolve_expr(f, f.module, x)
                if r is not None and r.kind == 'class':
                    names.append((r.target.name, r.target.module.base))
                else:
                    names.append((u(x), None))
            out.append((u(n.args[0]), names))
    return out


def _terminates(body):
    return bool(body) and isinstance(body[-1], (ast.Return, ast.Raise, ast.Continue, ast.Break))


def _if_chain(node, parent_body=None):
    """[(test or None, body)] of an if/elif/else chain.  With parent_body, a run of consecutive `if c: ...; return`
    statements (early-return style) counts as one chain, the statements after the last of them as its else part."""
    out = []
    cur = node
    while True:
        out.append((cur.test, cur.body))
        if len(cur.orelse) == 1 and isinstance(cur.orelse[0], ast.If):
            cur = cur.orelse[0]
            continue
        if cur.orelse:
            out.append((None, cur.orelse))
            break
        if parent_body is not None and _terminates(cur.body) and any(x is (node if len(out) == 1 else cur) for x in parent_body):
            idx = [i for i, x in enumerate(parent_body) if x is cur]
            if idx and idx[0] + 1 < len(parent_body):
                nxt = parent_body[idx[0] + 1]
                if isinstance(nxt, ast.If):
                    cur = nxt
                    continue
                out.append((None, parent_body[idx[0] + 1:]))
        break
    return out


def regexp_recursions(ctx):
    """functions that dispatch on at least three Regexp leaf classes of one variable"""
    out = []
    for f in ctx.prog.functions.values():
        if f.module.name.startswith('template:') or f.module.base[:-3] not in ('regexp', 'regexp_algorithms'):
            continue
        for st in f.node.body:
            if isinstance(st, ast.If):
                chain = _if_chain(st, f.node.body)
                tested = set()
                for t, _ in chain:
                    if t is not None:
                        for var, names in _isinstance_classes(ctx, f, t):
                            for nm, mod in names:
                                if nm in REGEXP_LEAVES and mod == 'regexp.py':
                                    tested.add(nm)
                if len(tested) >= 3:
                    out.append((f, st))
                    break
    return out


def check_regexp_recursion(ctx, rep, f, st):
    chain = _if_chain(st, f.node.body)
    tested = set()
    var = None
    for (t, body) in chain:
        if t is None:
            continue
        tests = _isinstance_classes(ctx, f, t)
        if not tests:
            continue
        var = tests[0][0]
        names = [nm for nm, mod in tests[0][1]]
        not_regexp = [nm for nm, mod in tests[0][1] if mod != 'regexp.py']
        if not_regexp:
            rep.violates(RULE + '.a', f, t, 'the dispatch tests {} which is not a regular-expression class of regexp.py (name clash with the automaton Symbol?)'.format(not_regexp))
        tested |= set(names)
        allowed = set.intersection(*[REGEXP_FIELDS.get(nm, set()) for nm in names]) if names else set()
        used = set()
        for b in body:
            for a in ast.walk(b):
                if isinstance(a, ast.Attribute) and u(a.value) == var:
                    used.add(a.attr)
        bad = used - allowed
        if bad:
            rep.violates(RULE + '.a', f, t, 'the branch for {} reads {}.{} which {} does not have'.format('/'.join(names), var, sorted(bad)[0], '/'.join(names)))
        else:
            rep.holds(RULE + '.a', f, t, 'branch for {} touches only the fields of that class ({})'.format('/'.join(names), sorted(used) or 'none'), nontrivial=bool(used))
    missing = [k for k in REGEXP_LEAVES if k not in tested]
    has_else_raise = chain[-1][0] is None and any(isinstance(x, ast.Raise) for x in chain[-1][1])
    tail_raise = False
    idx = f.node.body.index(st)
    for later in f.node.body[idx + 1:]:
        if isinstance(later, ast.Raise):
            tail_raise = True
    # a catch-all: an else branch / a statement after the chain that returns a value handles the remaining constructors
    def _returns_value(stmts):
        return any(isinstance(x, ast.Return) and x.value is not None and not (isinstance(x.value, ast.Constant) and x.value.value is None) for s0 in stmts for x in ast.walk(s0))
    catch_all = (chain[-1][0] is None and _returns_value(chain[-1][1]) and not has_else_raise) or (not tail_raise and _returns_value(f.node.body[idx + 1:]) and
                                                                                                 all(any(isinstance(x, (ast.Return, ast.Raise)) for x in ast.walk(ast.Module(body=list(b), type_ignores=[]))) for t0, b in chain if t0 is not None))
    if not missing:
        rep.holds(RULE + '.a', f, 'def ' + f.name, 'all six regular-expression constructors are handled')
    elif catch_all:
        rep.holds(RULE + '.a', f, 'def ' + f.name, 'the constructors {} fall to the catch-all return of the function'.format(missing), nontrivial=False)
    elif has_else_raise or tail_raise:
        rep.violates(RULE + '.a', f, 'def ' + f.name, 'the constructor(s) {} are not handled: the function raises for valid expressions'.format(missing))
    else:
        rep.violates(RULE + '.a', f, 'def ' + f.name, 'the constructor(s) {} are not handled: the function silently returns None for valid expressions'.format(missing))
    # the generator maps operators to the matching building blocks
    return len(tested)


class _Undecided(Exception):
    pass


def _class_case_return(f, var, K):
    """the statement that ends a run of f when `var` is an instance of class K (and of no other leaf class), with the
    local single assignments seen on the way; isinstance tests on var are evaluated, any other test is undecided"""
    env = {}

    def truth(t):
        if isinstance(t, ast.UnaryOp) and isinstance(t.op, ast.Not):
            return not truth(t.operand)
        if isinstance(t, ast.BoolOp):
            vals = [truth(v) for v in t.values]
            return all(vals) if isinstance(t.op, ast.And) else any(vals)
        if isinstance(t, ast.Call) and isinstance(t.func, ast.Name) and t.func.id == 'isinstance' and len(t.args) == 2 and u(t.args[0]) == var:
            elts = t.args[1].elts if isinstance(t.args[1], ast.Tuple) else [t.args[1]]
            names = [u(x).split('.')[-1] for x in elts]
            return K in names or 'Regexp' in names
        raise _Undecided('condition ' + u(t))

    def run(stmts):
        for st in stmts:
            if isinstance(st, ast.Assign) and len(st.targets) == 1 and isinstance(st.targets[0], ast.Name):
                env[st.targets[0].id] = st.value
                continue
            if isinstance(st, ast.If):
                r = run(st.body) if truth(st.test) else run(st.orelse)
                if r is not None:
                    return r
                continue
            if isinstance(st, (ast.Return, ast.Raise)):
                return st
            if isinstance(st, (ast.Expr, ast.Pass, ast.Assert, ast.Import, ast.ImportFrom)):
                continue
            raise _Undecided('statement ' + type(st).__name__)
        return None
    return run(f.node.body), env


def check_generator_mapping(ctx, rep, f):
    """RegexpToNFAGenerator.generate: Iteration -> nfa_repetition, Sum -> nfa_union, Concat -> nfa_concatenation, with the
    sub-automata generated from the matching children in order and the private generator passed on.  Decided per class of
    the node by following the body with the isinstance tests evaluated (any arrangement of the tests gives the same cases)."""
    want = {'Iteration': ('nfa_repetition', ['operand']), 'Sum': ('nfa_union', ['left', 'right']), 'Concat': ('nfa_concatenation', ['left', 'right']),
            'Zero': ('generate_zero', []), 'One': ('generate_one', []), 'Symbol': ('generate_symbol', None)}
    params = [p for p in f.params if p != 'self']
    if not params:
        return
    var = params[0]
    for k, (wname, wfields) in want.items():
        try:
            end, env = _class_case_return(f, var, k)
        except _Undecided as e:
            rep.undecided(RULE + '.a', f, 'case ' + k, 'body outside the fragment: {}'.format(e))
            continue
        if end is None or isinstance(end, ast.Raise) or end.value is None:
            rep.violates(RULE + '.a', f, 'case ' + k, 'a {} node is not translated (the function {} for it)'.format(k, 'raises' if isinstance(end, ast.Raise) else 'returns nothing'))
            continue
        call = end.value
        if isinstance(call, ast.Name) and call.id in env:
            call = env[call.id]
        if not isinstance(call, ast.Call):
            rep.undecided(RULE + '.a', f, end, 'the {} case does not return a call'.format(k))
            continue
        callee = ctx.callee_name(f, call)
        if callee != wname:
            rep.violates(RULE + '.a', f, end, 'the {} case is translated with {} instead of {}'.format(k, callee, wname))
            continue
        if wfields:
            got = []
            for a in call.args[:len(wfields)]:
                a = env.get(a.id, a) if isinstance(a, ast.Name) else a
                m = [x for x in ast.walk(a) if isinstance(x, ast.Attribute) and u(x.value) == var]
                got.append(m[0].attr if m else None)
            if got != wfields:
                rep.violates(RULE + '.a', f, end, 'the sub-automata of {} are generated from {} instead of {} in this order'.format(k, got, wfields))
                continue
            if wname in ('nfa_repetition', 'nfa_union'):
                passed = [u(a) for a in call.args[len(wfields):]] + [u(kw.value) for kw in call.keywords]
                if 'self.id_generator' not in passed:
                    rep.violates(RULE + '.a', f, end, 'the private name generator is not passed to {}: the new state comes from the shared default generator and can coincide with a state of the operands'.format(wname))
                    continue
        rep.holds(RULE + '.a', f, end, '{} is translated with {}{}'.format(k, wname, ' on ' + '/'.join(wfields) if wfields else ''))


def check_kind_dispatch(ctx, rep, f, suffix, rule=RULE + '.b'):
    """isinstance(X, K) branches call the K-specific routine (<k>_<suffix>) whose first parameter is annotated K"""
    seen = set()
    for st in walk_no_nested(f.node):
        if not isinstance(st, ast.If):
            continue
        chain = _if_chain(st)
        if len(chain) < 4:
            continue
        for (t, body) in chain:
            if t is None:
                continue
            tests = _isinstance_classes(ctx, f, t)
            ks = [nm for var, names in tests for nm, mod in names if nm in KINDS]
            if len(ks) != 1:
                continue
            k = ks[0]
            calls = [c for b in body for c in ast.walk(b) if isinstance(c, ast.Call)]
            target = None
            for c in calls:
                cal = ctx.callee(f, c)
                if cal is not None and cal.name.endswith(suffix):
                    target = (c, cal)
            if target is None:
                rep.violates(rule, f, t, 'the {} branch does not call a *{} routine'.format(k, suffix))
                continue
            c, cal = target
            t0 = ctx.typer.parse_annotation(cal.module, cal, cal.pos_params[0].annotation) if cal.pos_params else None
            kname = t0[1].split('.')[-1] if t0 and t0[0] == 'cls' else None
            seen.add(k)
            if kname == k:
                rep.holds(rule, f, c, '{} objects are sent to {} (first parameter annotated {})'.format(k, cal.name, k))
            else:
                rep.violates(rule, f, c, '{} objects are sent to {}, whose first parameter is a {}'.format(k, cal.name, kname))
        break
    if not seen:
        # table form:  table = ((K1, f1), (K2, f2), ...) ; for cls, fn in table: if isinstance(X, cls): return fn(X, ...)
        for lp in walk_no_nested(f.node):
            if not (isinstance(lp, ast.For) and isinstance(lp.target, ast.Tuple) and len(lp.target.elts) == 2 and all(isinstance(x, ast.Name) for x in lp.target.elts)):
                continue
            kvar, fvar = lp.target.elts[0].id, lp.target.elts[1].id
            uses_k = any(isinstance(c, ast.Call) and isinstance(c.func, ast.Name) and c.func.id == 'isinstance' and len(c.args) == 2 and u(c.args[1]) == kvar for c in ast.walk(lp))
            uses_f = any(isinstance(c, ast.Call) and isinstance(c.func, ast.Name) and c.func.id == fvar for c in ast.walk(lp))
            if not (uses_k and uses_f):
                continue
            table = lp.iter
            if isinstance(table, ast.Name):
                defs = []
                g0 = f
                while g0 is not None and not defs:
                    # the table may be a local of an enclosing function (the dispatcher is a nested helper)
                    defs = [n.value for n in walk_no_nested(g0.node) if isinstance(n, ast.Assign) and len(n.targets) == 1 and isinstance(n.targets[0], ast.Name) and n.targets[0].id == table.id]
                    g0 = g0.parent
                if len(defs) != 1:
                    continue
                table = defs[0]
            if not isinstance(table, (ast.Tuple, ast.List)):
                continue
            for row in table.elts:
                if not (isinstance(row, ast.Tuple) and len(row.elts) == 2):
                    continue
                k = u(row.elts[0]).split('.')[-1]
                if k not in KINDS:
                    continue
                r = ctx.prog.resolve_expr(f, f.module, row.elts[1]) if isinstance(row.elts[1], (ast.Name, ast.Attribute)) else None
                cal = r.target if r is not None and r.kind == 'func' else None
                if cal is None or not cal.name.endswith(suffix):
                    rep.violates(rule, f, row, 'the table row for {} does not name a *{} routine'.format(k, suffix))
                    continue
                t0 = ctx.typer.parse_annotation(cal.module, cal, cal.pos_params[0].annotation) if cal.pos_params else None
                kname = t0[1].split('.')[-1] if t0 and t0[0] == 'cls' else None
                seen.add(k)
                if kname == k:
                    rep.holds(rule, f, row, '{} objects are sent to {} (first parameter annotated {})'.format(k, cal.name, k))
                else:
                    rep.violates(rule, f, row, '{} objects are sent to {}, whose first parameter is a {}'.format(k, cal.name, kname))
            break
    missing = [k for k in KINDS if k not in seen]
    if missing:
        rep.violates(rule, f, 'def ' + f.name, 'no branch for {}'.format(missing))
    else:
        rep.holds(rule, f, 'def ' + f.name, 'all six kinds are dispatched')
    return len(seen)


def ext_table(ctx, f):
    """extension -> parser name, from `filename.endswith('.x')` chains"""
    table = {}
    for st in walk_no_nested(f.node):
        if isinstance(st, ast.If):
            for (t, body) in _if_chain(st, f.node.body):
                if t is None:
                    continue
                ext = None
                for n in ast.walk(t):
                    if isinstance(n, ast.Call) and isinstance(n.func, ast.Attribute) and n.func.attr == 'endswith' and n.args and isinstance(n.args[0], ast.Constant):
                        ext = n.args[0].value
                if ext is None:
                    continue
                name = None
                for b in body:
                    for r in ast.walk(b):
                        if isinstance(r, ast.Return) and r.value is not None:
                            v = r.value
                            if isinstance(v, ast.Call):
                                name = ctx.callee_name(f, v)
                            elif isinstance(v, ast.Name):
                                name = v.id
                table.setdefault(ext, name)
            break
    return table


def check_ext_tables(ctx, rep, fs, rule=RULE + '.b'):
    tables = [(f, ext_table(ctx, f)) for f in fs]
    for f, tb in tables:
        for ext, kind in EXT_KIND.items():
            got = tb.get(ext)
            if got is None:
                rep.violates(rule, f, "endswith('{}')".format(ext), 'files with extension {} are not handled'.format(ext))
            elif PARSER_KIND.get(got) == kind:
                rep.holds(rule, f, "endswith('{}')".format(ext), '{} files are parsed with {}'.format(ext, got))
            else:
                rep.violates(rule, f, "endswith('{}')".format(ext), '{} files are parsed with {} (a {} parser) instead of the {} parser'.format(ext, got, PARSER_KIND.get(got), kind))
    if len(tables) == 2 and tables[0][1] != tables[1][1]:
        rep.violates(rule, tables[0][0], 'sibling tables', 'the extension tables of {} and {} disagree'.format(tables[0][0].name, tables[1][0].name))
    elif len(tables) == 2:
        rep.holds(rule, tables[0][0], 'sibling tables', 'the two extension tables agree')


def command_table(ctx, f):
    """apply_command: command literal -> (arity kind, n, branch test node)"""
    out = {}
    for st in f.node.body:
        if isinstance(st, ast.If):
            for (t, body) in _if_chain(st, f.node.body):
                if t is None:
                    continue
                lits = []
                for a in atoms_of(t, True):
                    if a[0] == 'eq' and a[1] == 'command' and a[3] is True:
                        lits.append(a[2].strip("'\""))
                    if a[0] == 'in' and a[1] == 'command' and a[3] is True:
                        try:
                            lst = ast.literal_eval(a[2])
                            lits += list(lst)
                        except (ValueError, SyntaxError):
                            # command in TABLE, with TABLE a module-level (or local) literal: the keys / elements
                            if a[2].isidentifier():
                                for src in (f.node, f.module.tree):
                                    for n0 in (walk_no_nested(src) if src is f.node else src.body):
                                        if isinstance(n0, ast.Assign) and len(n0.targets) == 1 and isinstance(n0.targets[0], ast.Name) and n0.targets[0].id == a[2]:
                                            v0 = n0.value
                                            elts = v0.keys if isinstance(v0, ast.Dict) else (v0.elts if isinstance(v0, (ast.Tuple, ast.List, ast.Set)) else [])
                                            lits += [x.value for x in elts if isinstance(x, ast.Constant) and isinstance(x.value, str)]
                    if a[0] == 'eq' and a[1] == 'command' and a[2] == 'None':
                        lits.append(None)
                if not lits:
                    continue
                exact = None
                maxidx = -1
                for b in body:
                    for n in ast.walk(b):
                        if isinstance(n, ast.Assign) and isinstance(n.targets[0], ast.Tuple) and u(n.value) == 'arguments':
                            exact = len(n.targets[0].elts)
                        if isinstance(n, ast.Subscript) and u(n.value) == 'arguments' and isinstance(n.slice, ast.Constant):
                            maxidx = max(maxidx, n.slice.value)
                for l in lits:
                    out.setdefault(l, (exact, maxidx + 1, t))
    return out


def check_templates(ctx, rep, rule=RULE + '.c'):
    f = ctx.prog.func('make_notebook.apply_command')
    table = command_table(ctx, f)
    n = 0
    for base, t in sorted(ctx.prog.templates.items()):
        for tag in t.tags:
            cmd = tag['command']
            if cmd is None:
                continue
            n += 1
            if cmd not in table:
                rep.violates(rule, base, tag['raw'], 'the template uses the command {} which apply_command does not know: generating the notebook raises'.format(cmd))
                continue
            exact, atleast, _ = table[cmd]
            k = len(tag['args'])
            if exact is not None and exact != k:
                rep.violates(rule, base, tag['raw'], 'the command {} unpacks exactly {} arguments but the template passes {}'.format(cmd, exact, k))
            elif k < atleast:
                rep.violates(rule, base, tag['raw'], 'the command {} reads {} arguments but the template passes {}'.format(cmd, atleast, k))
            else:
                rep.holds(rule, base, tag['raw'], 'command {} has a branch of matching arity'.format(cmd))
        # checker calls resolve through the template's imports with compatible arity
        m = t.module
        lambdas = {st.targets[0].id: st.value for st in m.tree.body if isinstance(st, ast.Assign) and isinstance(st.value, ast.Lambda) and isinstance(st.targets[0], ast.Name)}
        calls = []
        for st in m.tree.body:
            if isinstance(st, ast.Expr) and isinstance(st.value, ast.Call):
                calls.append(st.value)
        for lam in lambdas.values():
            if isinstance(lam.body, ast.Call):
                calls.append(lam.body)
        for c in calls:
            fn = c.func
            if isinstance(fn, ast.Name) and fn.id in lambdas:
                lam = lambdas[fn.id]
                if len(lam.args.args) != len(c.args):
                    rep.violates(rule, base, c, 'the helper {} takes {} arguments but is called with {}'.format(fn.id, len(lam.args.args), len(c.args)))
                continue
            r = ctx.prog.resolve_expr(None, m, fn) if isinstance(fn, (ast.Name, ast.Attribute)) else None
            n += 1
            if r is None or r.kind not in ('func',):
                if r is not None and r.kind == 'builtin':
                    continue
                rep.violates(rule, base, c, 'the call {} does not resolve to a library function through the imports of the template'.format(u(fn)))
                continue
            g = r.target
            npos = len(g.pos_params)
            nreq = npos - len([p for p in g.pos_params if p.arg in g.defaults])
            k = len(c.args)
            if nreq <= k <= npos:
                rep.holds(rule, base, c, '{} resolves to {} and is called with {} of {}..{} arguments'.format(u(fn), g.short, k, nreq, npos))
            else:
                rep.violates(rule, base, c, '{} takes {}..{} positional arguments but the template passes {}'.format(g.short, nreq, npos, k))
    return n
