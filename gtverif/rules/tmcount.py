"""R-TM.count -- a counter abstraction of the two Turing-machine loops, evaluated in the analyser.

The loop of tm_accepts_word / tm_simulate_word is extracted from the syntax tree and run on an abstract store that holds
only integers and LENGTHS of lists (the tape, the states and the transition table are not represented; nothing of the
repository is executed).  The halting tests are fixed by the scenario "the machine never halts"; every other condition
that the store cannot decide forks.  For the budgets k = 0..3 the number of step calls on every path must be exactly k:
more steps than the budget is a run the caller did not pay for (and a trace longer than the verdict loop's run), fewer
is an `undecided` that is not one."""
import ast

from ..abseval import Unsupported
from ..astutil import u

RULE = 'R-TM.count'
STEP = 'tm_do_transition'
UNK = ('unk',)
MAXPATHS = 400


def _has_step(node):
    return any(isinstance(c, ast.Call) and isinstance(c.func, ast.Name) and c.func.id == STEP for c in ast.walk(node))


class _Path:
    __slots__ = ('env', 'steps')

    def __init__(self, env, steps):
        self.env = env
        self.steps = steps

    def copy(self):
        return _Path(dict(self.env), self.steps)


def _val(e, env):
    if isinstance(e, ast.Constant):
        if isinstance(e.value, bool):
            return e.value
        if isinstance(e.value, int):
            return e.value
        return UNK
    if isinstance(e, ast.Name):
        return env.get(e.id, UNK)
    if isinstance(e, ast.List):
        return ('list', len(e.elts))
    if isinstance(e, ast.BinOp) and isinstance(e.op, (ast.Add, ast.Sub, ast.Mult)):
        a, b = _val(e.left, env), _val(e.right, env)
        if isinstance(a, int) and isinstance(b, int) and not isinstance(a, bool) and not isinstance(b, bool):
            return a + b if isinstance(e.op, ast.Add) else (a - b if isinstance(e.op, ast.Sub) else a * b)
        return UNK
    if isinstance(e, ast.Call) and isinstance(e.func, ast.Name) and e.func.id == 'len' and len(e.args) == 1:
        v = _val(e.args[0], env)
        if isinstance(v, tuple) and v[0] == 'list':
            return v[1]
        return UNK
    if isinstance(e, ast.Call) and isinstance(e.func, ast.Name) and e.func.id in ('max', 'min') and e.args:
        vs = [_val(a, env) for a in e.args]
        if all(isinstance(v, int) and not isinstance(v, bool) for v in vs):
            return max(vs) if e.func.id == 'max' else min(vs)
        return UNK
    return UNK


def _halting_atom(e):
    t = u(e)
    return 'q_accept' in t or 'q_reject' in t


def _cond(e, env):
    """True / False / None (undecided by the store)"""
    if isinstance(e, ast.Constant):
        return bool(e.value)
    if isinstance(e, ast.UnaryOp) and isinstance(e.op, ast.Not):
        v = _cond(e.operand, env)
        return None if v is None else (not v)
    if isinstance(e, ast.BoolOp):
        vs = [_cond(v, env) for v in e.values]
        if isinstance(e.op, ast.And):
            if any(v is False for v in vs):
                return False
            return True if all(v is True for v in vs) else None
        if any(v is True for v in vs):
            return True
        return False if all(v is False for v in vs) else None
    if isinstance(e, ast.Compare) and len(e.ops) == 1:
        op = e.ops[0]
        if _halting_atom(e):
            # scenario: the machine never reaches a halting state
            if isinstance(op, (ast.Eq, ast.In, ast.Is)):
                return False
            if isinstance(op, (ast.NotEq, ast.NotIn, ast.IsNot)):
                return True
            return None
        a, b = _val(e.left, env), _val(e.comparators[0], env)
        if isinstance(a, int) and isinstance(b, int):
            return {ast.Eq: a == b, ast.NotEq: a != b, ast.Lt: a < b, ast.LtE: a <= b, ast.Gt: a > b, ast.GtE: a >= b}.get(type(op))
        return None
    if isinstance(e, ast.Name):
        v = env.get(e.id, UNK)
        if isinstance(v, bool):
            return v
        return None
    return None


def _assign(target, value, env):
    if isinstance(target, ast.Name):
        env[target.id] = value
    elif isinstance(target, (ast.Tuple, ast.List)):
        for t in target.elts:
            _assign(t, UNK, env)


def _run(stmts, paths, budget):
    """paths: list of _Path; returns (fall, brk, cont, ret) lists"""
    fall, brk, cont, ret = list(paths), [], [], []
    for st in stmts:
        if not fall:
            break
        if len(fall) + len(ret) > MAXPATHS:
            raise Unsupported('too many paths')
        nxt = []
        if isinstance(st, (ast.Assign, ast.AnnAssign)):
            val = st.value
            targets = st.targets if isinstance(st, ast.Assign) else [st.target]
            for p in fall:
                if val is not None and _has_step(val):
                    p.steps += 1
                    v = UNK
                else:
                    v = _val(val, p.env) if val is not None else UNK
                for t in targets:
                    _assign(t, v, p.env)
            continue
        if isinstance(st, ast.AugAssign):
            for p in fall:
                if _has_step(st.value):
                    p.steps += 1
                if isinstance(st.target, ast.Name):
                    a, b = p.env.get(st.target.id, UNK), _val(st.value, p.env)
                    if isinstance(a, int) and isinstance(b, int) and isinstance(st.op, (ast.Add, ast.Sub)):
                        p.env[st.target.id] = a + b if isinstance(st.op, ast.Add) else a - b
                    else:
                        p.env[st.target.id] = UNK
            continue
        if isinstance(st, ast.Expr):
            c = st.value
            for p in fall:
                if _has_step(c):
                    p.steps += 1
                if isinstance(c, ast.Call) and isinstance(c.func, ast.Attribute) and isinstance(c.func.value, ast.Name):
                    v = p.env.get(c.func.value.id, UNK)
                    if isinstance(v, tuple) and v[0] == 'list':
                        if c.func.attr == 'append':
                            p.env[c.func.value.id] = ('list', v[1] + 1)
                        elif c.func.attr in ('pop', 'remove'):
                            p.env[c.func.value.id] = ('list', v[1] - 1)
                        elif c.func.attr in ('extend', 'clear', 'insert'):
                            p.env[c.func.value.id] = UNK
            continue
        if isinstance(st, ast.If):
            t_paths, e_paths = [], []
            for p in fall:
                v = _cond(st.test, p.env)
                if v is True:
                    t_paths.append(p)
                elif v is False:
                    e_paths.append(p)
                else:
                    t_paths.append(p)
                    e_paths.append(p.copy())
            f1, b1, c1, r1 = _run(st.body, t_paths, budget)
            f2, b2, c2, r2 = _run(st.orelse, e_paths, budget)
            fall = f1 + f2
            brk += b1 + b2
            cont += c1 + c2
            ret += r1 + r2
            continue
        if isinstance(st, ast.For):
            out = []
            it = st.iter
            n = None
            if isinstance(it, ast.Call) and isinstance(it.func, ast.Name) and it.func.id == 'range' and len(it.args) == 1:
                pass
            elif _has_step(st):
                raise Unsupported('step call inside a loop over {}'.format(u(it)))
            for p in fall:
                if isinstance(it, ast.Call) and isinstance(it.func, ast.Name) and it.func.id == 'range' and len(it.args) == 1:
                    n = _val(it.args[0], p.env)
                    if not isinstance(n, int):
                        raise Unsupported('range({}) not known'.format(u(it.args[0])))
                    cur = [p]
                    for i in range(max(n, 0)):
                        for q in cur:
                            _assign(st.target, i, q.env)
                        f1, b1, c1, r1 = _run(st.body, cur, budget)
                        ret += r1
                        out += b1
                        cur = f1 + c1
                        if not cur:
                            break
                    out += cur
                else:
                    # a loop without step calls: zero or one abstract iteration
                    q = p.copy()
                    _assign(st.target, UNK, q.env)
                    f1, b1, c1, r1 = _run(st.body, [q], budget)
                    ret += r1
                    out += [p] + f1 + b1 + c1
            fall = out
            continue
        if isinstance(st, ast.While):
            out = []
            cur = fall
            for i in range(budget + 6):
                stay, leave = [], []
                for p in cur:
                    v = _cond(st.test, p.env)
                    if v is True:
                        stay.append(p)
                    elif v is False:
                        leave.append(p)
                    else:
                        raise Unsupported('loop condition {} not decided by the counter store'.format(u(st.test)))
                out += leave
                if not stay:
                    cur = []
                    break
                f1, b1, c1, r1 = _run(st.body, stay, budget)
                ret += r1
                out += b1
                cur = f1 + c1
            if cur:
                raise Unsupported('while loop does not stop within {} rounds for budget {}'.format(budget + 6, budget))
            fall = out
            continue
        if isinstance(st, ast.Break):
            brk += fall
            fall = []
            continue
        if isinstance(st, ast.Continue):
            cont += fall
            fall = []
            continue
        if isinstance(st, (ast.Return, ast.Raise)):
            for p in fall:
                if isinstance(st, ast.Return) and st.value is not None and _has_step(st.value):
                    p.steps += 1
            ret += fall
            fall = []
            continue
        if isinstance(st, (ast.Pass, ast.Assert, ast.Import, ast.ImportFrom, ast.FunctionDef)):
            continue
        if isinstance(st, ast.Try):
            f1, b1, c1, r1 = _run(st.body, fall, budget)
            fall, brk, cont, ret = f1, brk + b1, cont + c1, ret + r1
            continue
        raise Unsupported('statement {}'.format(type(st).__name__))
    return fall, brk, cont, ret


def check_step_count(ctx, rep, f, param='max_steps', rule=RULE):
    if param not in f.params:
        rep.undecided(rule, f, 'def ' + f.name, 'no parameter {}'.format(param))
        return 0
    if not _has_step(f.node):
        rep.undecided(rule, f, 'def ' + f.name, 'no call of {}'.format(STEP))
        return 0
    bad = None
    counts = {}
    try:
        for k in range(0, 4):
            env = {param: k}
            fall, brk, cont, ret = _run(f.node.body, [_Path(env, 0)], k)
            steps = sorted({p.steps for p in fall + ret + brk + cont})
            counts[k] = steps
            if steps != [k] and bad is None:
                bad = (k, steps)
    except Unsupported as e:
        rep.undecided(rule, f, 'def ' + f.name, 'loop outside the counter fragment: {}'.format(e))
        return 0
    if bad is None:
        rep.holds(rule, f, 'def ' + f.name, 'for the budgets 0..3 a machine that never halts is run for exactly {} = 0, 1, 2, 3 steps on every path'.format(param))
    else:
        k, steps = bad
        rep.violates(rule, f, 'def ' + f.name, 'with {} = {} a machine that never halts is run for {} step(s) instead of {}: the step budget is not the number of steps executed (the trace and the verdict of the bounded simulation disagree for that budget)'.format(
            param, k, ' or '.join(map(str, steps)), k))
    rep.extra.setdefault('tm_step_counts', {})[f.name] = {str(k): v for k, v in counts.items()}
    return 1
