"""R-TM.count -- a counter abstraction of the two Turing-machine loops, evaluated in the analyser.

The loop of tm_accepts_word / tm_simulate_word is extracted from the syntax tree and run on an abstract store that holds
only integers and LENGTHS of lists (the tape, the states and the transition table are not represented; nothing of the
repository is executed).  The halting tests are fixed by the scenario "the machine never halts"; every other condition
that the store cannot decide forks.  For the budgets k = 0..3 the number of step calls on every path must be exactly k:
more steps than the budget is a run the caller did not pay for (and a trace longer than the verdict loop's run), fewer
is an `undecided` that is not one."""
import ast

from ..abseval import Unsupported
from ..astutil import u

RULE = 'R-TM.count'
STEP = 'tm_do_transition'
UNK = ('unk',)
NONE = ('none',)
SCEN = {'kind': 'never', 'at': 0}
MAXPATHS = 400


def _has_step(node):
    return any(isinstance(c, ast.Call) and isinstance(c.func, ast.Name) and c.func.id == STEP for c in ast.walk(node))


class _Path:
    __slots__ = ('env', 'steps', 'ret', 'err', 'first')

    def __init__(self, env, steps):
        self.env = env
        self.steps = steps
        self.ret = UNK
        self.err = None
        self.first = None

    def copy(self):
        q = _Path(dict(self.env), self.steps)
        q.ret, q.err, q.first = self.ret, self.err, self.first
        return q

    def step(self):
        if self.first is None:
            self.first = {k: v[1] for k, v in self.env.items() if isinstance(v, tuple) and v[0] == 'list'}
        # the step function raises when it is called in a halting state
        if SCEN['kind'] != 'never' and self.steps >= SCEN['at'] and self.err is None:
            self.err = 'the step function is called although the machine is in its {} state after {} step(s)'.format('accepting' if SCEN['kind'] == 'accept' else 'rejecting', SCEN['at'])
        self.steps += 1


def _val(e, env):
    if isinstance(e, ast.Constant):
        if isinstance(e.value, bool):
            return e.value
        if isinstance(e.value, int):
            return e.value
        if e.value is None:
            return NONE
        return UNK
    if isinstance(e, ast.Name):
        return env.get(e.id, UNK)
    if isinstance(e, ast.List):
        return ('list', len(e.elts))
    if isinstance(e, (ast.ListComp,)) and len(e.generators) == 1 and not e.generators[0].ifs:
        src = _val(e.generators[0].iter, env)
        if isinstance(src, tuple) and src[0] in ('str', 'list'):
            return ('list', src[1])
        return UNK
    if isinstance(e, ast.Call) and isinstance(e.func, ast.Name) and e.func.id == 'list' and len(e.args) == 1:
        src = _val(e.args[0], env)
        if isinstance(src, tuple) and src[0] in ('str', 'list'):
            return ('list', src[1])
        return UNK
    if isinstance(e, ast.Subscript) and isinstance(e.slice, ast.Slice) and e.slice.lower is None and e.slice.upper is None:
        return _val(e.value, env)
    if isinstance(e, ast.BinOp) and isinstance(e.op, (ast.Add, ast.Sub, ast.Mult)):
        a, b = _val(e.left, env), _val(e.right, env)
        if isinstance(a, int) and isinstance(b, int) and not isinstance(a, bool) and not isinstance(b, bool):
            return a + b if isinstance(e.op, ast.Add) else (a - b if isinstance(e.op, ast.Sub) else a * b)
        return UNK
    if isinstance(e, ast.Call) and isinstance(e.func, ast.Name) and e.func.id == 'len' and len(e.args) == 1:
        v = _val(e.args[0], env)
        if isinstance(v, tuple) and v[0] in ('list', 'str'):
            return v[1]
        return UNK
    if isinstance(e, ast.Call) and isinstance(e.func, ast.Name) and e.func.id in ('max', 'min') and e.args:
        vs = [_val(a, env) for a in e.args]
        if all(isinstance(v, int) and not isinstance(v, bool) for v in vs):
            return max(vs) if e.func.id == 'max' else min(vs)
        return UNK
    return UNK


def _halting_atom(e):
    t = u(e)
    return 'q_accept' in t or 'q_reject' in t


def _cond(e, env, steps=0):
    """True / False / None (undecided by the store)"""
    if isinstance(e, ast.Constant):
        return bool(e.value)
    if isinstance(e, ast.UnaryOp) and isinstance(e.op, ast.Not):
        v = _cond(e.operand, env, steps)
        return None if v is None else (not v)
    if isinstance(e, ast.BoolOp):
        vs = [_cond(v, env, steps) for v in e.values]
        if isinstance(e.op, ast.And):
            if any(v is False for v in vs):
                return False
            return True if all(v is True for v in vs) else None
        if any(v is True for v in vs):
            return True
        return False if all(v is False for v in vs) else None
    if isinstance(e, ast.Compare) and len(e.ops) == 1:
        op = e.ops[0]
        if _halting_atom(e):
            # the scenario fixes the halting tests: never / accepting after `at` steps / rejecting after `at` steps
            t = u(e)
            acc, rej = 'q_accept' in t, 'q_reject' in t
            halted = SCEN['kind'] != 'never' and steps >= SCEN['at']
            hit = halted and ((acc and SCEN['kind'] == 'accept') or (rej and SCEN['kind'] == 'reject'))
            if isinstance(op, (ast.Eq, ast.In, ast.Is)):
                return hit
            if isinstance(op, (ast.NotEq, ast.NotIn, ast.IsNot)):
                return not hit
            return None
        a, b = _val(e.left, env), _val(e.comparators[0], env)
        if isinstance(a, int) and isinstance(b, int):
            return {ast.Eq: a == b, ast.NotEq: a != b, ast.Lt: a < b, ast.LtE: a <= b, ast.Gt: a > b, ast.GtE: a >= b}.get(type(op))
        return None
    if isinstance(e, ast.Name):
        v = env.get(e.id, UNK)
        if isinstance(v, bool):
            return v
        if isinstance(v, tuple) and v[0] in ('list', 'str'):
            return v[1] > 0
        return None
    return None


def _assign(target, value, env):
    if isinstance(target, ast.Name):
        env[target.id] = value
    elif isinstance(target, (ast.Tuple, ast.List)):
        for t in target.elts:
            _assign(t, UNK, env)


def _run(stmts, paths, budget):
    """paths: list of _Path; returns (fall, brk, cont, ret) lists"""
    fall, brk, cont, ret = list(paths), [], [], []
    for st in stmts:
        if not fall:
            break
        if len(fall) + len(ret) > MAXPATHS:
            raise Unsupported('too many paths')
        nxt = []
        if isinstance(st, (ast.Assign, ast.AnnAssign)):
            val = st.value
            targets = st.targets if isinstance(st, ast.Assign) else [st.target]
            for p in fall:
                if val is not None and _has_step(val):
                    p.step()
                    v = UNK
                else:
                    v = _val(val, p.env) if val is not None else UNK
                for t in targets:
                    _assign(t, v, p.env)
            continue
        if isinstance(st, ast.AugAssign):
            for p in fall:
                if _has_step(st.value):
                    p.step()
                if isinstance(st.target, ast.Name):
                    a, b = p.env.get(st.target.id, UNK), _val(st.value, p.env)
                    if isinstance(a, int) and isinstance(b, int) and isinstance(st.op, (ast.Add, ast.Sub)):
                        p.env[st.target.id] = a + b if isinstance(st.op, ast.Add) else a - b
                    else:
                        p.env[st.target.id] = UNK
            continue
        if isinstance(st, ast.Expr):
            c = st.value
            for p in fall:
                if _has_step(c):
                    p.step()
                if isinstance(c, ast.Call) and isinstance(c.func, ast.Attribute) and isinstance(c.func.value, ast.Name):
                    v = p.env.get(c.func.value.id, UNK)
                    if isinstance(v, tuple) and v[0] == 'list':
                        if c.func.attr == 'append':
                            p.env[c.func.value.id] = ('list', v[1] + 1)
                        elif c.func.attr in ('pop', 'remove'):
                            p.env[c.func.value.id] = ('list', v[1] - 1)
                        elif c.func.attr in ('extend', 'clear', 'insert'):
                            p.env[c.func.value.id] = UNK
            continue
        if isinstance(st, ast.If):
            t_paths, e_paths = [], []
            for p in fall:
                v = _cond(st.test, p.env, p.steps)
                if v is True:
                    t_paths.append(p)
                elif v is False:
                    e_paths.append(p)
                else:
                    t_paths.append(p)
                    e_paths.append(p.copy())
            f1, b1, c1, r1 = _run(st.body, t_paths, budget)
            f2, b2, c2, r2 = _run(st.orelse, e_paths, budget)
            fall = f1 + f2
            brk += b1 + b2
            cont += c1 + c2
            ret += r1 + r2
            continue
        if isinstance(st, ast.For):
            out = []
            it = st.iter
            n = None
            if isinstance(it, ast.Call) and isinstance(it.func, ast.Name) and it.func.id == 'range' and len(it.args) == 1:
                pass
            elif _has_step(st):
                raise Unsupported('step call inside a loop over {}'.format(u(it)))
            for p in fall:
                if isinstance(it, ast.Call) and isinstance(it.func, ast.Name) and it.func.id == 'range' and len(it.args) == 1:
                    n = _val(it.args[0], p.env)
                    if not isinstance(n, int):
                        raise Unsupported('range({}) not known'.format(u(it.args[0])))
                    cur = [p]
                    for i in range(max(n, 0)):
                        for q in cur:
                            _assign(st.target, i, q.env)
                        f1, b1, c1, r1 = _run(st.body, cur, budget)
                        ret += r1
                        out += b1
                        cur = f1 + c1
                        if not cur:
                            break
                    out += cur
                else:
                    # a loop without step calls: zero or one abstract iteration
                    q = p.copy()
                    _assign(st.target, UNK, q.env)
                    f1, b1, c1, r1 = _run(st.body, [q], budget)
                    ret += r1
                    out += [p] + f1 + b1 + c1
            fall = out
            continue
        if isinstance(st, ast.While):
            out = []
            cur = fall
            for i in range(budget + 6):
                stay, leave = [], []
                for p in cur:
                    v = _cond(st.test, p.env, p.steps)
                    if v is True:
                        stay.append(p)
                    elif v is False:
                        leave.append(p)
                    else:
                        raise Unsupported('loop condition {} not decided by the counter store'.format(u(st.test)))
                out += leave
                if not stay:
                    cur = []
                    break
                f1, b1, c1, r1 = _run(st.body, stay, budget)
                ret += r1
                out += b1
                cur = f1 + c1
            if cur:
                raise Unsupported('while loop does not stop within {} rounds for budget {}'.format(budget + 6, budget))
            fall = out
            continue
        if isinstance(st, ast.Break):
            brk += fall
            fall = []
            continue
        if isinstance(st, ast.Continue):
            cont += fall
            fall = []
            continue
        if isinstance(st, (ast.Return, ast.Raise)):
            for p in fall:
                if isinstance(st, ast.Return) and st.value is not None and _has_step(st.value):
                    p.step()
                if isinstance(st, ast.Return):
                    p.ret = _val(st.value, p.env) if st.value is not None else NONE
                else:
                    p.ret = ('raise',)
            ret += fall
            fall = []
            continue
        if isinstance(st, (ast.Pass, ast.Assert, ast.Import, ast.ImportFrom, ast.FunctionDef)):
            continue
        if isinstance(st, ast.Try):
            f1, b1, c1, r1 = _run(st.body, fall, budget)
            fall, brk, cont, ret = f1, brk + b1, cont + c1, ret + r1
            continue
        raise Unsupported('statement {}'.format(type(st).__name__))
    return fall, brk, cont, ret


def check_step_count(ctx, rep, f, param='max_steps', rule=RULE):
    if param not in f.params:
        rep.undecided(rule, f, 'def ' + f.name, 'no parameter {}'.format(param))
        return 0
    if not _has_step(f.node):
        rep.undecided(rule, f, 'def ' + f.name, 'no call of {}'.format(STEP))
        return 0
    bad = None
    counts = {}
    try:
        for k in range(0, 4):
            env = {param: k}
            fall, brk, cont, ret = _run(f.node.body, [_Path(env, 0)], k)
            steps = sorted({p.steps for p in fall + ret + brk + cont})
            counts[k] = steps
            if steps != [k] and bad is None:
                bad = (k, steps)
    except Unsupported as e:
        rep.undecided(rule, f, 'def ' + f.name, 'loop outside the counter fragment: {}'.format(e))
        return 0
    if bad is None:
        rep.holds(rule, f, 'def ' + f.name, 'for the budgets 0..3 a machine that never halts is run for exactly {} = 0, 1, 2, 3 steps on every path'.format(param))
    else:
        k, steps = bad
        rep.violates(rule, f, 'def ' + f.name, 'with {} = {} a machine that never halts is run for {} step(s) instead of {}: the step budget is not the number of steps executed (the trace and the verdict of the bounded simulation disagree for that budget)'.format(
            param, k, ' or '.join(map(str, steps)), k))
    rep.extra.setdefault('tm_step_counts', {})[f.name] = {str(k): v for k, v in counts.items()}
    return 1


def _check_scenarios_symbolic(ctx, rep, f, kind, param='max_steps', rule='R-TM.model'):
    """kind = 'verdict' (returns True / False / None) or 'trace' (returns the list of configurations).  For budgets k = 0..3
    and the scenarios never-halts / accepts after j steps / rejects after j steps (j = 0..3), on every path:
      the step function is never called in a halting state; the number of steps is min(j, k);
      verdict: True / False when j <= k, None otherwise;  trace: the list returned has steps + 1 entries."""
    if param not in f.params or not _has_step(f.node):
        rep.undecided(rule, f, 'def ' + f.name, 'no step budget / no step call')
        return 0
    bad = None
    runs = 0
    wparam = next((p_ for p_ in f.params if p_ in ('word', 'w')), None)
    tape_var = None
    for c in ast.walk(f.node):
        if isinstance(c, ast.Call) and isinstance(c.func, ast.Name) and c.func.id == STEP and len(c.args) >= 3 and isinstance(c.args[2], ast.Name):
            tape_var = c.args[2].id
    try:
        for k in range(0, 4):
            for sk, j in [('never', 0)] + [(x, j) for x in ('accept', 'reject') for j in range(0, 4)]:
              for n in (0, 2):
                SCEN['kind'], SCEN['at'] = sk, j
                env0 = {param: k}
                if wparam:
                    env0[wparam] = ('str', n)
                fall, brk, cont, ret = _run(f.node.body, [_Path(env0, 0)], k)
                halts = sk != 'never' and j <= k
                want_steps = j if halts else k
                for p in fall + ret + brk + cont:
                    runs += 1
                    if bad is not None:
                        break
                    desc = 'budget {}, a word of length {} and a machine that {}'.format(k, n, 'never halts' if sk == 'never' else '{}s after {} step(s)'.format(sk, j))
                    if tape_var and p.first is not None and p.first.get(tape_var) is not None and p.first[tape_var] != max(n, 1):
                        bad = 'with {} the tape handed to the first step has {} cell(s) instead of {} (the word, or one blank for the empty word)'.format(desc, p.first[tape_var], max(n, 1))
                    elif tape_var and p.first is not None and p.first.get(tape_var) is None:
                        raise Unsupported('length of the initial tape not tracked')
                    elif p.err:
                        bad = 'with {}: {}'.format(desc, p.err)
                    elif p.steps != want_steps:
                        bad = 'with {} the loop runs {} step(s) instead of {}'.format(desc, p.steps, want_steps)
                    elif kind == 'verdict':
                        want = (True if sk == 'accept' else False) if halts else NONE
                        if p.ret is UNK or (isinstance(p.ret, tuple) and p.ret and p.ret[0] == 'unk'):
                            raise Unsupported('the returned verdict is not tracked by the counter model')
                        if p.ret != want:
                            bad = 'with {} the verdict is {} instead of {}'.format(desc, 'None' if p.ret == NONE else p.ret, 'None' if want == NONE else want)
                    elif kind == 'trace':
                        if not (isinstance(p.ret, tuple) and p.ret[0] == 'list'):
                            raise Unsupported('length of the returned trace not tracked')
                        if p.ret[1] != want_steps + 1:
                            bad = 'with {} the trace has {} configurations instead of {} (initial configuration + one per step)'.format(desc, p.ret[1], want_steps + 1)
    except Unsupported as e:
        SCEN['kind'], SCEN['at'] = 'never', 0
        rep.undecided(rule, f, 'def ' + f.name, 'loop outside the counter fragment: {}'.format(e))
        return 0
    SCEN['kind'], SCEN['at'] = 'never', 0
    if bad is None:
        rep.holds(rule, f, 'def ' + f.name, 'counter model: for budgets 0..3 x scenarios (never halts, accepts / rejects after 0..3 steps) all {} paths take min(j, k) steps, never step in a halting state, and return the {}'.format(runs, 'right verdict (True / False / None)' if kind == 'verdict' else 'initial configuration plus one configuration per step'))
    else:
        rep.violates(rule, f, 'def ' + f.name, bad)
    return 1



def check_scenarios(ctx, rep, f, kind, param='max_steps', rule='R-TM.model'):
    """The bounded run of a Turing machine against ONE counter model, decided with the analyser's finite-model evaluator:
    the step function is replaced by a scripted machine (never halts / accepts after j steps / rejects after j steps,
    j = 0..3), the budget is k = 0..3 and the word has length 0 or 2.  Required on every run: the step function is never
    called in a halting state and never with a stale state, it is called min(j, k) times, the first call sees the tape
    "the word, or one blank for the empty word" and head 0; verdict: True / False when the machine halts within the budget,
    None otherwise; trace: the initial configuration plus one configuration per step, each recorded with its own copy of
    the tape.  The loop only counts and compares states, so these scenarios cover every interleaving of budget and
    halting time up to 3.  Outside the evaluator's fragment the symbolic counter model is used."""
    from ..miniexec import Interp, Obj, Raised
    if param not in f.params:
        return _check_scenarios_symbolic(ctx, rep, f, kind, param, rule)
    wparam = next((p_ for p_ in f.params if p_ in ('word', 'w')), None)
    bad = None
    runs = 0
    try:
        for k in range(0, 4):
            for sk, j in [('never', 0)] + [(x, j) for x in ('accept', 'reject') for j in range(0, 4)]:
                for word in ('', 'ab'):
                    log = {'calls': [], 'err': None}
                    halt_state = 'qa' if sk == 'accept' else 'qr'
                    start = halt_state if (sk != 'never' and j == 0) else 'q0'

                    def step(interp, args, kwargs, log=log, sk=sk, j=j, halt_state=halt_state):
                        T_, p_, tape_, head_ = (list(args) + [None] * 4)[:4]
                        n_ = len(log['calls'])
                        expect = 'q0' if n_ == 0 else 's%d' % n_
                        if p_ in ('qa', 'qr'):
                            log['err'] = 'the step function is called in the halting state {}'.format(p_)
                        elif p_ != expect and log['err'] is None:
                            log['err'] = 'step {} is taken from the state {} instead of the state the previous step returned'.format(n_ + 1, p_)
                        log['calls'].append((p_, list(tape_) if isinstance(tape_, list) else tape_, head_))
                        if isinstance(tape_, list) and tape_:
                            tape_[0] = 'w%d' % (n_ + 1)          # every step writes, so shared tape objects show up in a trace
                        nxt = halt_state if (sk != 'never' and n_ + 1 == j) else 's%d' % (n_ + 1)
                        return (nxt, 0)
                    T = Obj('TM', q0=start, q_accept='qa', q_reject='qr', blank='_', delta={}, Q=set(), Sigma={'a', 'b'}, Gamma={'a', 'b', '_'})
                    it = Interp(ctx, stubs={STEP: step})
                    kwargs = {param: k}
                    try:
                        r = it.call(f, [T, word], kwargs)
                    except Raised as ex:
                        bad = 'the function raises {} '.format(ex.name)
                        r = None
                    runs += 1
                    halts = sk != 'never' and j <= k
                    want_steps = j if halts else k
                    desc = 'budget {}, a word of length {} and a machine that {}'.format(k, len(word), 'never halts' if sk == 'never' else '{}s after {} step(s)'.format(sk, j))
                    if start != 'q0':
                        # a machine whose initial state is halting: the scripted states start at the halting state
                        pass
                    if bad:
                        bad = 'with {}: {}'.format(desc, bad)
                    elif log['err'] and not (start != 'q0' and 'instead of the state' in log['err']):
                        bad = 'with {}: {}'.format(desc, log['err'])
                    elif len(log['calls']) != want_steps:
                        bad = 'with {} the loop runs {} step(s) instead of {}'.format(desc, len(log['calls']), want_steps)
                    elif log['calls'] and (log['calls'][0][1] != (list(word) or ['_']) or log['calls'][0][2] != 0):
                        bad = 'with {} the first step sees the tape {} and head {} instead of {} and 0 (the word, or one blank for the empty word)'.format(desc, log['calls'][0][1], log['calls'][0][2], list(word) or ['_'])
                    elif kind == 'verdict':
                        want = (sk == 'accept') if halts else None
                        if r is not want and not (isinstance(r, bool) and isinstance(want, bool) and r == want):
                            bad = 'with {} the verdict is {} instead of {}'.format(desc, r, want)
                    elif kind == 'trace':
                        if not isinstance(r, list):
                            raise Unsupported('the trace is not a list')
                        if len(r) != want_steps + 1:
                            bad = 'with {} the trace has {} configurations instead of {} (initial configuration + one per step)'.format(desc, len(r), want_steps + 1)
                        else:
                            tapes = [c[1] for c in r if isinstance(c, tuple) and len(c) == 3]
                            if len(tapes) != len(r):
                                raise Unsupported('shape of a configuration')
                            if r[0][0] != start or r[0][1] != (list(word) or ['_']) or r[0][2] != 0:
                                bad = 'with {} the trace starts with {} instead of the initial configuration ({}, {}, 0)'.format(desc, r[0], start, list(word) or ['_'])
                            elif len({id(t) for t in tapes}) != len(tapes) or any(tapes[i][0] != ('w%d' % i) for i in range(1, len(tapes))):
                                bad = 'with {} the recorded configurations share one tape object (or record it before the step wrote): earlier rows of the trace change when the machine goes on'.format(desc)
                    if bad:
                        break
                if bad:
                    break
            if bad:
                break
    except Unsupported as e:
        rep.note('{}: finite-model evaluation not applicable ({}); symbolic counter model used'.format(f.short, e))
        return _check_scenarios_symbolic(ctx, rep, f, kind, param, rule)
    if bad is None:
        rep.holds(rule, f, 'def ' + f.name, 'counter model: for budgets 0..3 x scenarios (never halts, accepts / rejects after 0..3 steps) x word length 0 / 2 all {} runs take min(j, k) steps, never step in a halting state, and return the {}'.format(runs, 'right verdict (True / False / None)' if kind == 'verdict' else 'initial configuration plus one configuration per step, each with its own tape'))
    else:
        rep.violates(rule, f, 'def ' + f.name, bad)
    return 1
