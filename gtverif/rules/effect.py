"""R-EFFECT -- operands are not mutated (a), results do not share in-place-mutable state with
arguments (b), partial transition maps are read under a membership guard (c)."""
import ast

from ..astutil import u, walk_no_nested, expr_guard_atoms
from .models import resolve_alias
from ..effects import EL
from ..types import members

RULE = 'R-EFFECT'

PURE_MODULES = ['dfa_algorithms', 'nfa_algorithms', 'pda_algorithms', 'tm_algorithms', 'cfg_algorithms',
                'regexp_algorithms', 'language_algorithms', 'language_generator', 'dfa', 'nfa', 'pda', 'tm', 'cfg',
                'gnfa', 'regexp', 'printing', 'list_utility', 'algorithms', 'automaton']
OPERAND_CLASSES = {'DFA', 'NFA', 'PDA', 'TM', 'CFG', 'GNFA', 'Regexp', 'Zero', 'One', 'Symbol', 'Iteration', 'Sum', 'Concat',
                   'Rule', 'Alternative', 'Automaton', 'PDAState'}
# classes whose methods legitimately update their own state
STATEFUL_CLASSES = {'AutomatonBuilder', 'DFABuilder', 'NFABuilder', 'PDABuilder', 'TMBuilder', 'AutomatonParser',
                    'SimpleCFGParser', 'BaetenCFGParser', 'RegexpToNFAGenerator', 'IdentifierGenerator'}
# one symbol each, with the reason
ALLOW = {
    ('tm_algorithms.py:tm_do_transition', 'tape'): 'documented in-place step on a caller-owned tape (docstring: "The tape is modified")',
    ('list_utility.py:remove_if', 'seq'): 'list utility documented to filter in place; callers pass fresh lists (checked by rule a at each call site)',
}
PARTIAL_MAP_CLASSES = {'NFA', 'PDA', 'TM'}
# procedures whose contract is to work on the object they are handed (confirmed by reading; everything else that is reachable
# from the operations of a property is expected to leave its operands alone)
PROCEDURES = {
    'cfg_algorithms.py:cfg_put_start_variable_in_front': 'in-place step of cfg_eliminate_unit_rules_in_place',
    'nfa_algorithms.py:_add_nfa_transitions': 'fills the fresh transition map the constructions hand to it',
    'regexp_algorithms.py:gnfa_minimize': 'rips the states of the GNFA that dfa_to_regexp built for this purpose',
    'list_utility.py:remove_if': 'documented in-place filter',
}


def returns_value(f):
    for n in walk_no_nested(f.node):
        if isinstance(n, ast.Return) and n.value is not None and not (isinstance(n.value, ast.Constant) and n.value.value is None):
            return True
        if isinstance(n, (ast.Yield, ast.YieldFrom)):
            return True
    return False


def _cls_name(t):
    return t[1].split('.')[-1] if t and t[0] == 'cls' else None


def is_operand_type(ctx, t):
    if t is None:
        return True     # unannotated
    for m in members(t):
        if m[0] in ('set', 'list', 'dict', 'defaultdict', 'iter', 'any', 'tuple', 'frozenset'):
            return True
        if m[0] == 'cls' and _cls_name(m) in OPERAND_CLASSES:
            return True
    return False


def pure_functions(ctx, modules=PURE_MODULES):
    out = []
    for base in modules:
        try:
            m = ctx.prog.module(base)
        except Exception:
            continue
        for f in ctx.prog.funcs_of(base, nested=False):
            if f.name.endswith('_in_place') or f.name == '__init__':
                continue
            if f.cls is not None and (f.cls.name in STATEFUL_CLASSES or any(b.split('.')[-1] in STATEFUL_CLASSES for b in f.cls.base_names)):
                continue
            if f.cls is not None and f.cls.name.endswith('Visitor'):
                continue
            if not returns_value(f):
                continue
            if f.qualname in procedure_owned(ctx) and is_registering_provider(ctx, f):
                # def add_fresh(G, hint): A = fresh(G, hint); G.V.add(A); return A  -- called by the in-place procedures
                # only: registering the name it hands out is its contract, it is not one of the pure operations
                continue
            out.append(f)
    return out


def procedure_owned(ctx):
    """qualnames of the top-level functions all of whose callers are procedures (*_in_place, constructors, the listed
    procedures) or functions that are themselves procedure-owned: helpers of the in-place machinery, which work on the
    object the procedure owns"""
    cache = getattr(ctx, '_procedure_owned', None)
    if cache is not None:
        return cache
    callers = {}
    for g in ctx.prog.functions.values():
        if g.module.name.startswith('template:'):
            continue
        top = g
        while top.parent is not None:
            top = top.parent
        for c in ctx.prog.calls_in(g):
            r = ctx.resolve_call(g, c)
            if r is not None and r.kind == 'func' and r.target.parent is None and r.target is not top:
                callers.setdefault(r.target.qualname, set()).add(top)
    owned = set()
    for _ in range(4):
        changed = False
        for q, cs in callers.items():
            if q in owned:
                continue
            if cs and all(is_procedure(c) or c.qualname in owned for c in cs):
                owned.add(q)
                changed = True
        if not changed:
            break
    ctx._procedure_owned = owned
    return owned


def path_text(param, path):
    return param + ''.join('[]' if l == EL else '.' + l for l in path)


def check_no_operand_mutation(ctx, rep, funcs, rule=RULE + '.a'):
    eff = ctx.effects
    for f in funcs:
        s = eff.summary(f)
        unit = eff.unit(f)
        bad = False
        for (i, path) in sorted(s.mut):
            if i >= len(f.pos_params):
                continue
            p = f.pos_params[i]
            t = unit.ptypes.get(i)
            if not is_operand_type(ctx, t):
                continue
            if (f.short, p.arg) in ALLOW:
                rep.holds(rule, f, 'parameter ' + p.arg, 'allow-listed: ' + ALLOW[(f.short, p.arg)], nontrivial=False)
                continue
            bad = True
            for (where, construct, desc, line) in s.mut_sites.get((i, path), [])[:3]:
                rep.violates(rule, f, construct,
                             'value-returning operation {} mutates its operand {} ({}{})'.format(
                                 f.name, path_text(p.arg, path), desc, '' if where == f.short else ' in ' + where))
        if not bad:
            rep.holds(rule, f, 'def ' + f.name, 'MUT summary is empty on every operand-typed parameter (all depths)')


def inplace_positions(ctx):
    """(class name, path) positions that some procedure of the library mutates in place, derived from MUT summaries
    of functions named *_in_place or annotated '-> None'."""
    eff = ctx.effects
    pos = {}
    for q, s in eff.summaries.items():
        f = ctx.prog.functions[q]
        is_proc = f.name.endswith('_in_place') or (isinstance(f.node.returns, ast.Constant) and f.node.returns.value is None and f.cls is None)
        if not is_proc or f.module.base[:-3] not in PURE_MODULES:
            continue
        unit = eff.analyses[q]
        for (i, path) in s.mut:
            c = _cls_name(unit.ptypes.get(i))
            if c is not None:
                pos.setdefault((c, path), set()).add(f.name)
    return pos


def check_no_shared_result(ctx, rep, funcs, rule=RULE + '.b'):
    eff = ctx.effects
    positions = inplace_positions(ctx)
    rep.extra.setdefault('inplace_positions', sorted('{}.{} ({})'.format(c, '.'.join(p) or '<object>', ','.join(sorted(v))) for (c, p), v in positions.items()))
    for f in funcs:
        s = eff.summary(f)
        unit = eff.unit(f)
        rt = ctx.typer.return_type(f)
        rc = _cls_name(rt) if rt else None
        bad = False
        # result is (an alias of) a mutable part of an argument
        for lp, specs in sorted(s.ret_reach.items()):
            for sp in sorted(specs):
                if sp[0] != 'P':
                    continue
                ac = _cls_name(unit.ptypes.get(sp[1]))
                hit = None
                if rc is not None and (rc, lp) in positions:
                    hit = (rc, lp)
                elif ac is not None and (ac, sp[2]) in positions:
                    hit = (ac, sp[2])
                if hit is None:
                    continue
                if sp[1] >= len(f.pos_params):
                    continue
                pname = f.pos_params[sp[1]].arg
                if (f.short, pname) in ALLOW:
                    continue
                bad = True
                rep.violates(rule, f, 'result.{} is {}'.format('.'.join(lp), path_text(pname, sp[2])),
                             'the result of {} shares {} with its argument, and {} mutates {}.{} in place: an in-place call on one changes the other'.format(
                                 f.name, path_text(pname, sp[2]), '/'.join(sorted(positions[hit])), hit[0], '.'.join(hit[1]) or '<object>'))
        if not bad:
            rep.holds(rule, f, 'def ' + f.name, 'no in-place-mutable field of the result aliases an argument')


def _delta_base(f, e, ctx):
    """If e denotes <param>.delta for a parameter of a partial-map class, return (param name, class)."""
    env = ctx.env(f)
    if isinstance(e, ast.Attribute) and e.attr == 'delta' and isinstance(e.value, ast.Name):
        t = env.type_of(e.value)
        c = _cls_name(t) if t and t[0] == 'cls' else None
        if c in PARTIAL_MAP_CLASSES and e.value.id in _root_params(f):
            return e.value.id, c
    if isinstance(e, ast.Name):
        defs = [n for n in walk_no_nested(f.node) if isinstance(n, ast.Assign) and any(isinstance(t, ast.Name) and t.id == e.id for t in n.targets)]
        if len(defs) == 1:
            return _delta_base(f, defs[0].value, ctx)
    return None


def _root_params(f):
    g = f
    out = set()
    while g is not None:
        out |= set(g.params)
        g = g.parent
    return out


def check_guarded_reads(ctx, rep, funcs, rule=RULE + '.c'):
    """Subscript loads on the transition map of an NFA/PDA/TM operand must be dominated by a membership test."""
    n = 0
    for f in funcs:
        fx = ctx.facts(f)
        for e in walk_no_nested(f.node):
            if isinstance(e, ast.Call) and isinstance(e.func, ast.Attribute) and e.func.attr == 'get':
                b = _delta_base(f, e.func.value, ctx)
                if b is not None:
                    n += 1
                    rep.holds(rule, f, e, 'read of {}.delta through .get (no KeyError, no insertion)'.format(b[0]))
                continue
            if not isinstance(e, ast.Subscript):
                continue
            base = _delta_base(f, e.value, ctx)
            if base is None:
                continue
            # stores do not read
            if isinstance(e.ctx, ast.Store):
                continue
            n += 1
            nid = fx.stmt_of_expr(e)
            key = u(e.slice)
            if not key.startswith('('):
                key = '(' + key + ')' if isinstance(e.slice, ast.Tuple) else key
            guarded = False
            # the key may be named: key = (p, a); the map may be aliased: delta = N.delta
            def _canon(txt):
                try:
                    node = ast.parse(txt, mode='eval').body
                except SyntaxError:
                    return txt.replace(' ', '')
                r = resolve_alias(f, node)
                t = u(r).replace(' ', '')
                return t[1:-1] if t.startswith('(') and t.endswith(')') else t
            want_key, want_map = _canon(u(e.slice)), _canon(u(e.value))
            atoms = list(fx.guard_atoms(nid)) if nid is not None else []
            atoms += expr_guard_atoms(f.node, e)
            for a in atoms:
                if a[0] == 'in' and a[3] is True and _canon(a[1]) == want_key and _canon(a[2]) == want_map:
                    guarded = True
            if not guarded:
                # the key is drawn from the map itself:  for key in delta: delta[key]   /   for (q, a) in delta.keys(): delta[q, a]
                for lp in ast.walk(f.node):
                    gens = []
                    if isinstance(lp, ast.For) and any(x is e for b0 in lp.body for x in ast.walk(b0)):
                        gens.append((lp.target, lp.iter))
                    if isinstance(lp, (ast.ListComp, ast.SetComp, ast.GeneratorExp, ast.DictComp)) and any(x is e for x in ast.walk(lp)):
                        gens += [(g0.target, g0.iter) for g0 in lp.generators]
                    for tg, it in gens:
                        kt = tg
                        if isinstance(it, ast.Call) and isinstance(it.func, ast.Attribute) and it.func.attr in ('keys', 'items') and not it.args:
                            if it.func.attr == 'items':
                                if not (isinstance(tg, ast.Tuple) and len(tg.elts) == 2):
                                    continue
                                kt = tg.elts[0]
                            it = it.func.value
                        if _canon(u(it)) == want_map and _canon(u(kt)) == want_key:
                            # ... and the loop does not delete from the map
                            guarded = True
                        # the key ranges over a local list of keys that were filtered by their presence in the map (or in a
                        # table built from the keys of the map):  applicable = sorted(k for k in cands if k in rank);  for key in applicable
                        if not guarded and isinstance(it, ast.Name) and isinstance(kt, ast.Name) and _canon(u(kt)) == want_key:
                            keysets = {want_map}
                            for st0 in walk_no_nested(f.node):
                                if isinstance(st0, ast.Assign) and len(st0.targets) == 1 and isinstance(st0.targets[0], ast.Name):
                                    v0 = st0.value
                                    if isinstance(v0, (ast.DictComp, ast.SetComp)) and len(v0.generators) == 1 and not v0.generators[0].ifs:
                                        g1 = v0.generators[0]
                                        src1 = g1.iter
                                        tg1 = g1.target
                                        if isinstance(src1, ast.Call) and isinstance(src1.func, ast.Name) and src1.func.id == 'enumerate' and src1.args and isinstance(tg1, ast.Tuple) and len(tg1.elts) == 2:
                                            src1, tg1 = src1.args[0], tg1.elts[1]
                                        kexpr = v0.key if isinstance(v0, ast.DictComp) else v0.elt
                                        if _canon(u(src1)) == want_map and u(kexpr) == u(tg1):
                                            keysets.add(st0.targets[0].id)
                                    if isinstance(v0, ast.Call) and isinstance(v0.func, ast.Name) and v0.func.id in ('set', 'frozenset', 'list', 'tuple') and len(v0.args) == 1 and _canon(u(v0.args[0])) == want_map:
                                        keysets.add(st0.targets[0].id)
                            for st0 in walk_no_nested(f.node):
                                if isinstance(st0, ast.Assign) and len(st0.targets) == 1 and isinstance(st0.targets[0], ast.Name) and st0.targets[0].id == it.id:
                                    v0 = st0.value
                                    if isinstance(v0, ast.Call) and isinstance(v0.func, ast.Name) and v0.func.id in ('sorted', 'list', 'tuple') and v0.args:
                                        v0 = v0.args[0]
                                    if isinstance(v0, (ast.GeneratorExp, ast.ListComp)) and len(v0.generators) == 1 and isinstance(v0.generators[0].target, ast.Name) and u(v0.elt) == v0.generators[0].target.id:
                                        t1 = v0.generators[0].target.id
                                        for c1 in v0.generators[0].ifs:
                                            for c2 in (c1.values if isinstance(c1, ast.BoolOp) and isinstance(c1.op, ast.And) else [c1]):
                                                if isinstance(c2, ast.Compare) and len(c2.ops) == 1 and isinstance(c2.ops[0], ast.In) and u(c2.left) == t1 and (_canon(u(c2.comparators[0])) in keysets or u(c2.comparators[0]) in keysets):
                                                    if len([d0 for d0 in walk_no_nested(f.node) if isinstance(d0, ast.Assign) and any(isinstance(t0, ast.Name) and t0.id == it.id for t0 in d0.targets)]) == 1:
                                                        guarded = True
            if guarded:
                rep.holds(rule, f, e, 'read of {}.delta is dominated by the membership test on the same key'.format(base[0]))
            else:
                rep.violates(rule, f, e, 'unguarded subscript read of the partial transition map {}.delta of a {}: KeyError on a plain mapping, silent key insertion into the operand on a defaultdict'.format(base[0], base[1]))
    return n


def is_registering_provider(ctx, f):
    """the only effect of f on its operands is `.add(x)` of the very value it returns, and that value comes from a call of
    a function whose name starts with fresh / contains fresh"""
    rets = [n for n in walk_no_nested(f.node) if isinstance(n, ast.Return) and n.value is not None]
    if len(rets) != 1 or not isinstance(rets[0].value, ast.Name):
        return False
    name = rets[0].value.id
    defs = [n.value for n in walk_no_nested(f.node) if isinstance(n, ast.Assign) and len(n.targets) == 1 and isinstance(n.targets[0], ast.Name) and n.targets[0].id == name]
    if len(defs) != 1 or not (isinstance(defs[0], ast.Call) and 'fresh' in (u(defs[0].func))):
        return False
    for n in walk_no_nested(f.node):
        if isinstance(n, ast.Call) and isinstance(n.func, ast.Attribute) and n.func.attr in MUTATORS_SIMPLE and not (n.func.attr == 'add' and len(n.args) == 1 and u(n.args[0]) == name):
            return False
        if isinstance(n, (ast.Assign, ast.AugAssign)) and any(isinstance(t, (ast.Attribute, ast.Subscript)) for t in (n.targets if isinstance(n, ast.Assign) else [n.target])):
            return False
    return True


MUTATORS_SIMPLE = ('add', 'append', 'extend', 'insert', 'remove', 'discard', 'pop', 'clear', 'update', 'setdefault', 'sort', 'reverse')


def is_procedure(f):
    return f.name.endswith('_in_place') or f.name == '__init__' or f.short in PROCEDURES


def check_scope_operands(ctx, rep, roots, rule=RULE + '.a'):
    """closure-wide form of rule a: every top-level function that a value-returning operation of the property reaches
    WITHOUT passing through a procedure (*_in_place, a constructor, the procedures listed above) leaves its operands
    alone: a callee that extends the set it was handed corrupts whatever the caller still holds (a history, a cache entry,
    the operand).  Helpers that only the in-place procedures call work on the object those procedures own and are exempt."""
    from .state import reachable_functions
    done = {i.where for i in rep.instances if i.rule == rule}
    owned = procedure_owned(ctx)

    def owned_by_procedures(f):
        return f.qualname in owned
    tops = []
    for f in roots:
        while f.parent is not None:
            f = f.parent
        if not is_procedure(f) and not owned_by_procedures(f):
            tops.append(f)
    scope = reachable_functions(ctx, tops, stop=is_procedure)
    fs = []
    for f in scope.values():
        if f.short in done:
            continue
        if f.module.base[:-3] not in PURE_MODULES:
            continue
        if ctx.effects.summary(f) is None:
            continue
        fs.append(f)
    check_no_operand_mutation(ctx, rep, fs, rule=rule)
    return len(fs)


def check_shared_entries(ctx, rep, funcs, rule=RULE + '.alias'):
    """one mutable object stored under several keys: inside a loop a name is stored into a map entry / appended to a
    list, the name is bound OUTSIDE that loop (so every iteration stores the same object), and entries of that container
    are extended in place elsewhere (M[k] |= .., M[k].update(..), M[k].add(..)).  The in-place extension meant for one
    key then shows up under all the keys that share the object.  Pattern rule: no floor."""
    n = 0
    for f in funcs:
        loops_of = {}

        def visit(node, stack):
            for ch in ast.iter_child_nodes(node):
                if isinstance(ch, (ast.FunctionDef, ast.Lambda)) and ch is not f.node:
                    continue
                if isinstance(ch, ast.stmt):
                    loops_of[id(ch)] = list(stack)
                if isinstance(ch, (ast.For, ast.While)):
                    visit(ch, stack + [ch])
                else:
                    visit(ch, stack)
        visit(f.node, [])
        stmts = [s for s in walk_no_nested(f.node) if isinstance(s, ast.stmt)]
        # containers whose entries are extended in place
        inplace = set()
        for s in stmts:
            if isinstance(s, ast.AugAssign) and isinstance(s.target, ast.Subscript) and isinstance(s.target.value, ast.Name) and isinstance(s.op, (ast.BitOr, ast.Add, ast.BitAnd, ast.Sub)):
                inplace.add(s.target.value.id)
            if isinstance(s, ast.Expr) and isinstance(s.value, ast.Call) and isinstance(s.value.func, ast.Attribute) and s.value.func.attr in ('add', 'update', 'append', 'extend', 'discard', 'remove') \
                    and isinstance(s.value.func.value, ast.Subscript) and isinstance(s.value.func.value.value, ast.Name):
                inplace.add(s.value.func.value.value.id)
        if not inplace:
            continue
        for s in stmts:
            if not (isinstance(s, ast.Assign) and len(s.targets) == 1 and isinstance(s.targets[0], ast.Subscript) and isinstance(s.targets[0].value, ast.Name)
                    and s.targets[0].value.id in inplace and isinstance(s.value, ast.Name)):
                continue
            X = s.value.id
            binds = [b for b in stmts if isinstance(b, (ast.Assign, ast.AnnAssign)) and any(isinstance(t, ast.Name) and t.id == X for t in (b.targets if isinstance(b, ast.Assign) else [b.target]))]
            if len(binds) != 1 or binds[0].value is None:
                continue
            v = binds[0].value
            mutable = isinstance(v, (ast.Set, ast.List, ast.Dict, ast.SetComp, ast.ListComp, ast.DictComp)) or \
                (isinstance(v, ast.Call) and isinstance(v.func, ast.Name) and v.func.id in ('set', 'list', 'dict', 'defaultdict'))
            if not mutable:
                continue
            ls, lb = loops_of.get(id(s), []), loops_of.get(id(binds[0]), [])
            if not ls or ls[-1] in lb:
                continue
            n += 1
            rep.violates(rule, f, s, 'the object `{0}` (bound once per round of an outer loop) is stored under several keys of `{1}` by the loop over `{2}`, and entries of `{1}` are extended in place elsewhere: an extension meant for one key '
                         'appears under every key that shares the object (store a copy: set({0}))'.format(X, s.targets[0].value.id, u(ls[-1].target) if isinstance(ls[-1], ast.For) else 'the loop'))
    return n
