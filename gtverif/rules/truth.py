"""Two closure-wide rules about values that silently collapse.

R-TRUTH  -- a value that is `None` on one path and a word / a number on another (an "optional" result or parameter) is
            tested by truthiness (`if x:`, `x or d`, `not x`) although a falsy payload -- the empty word, position 0 -- is
            shown to flow into it.  The test then treats that payload as "absent".  VIOLATES only when the analyser can name
            the falsy payload and its route: an element of a collection of plain words (the empty word is a word: every
            property quantifies over it), a literal 0 / '', or the loop variable of `range(a, ...)` with a possibly 0.
R-INJ.merge -- a dict comprehension whose key expression does not mention a variable that distinguishes the iteration
            points while the stored value does: entries with equal keys overwrite each other, so the result keeps ONE of
            several values (which one depends on iteration order).  Two forms: an inner generator none of whose variables
            occurs in the key, and a projection of the tuple keys of a mapping that drops a component no filter pins down.
            The inversion `{v: k for k, v in m.items()}` is not an instance (the key is the whole value).
Both are necessary conditions wherever the collapsed value decides the result of an operation of the property; both are
evaluated on the call-graph closure of the property's operations.  A construct outside the recognised forms yields no
instance (not a violation)."""
import ast

from ..types import members

_NONE = (type(None),)


def _is_none(e):
    return e is None or (isinstance(e, ast.Constant) and e.value is None)


def _own(fnode):
    """nodes of a function body without nested defs / lambdas (comprehensions are entered)"""
    out = []
    st = list(fnode.body)
    while st:
        n = st.pop()
        out.append(n)
        for c in ast.iter_child_nodes(n):
            if isinstance(c, (ast.FunctionDef, ast.AsyncFunctionDef, ast.Lambda, ast.ClassDef)):
                continue
            st.append(c)
    return out


def _names(e):
    return {n.id for n in ast.walk(e) if isinstance(n, ast.Name)}


def _target_names(t):
    return {n.id for n in ast.walk(t) if isinstance(n, ast.Name)}


def _is_plain_str(ctx, f, e):
    try:
        t = ctx.env(f).type_of(e)
    except Exception:
        return False
    ms = members(t)
    return bool(ms) and all(m == ('str',) for m in ms)


def _nominal_is_plain_str(ctx, f, e):
    """plain `str` also under the nominal typer (State / Symbol names are not words)"""
    try:
        from ..types import Typer
        ty = getattr(ctx, '_nominal_typer', None)
        if ty is None:
            ty = Typer(ctx.prog, nominal=True)
            ctx._nominal_typer = ty
        t = ty.env(f).type_of(e)
    except Exception:
        return False
    ms = members(t)
    return bool(ms) and all(m == ('str',) for m in ms)


def _nominal_elem_is_plain_str(ctx, f, base):
    """the elements of `base` are plain words also under the nominal typer (State / Symbol names are not words)"""
    try:
        from ..types import Typer, elem_type
        ty = getattr(ctx, '_nominal_typer', None)
        if ty is None:
            ty = Typer(ctx.prog, nominal=True)
            ctx._nominal_typer = ty
        ms = members(elem_type(ty.env(f).type_of(base)))
    except Exception:
        return False
    return bool(ms) and all(m == ('str',) for m in ms)


def _loop_bindings(fnode):
    """name -> list of iterables it is bound over (for loops and comprehension generators, plain Name targets and
    names inside tuple targets are both recorded; the flag says whether the name is the whole element)"""
    out = {}
    for n in _own(fnode):
        gens = []
        if isinstance(n, (ast.For, ast.AsyncFor)):
            gens.append((n.target, n.iter))
        elif isinstance(n, (ast.ListComp, ast.SetComp, ast.GeneratorExp, ast.DictComp)):
            gens.extend((g.target, g.iter) for g in n.generators)
        for t, it in gens:
            if isinstance(t, ast.Name):
                out.setdefault(t.id, []).append(it)
    return out


def _zeroable(f, e):
    """may the integer expression e (a start of a range) be 0?  literal 0, or a parameter whose default is the literal 0"""
    if e is None:
        return 'the range starts at 0'
    if isinstance(e, ast.Constant) and e.value == 0 and type(e.value) is int:
        return 'the range starts at the literal 0'
    if isinstance(e, ast.Name) and e.id in f.defaults and isinstance(f.defaults[e.id], ast.Constant) and f.defaults[e.id].value == 0 \
            and type(f.defaults[e.id].value) is int:
        return 'the range starts at `{}`, whose default is 0'.format(e.id)
    return None


def _unwrap_iter(it):
    """sorted(x, ...), list(x), reversed(x), set(x), tuple(x), enumerate-free: the collection whose elements are iterated"""
    while isinstance(it, ast.Call) and isinstance(it.func, ast.Name) and it.func.id in ('sorted', 'list', 'reversed', 'set', 'tuple', 'frozenset', 'iter') and it.args:
        it = it.args[0]
    return it


def _falsy_payload(ctx, f, e, loops=None):
    """reason why the expression e, evaluated in f, may be a falsy non-None value (None: not shown)"""
    if isinstance(e, ast.Constant):
        if e.value == '' and isinstance(e.value, str):
            return "the literal ''"
        if type(e.value) is int and e.value == 0:
            return 'the literal 0'
        return None
    if isinstance(e, ast.Name):
        loops = loops if loops is not None else _loop_bindings(f.node)
        for it in loops.get(e.id, []):
            if isinstance(it, ast.Call) and isinstance(it.func, ast.Name) and it.func.id == 'range' and 1 <= len(it.args) <= 3:
                z = _zeroable(f, it.args[0] if len(it.args) >= 2 else None)
                if z:
                    return '`{}` runs over `{}` and {}'.format(e.id, ast.unparse(it), z)
                continue
            base = _unwrap_iter(it)
            try:
                from ..types import elem_type
                t = ctx.env(f).type_of(base)
                et = elem_type(t)
            except Exception:
                et = None
            ms = members(et)
            if ms and all(m == ('str',) for m in ms) and _nominal_elem_is_plain_str(ctx, f, base):
                return '`{}` is an element of the word collection `{}`, and the empty word is a word'.format(e.id, ast.unparse(base))
    return None


def _optional_result(ctx, h):
    """(reason) when the repository function h returns None on one path and a possibly falsy word / number on another"""
    rets = [n for n in _own(h.node) if isinstance(n, ast.Return)]
    if not rets:
        return None
    last = h.node.body[-1]
    falls_off = not isinstance(last, (ast.Return, ast.Raise))
    has_none = falls_off or any(_is_none(r.value) for r in rets)
    if not has_none:
        return None
    loops = _loop_bindings(h.node)
    for r in rets:
        if _is_none(r.value):
            continue
        why = _falsy_payload(ctx, h, r.value, loops)
        if why:
            return '{} returns None when it finds nothing and `{}` otherwise; {}'.format(h.name, ast.unparse(r.value), why)
    return None


def _none_test(t, name, positive):
    """does the test t establish `name is not None` (positive) / `name is None` (not positive) when it is true?"""
    if isinstance(t, ast.Compare) and len(t.ops) == 1 and isinstance(t.left, ast.Name) and t.left.id == name and _is_none(t.comparators[0]):
        if isinstance(t.ops[0], (ast.IsNot, ast.NotEq)):
            return positive
        if isinstance(t.ops[0], (ast.Is, ast.Eq)):
            return not positive
    if isinstance(t, ast.BoolOp) and isinstance(t.op, ast.And):
        return any(_none_test(v, name, positive) for v in t.values)
    if isinstance(t, ast.UnaryOp) and isinstance(t.op, ast.Not):
        return _none_test_false(t.operand, name, positive)
    return False


def _none_test_false(t, name, positive):
    """does the test t establish `name is not None` (positive) / `name is None` when it is FALSE?"""
    if isinstance(t, ast.Compare) and len(t.ops) == 1 and isinstance(t.left, ast.Name) and t.left.id == name and _is_none(t.comparators[0]):
        if isinstance(t.ops[0], (ast.Is, ast.Eq)):
            return positive
        if isinstance(t.ops[0], (ast.IsNot, ast.NotEq)):
            return not positive
    if isinstance(t, ast.BoolOp) and isinstance(t.op, ast.Or):
        return any(_none_test_false(v, name, positive) for v in t.values)
    if isinstance(t, ast.UnaryOp) and isinstance(t.op, ast.Not):
        return _none_test(t.operand, name, positive)
    return False


def _leaves(stmts):
    return bool(stmts) and isinstance(stmts[-1], (ast.Return, ast.Raise, ast.Continue, ast.Break))


def _known_not_none(fnode, e):
    """the truthiness test of the name e happens where `e is not None` is already established: inside the branch of a None test,
    behind `e is not None and ...`, or after an early exit `if e is None: return`.  Then truthiness deliberately separates the
    empty payload from the others and the sentinel is not in play."""
    name = e.id
    parents = {}
    for n in ast.walk(fnode):
        for c in ast.iter_child_nodes(n):
            parents[id(c)] = n
    cur = e
    while id(cur) in parents:
        par = parents[id(cur)]
        if isinstance(par, (ast.If, ast.While)) and cur is not par.test:
            in_body = any(cur is x for x in par.body)
            if in_body and _none_test(par.test, name, True):
                return True
            if not in_body and isinstance(par, ast.If) and _none_test_false(par.test, name, True):
                return True
        if isinstance(par, ast.IfExp) and cur is not par.test:
            if cur is par.body and _none_test(par.test, name, True):
                return True
            if cur is par.orelse and _none_test_false(par.test, name, True):
                return True
        if isinstance(par, ast.BoolOp):
            idx = [i for i, v in enumerate(par.values) if v is cur]
            if idx:
                earlier = par.values[:idx[0]]
                if isinstance(par.op, ast.And) and any(_none_test(v, name, True) for v in earlier):
                    return True
                if isinstance(par.op, ast.Or) and any(_none_test_false(v, name, True) for v in earlier):
                    return True
        # an early exit earlier in the same block
        for fld in ('body', 'orelse', 'finalbody'):
            blk = getattr(par, fld, None)
            if isinstance(blk, list) and any(cur is x for x in blk):
                k = [i for i, x in enumerate(blk) if x is cur][0]
                for st in blk[:k]:
                    if isinstance(st, ast.If) and _leaves(st.body) and _none_test(st.test, name, False):
                        return True
                    if isinstance(st, ast.Assert) and _none_test(st.test, name, True):
                        return True
        if par is fnode:
            break
        cur = par
    return False


def _truth_uses(fnode):
    """(node, tested expression) for every truthiness test in the function's own body"""
    out = []

    def tests(e, host):
        if isinstance(e, ast.UnaryOp) and isinstance(e.op, ast.Not):
            tests(e.operand, host)
        elif isinstance(e, ast.BoolOp):
            for v in e.values[:-1] if False else e.values:
                tests(v, host)
        else:
            out.append((host, e))

    for n in _own(fnode):
        if isinstance(n, (ast.If, ast.While)):
            tests(n.test, n)
        elif isinstance(n, ast.IfExp):
            tests(n.test, n)
        elif isinstance(n, ast.BoolOp) :
            # value position (`x or default`): every operand but the last is tested
            for v in n.values[:-1]:
                tests(v, n)
        elif isinstance(n, ast.Assert):
            tests(n.test, n)
        elif isinstance(n, ast.comprehension):
            for c in n.ifs:
                tests(c, c)
    return out


def _callers_with_falsy_arg(ctx, g, pname):
    idx = [p.arg for p in g.pos_params].index(pname) if pname in [p.arg for p in g.pos_params] else None
    off = 1 if g.cls is not None and g.pos_params and g.pos_params[0].arg in ('self', 'cls') else 0
    for f0 in list(ctx.prog.functions.values()):
        stack = [f0]
        while stack:
            f1 = stack.pop()
            stack.extend(f1.nested.values())
            for c in ctx.prog.calls_in(f1):
                try:
                    r = ctx.resolve_call(f1, c)
                except Exception:
                    r = None
                if r is None or r.kind != 'func' or r.target is not g:
                    continue
                arg = None
                for k in c.keywords:
                    if k.arg == pname:
                        arg = k.value
                if arg is None and idx is not None and not any(isinstance(a, ast.Starred) for a in c.args):
                    j = idx - (off if isinstance(c.func, ast.Attribute) else 0)
                    if 0 <= j < len(c.args):
                        arg = c.args[j]
                if arg is None:
                    continue
                why = _falsy_payload(ctx, f1, arg)
                if why:
                    return f1, c, why
    return None


def check_sentinel_truthiness(ctx, rep, sfuncs, rule='R-TRUTH'):
    examined = 0
    for g in sfuncs:
        if g.module.name.startswith('template:'):
            continue
        own = _own(g.node)
        uses = _truth_uses(g.node)
        if not uses:
            continue
        # (1) results of optional-returning helpers
        assigns = {}
        for n in own:
            if isinstance(n, ast.Assign) and len(n.targets) == 1 and isinstance(n.targets[0], ast.Name):
                assigns.setdefault(n.targets[0].id, []).append(n)
        opt_cache = {}

        def optional_call(e):
            if not isinstance(e, ast.Call):
                return None
            try:
                h = ctx.callee(g, e)
            except Exception:
                h = None
            if h is None:
                return None
            if h.qualname not in opt_cache:
                opt_cache[h.qualname] = _optional_result(ctx, h)
            return opt_cache[h.qualname]

        reported = set()
        for host, e in uses:
            why = None
            if isinstance(e, ast.Call):
                why = optional_call(e)
            elif isinstance(e, ast.Name) and e.id in assigns and not _known_not_none(g.node, e):
                prev = [a for a in assigns[e.id] if (a.lineno, a.col_offset) < (e.lineno, e.col_offset)]
                if prev:
                    last = max(prev, key=lambda a: (a.lineno, a.col_offset))
                    # `x = x if x else d` / `x = x or d` re-bind a value already tested: look at the binding before
                    why = optional_call(last.value)
            if why:
                examined += 1
                key = (g.qualname, ast.unparse(e))
                if key in reported:
                    continue
                reported.add(key)
                rep.violates(rule, g, 'truth test of `{}`'.format(ast.unparse(e)),
                             'the result is tested by truthiness, but {}: that payload is treated like "nothing found" (test `is None` / `is not None` instead)'.format(why))
        # (2) parameters whose default is None and whose declared type is a number or a word
        for p in g.pos_params + g.node.args.kwonlyargs:
            d = g.defaults.get(p.arg)
            if d is None or not _is_none(d) or p.annotation is None:
                continue
            try:
                t = ctx.typer.parse_annotation(g.module, g, p.annotation)
            except Exception:
                t = None
            ms = [m for m in members(t) if m != ('none',)]
            if not ms or not all(m in (('int',), ('str',)) for m in ms):
                continue
            first = None
            rebound = [a for a in assigns.get(p.arg, [])]
            for host, e in uses:
                if isinstance(e, ast.Name) and e.id == p.arg and not _known_not_none(g.node, e):
                    # only uses that precede (or are) the first re-binding see the caller's value
                    if all((e.lineno, e.col_offset) <= (a.end_lineno, a.end_col_offset) for a in rebound):
                        first = (host, e) if first is None or (e.lineno, e.col_offset) < (first[1].lineno, first[1].col_offset) else first
            if first is None:
                continue
            examined += 1
            hit = _callers_with_falsy_arg(ctx, g, p.arg)
            if hit:
                f1, c, why = hit
                rep.violates(rule, g, 'truth test of parameter `{}`'.format(p.arg),
                             'the parameter `{}` means "absent" when it is None, but it is tested by truthiness (`{}`) and the call `{}` in {} passes a falsy value: {} -- that value is replaced by the default'.format(
                                 p.arg, ast.unparse(first[0].test) if hasattr(first[0], 'test') else ast.unparse(first[0]), ast.unparse(c), f1.short, why))
    rep.extra.setdefault('closure_wide_examined', {})[rule] = examined


# ---------------------------------------------------------------------------------------------------------------------------

def _pinned(var, ifs):
    """is the comprehension variable pinned to one value by an equality filter?"""
    for c in ifs:
        for n in ast.walk(c):
            if isinstance(n, ast.Compare) and len(n.ops) == 1 and isinstance(n.ops[0], (ast.Eq, ast.Is)):
                sides = [n.left, n.comparators[0]]
                for a, b in (sides, sides[::-1]):
                    if isinstance(a, ast.Name) and a.id == var and var not in _names(b):
                        return True
    return False


def check_merging_comprehension(ctx, rep, sfuncs, rule='R-INJ.merge'):
    examined = 0
    for g in sfuncs:
        if g.module.name.startswith('template:'):
            continue
        for dc in _own(g.node):
            if not isinstance(dc, ast.DictComp):
                continue
            examined += 1
            key_vars = _names(dc.key)
            val_vars = _names(dc.value)
            all_ifs = [c for gen in dc.generators for c in gen.ifs]
            done = False
            # (a) an inner generator that the key ignores and the value uses
            for j, gen in enumerate(dc.generators):
                if j == 0:
                    continue
                bound = _target_names(gen.target)
                if bound and not (bound & key_vars) and (bound & val_vars) and not all(_pinned(v, all_ifs) for v in bound & val_vars):
                    rep.violates(rule, g, dc, 'the key `{}` does not mention `{}`, the variable of the inner generator over `{}`, but the value `{}` does: the entries for the different {} of one key overwrite each other and only one survives'.format(
                        ast.unparse(dc.key), ', '.join(sorted(bound)), ast.unparse(gen.iter), ast.unparse(dc.value), ', '.join(sorted(bound & val_vars))))
                    done = True
                    break
            if done:
                continue
            # (b) projection of the tuple keys of a mapping
            gen = dc.generators[0]
            it = gen.iter
            keypat = None
            valpat = None
            if isinstance(it, ast.Call) and isinstance(it.func, ast.Attribute) and it.func.attr == 'items' and not it.args:
                if isinstance(gen.target, ast.Tuple) and len(gen.target.elts) == 2 and isinstance(gen.target.elts[0], ast.Tuple):
                    keypat, valpat = gen.target.elts
                    base = it.func.value
            elif isinstance(gen.target, ast.Tuple) and (isinstance(it, ast.Name) or isinstance(it, ast.Attribute) or
                                                        (isinstance(it, ast.Call) and isinstance(it.func, ast.Attribute) and it.func.attr == 'keys')):
                base = it.func.value if isinstance(it, ast.Call) else it
                try:
                    t = ctx.env(g).type_of(base)
                except Exception:
                    t = None
                if any(m[0] in ('dict', 'defaultdict') for m in members(t)):
                    keypat = gen.target
            if keypat is None or not all(isinstance(x, ast.Name) for x in keypat.elts):
                continue
            comps = [x.id for x in keypat.elts]
            dropped = [v for v in comps if v not in key_vars and not _pinned(v, all_ifs)]
            kept = [v for v in comps if v in key_vars]
            if not dropped or not kept:
                continue
            uses = (set(dropped) & val_vars) | (_target_names(valpat) & val_vars if valpat is not None else set())
            if not uses:
                continue
            rep.violates(rule, g, dc, 'the keys of `{}` are tuples ({}); the new key `{}` keeps {} and drops {}, which no filter pins to one value, while the value `{}` depends on the entry: entries that differ only in {} overwrite each other and only one survives'.format(
                ast.unparse(base), ', '.join(comps), ast.unparse(dc.key), ', '.join(kept), ', '.join(dropped), ast.unparse(dc.value), ', '.join(dropped)))
    rep.extra.setdefault('closure_wide_examined', {})[rule] = examined
