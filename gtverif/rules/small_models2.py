"""Further finite models decided with the analyser's own evaluator (miniexec), added after seed round j.

Each rule interprets the syntax tree of ONE repository function on a handful of model objects built by the analyser and
compares what comes back with the definition in the property text, computed by the analyser itself.  Nothing of the
repository is imported or run.  The models are chosen so that every decision the property speaks about occurs with both
outcomes (a state that is initial AND final, a variable that occurs twice in a right-hand side next to a non-nullable
one, a state with two partners ...); the evidence text says which.  A VIOLATES verdict carries its witness; a HOLDS
verdict says "on these models" and nothing more.  Outside the evaluator's fragment: UNDECIDED."""
import itertools

from ..abseval import Unsupported
from ..miniexec import Interp, Obj, Raised

RULE = 'R-MODEL'


def _dfa_class(Q, Sigma, delta, q0, F, *a, **k):
    return Obj('DFA', Q=set(Q), Sigma=set(Sigma), delta=dict(delta), q0=q0, F=set(F))


def _mk(Q, Sigma, delta, q0, F):
    return Obj('DFA', Q=set(Q), Sigma=set(Sigma), delta=dict(delta), q0=q0, F=set(F))


def _run(rule, rep, f, thunk, what):
    """evaluate; map evaluator trouble to Unsupported, repository exceptions to a violation"""
    try:
        return True, thunk()
    except Raised as ex:
        if ex.name in ('TypeError', 'AttributeError') and not getattr(ex, 'certain', False):
            raise Unsupported('the evaluator met a {} it cannot attribute to the code'.format(ex.name))
        rep.violates(rule, f, 'def ' + f.name, 'raises {} {}{}'.format(ex.name, what, ' ({})'.format(ex.msg) if ex.msg else ''))
        return False, None


def _reach(delta, Sigma, q0):
    seen, todo = {q0}, [q0]
    while todo:
        q = todo.pop()
        for a in Sigma:
            q1 = delta[q, a]
            if q1 not in seen:
                seen.add(q1)
                todo.append(q1)
    return seen


def _accepts(D, w):
    q = D['q0']
    for a in w:
        q = D['delta'][q, a]
    return q in D['F']


def _fields(o):
    return o._f if isinstance(o, Obj) else o


def _nerode_classes(Q, Sigma, delta, F):
    """number of Myhill-Nerode classes among the states Q (Moore refinement, in the analyser)"""
    Q = sorted(Q)
    block = {q: (q in F) for q in Q}
    while True:
        sig = {q: (block[q], tuple(block[delta[q, a]] for a in sorted(Sigma))) for q in Q}
        ids = {}
        new = {q: ids.setdefault(sig[q], len(ids)) for q in Q}
        if len(set(new.values())) == len(set(block.values())):
            return len(set(new.values()))
        block = new


_DFAS = {
    # name: (Q, Sigma, delta, q0, F, what it exercises)
    'even-a + unreachable': ({'e', 'o', 'u'}, {'a'}, {('e', 'a'): 'o', ('o', 'a'): 'e', ('u', 'a'): 'e'}, 'e', {'e', 'u'}, 'the initial state is final; an unreachable final state'),
    'ends-in-b': ({'p', 'q', 'x'}, {'a', 'b'}, {('p', 'a'): 'p', ('p', 'b'): 'q', ('q', 'a'): 'p', ('q', 'b'): 'q', ('x', 'a'): 'q', ('x', 'b'): 'x'}, 'p', {'q'}, 'the initial state is not final; an unreachable state with transitions into the reachable part'),
    'all reachable': ({'p', 'q'}, {'a'}, {('p', 'a'): 'q', ('q', 'a'): 'p'}, 'p', {'q'}, 'nothing to remove'),
    'single final state': ({'s'}, {'a', 'b'}, {('s', 'a'): 's', ('s', 'b'): 's'}, 's', {'s'}, 'one state that is initial and final'),
}


def check_remove_unreachable(ctx, rep, f, rule=RULE + '.M12'):
    """dfa_remove_unreachable_states: the states are the reachable ones, the final states are the reachable final states
    (the initial state included), the transitions are those of the reachable states, the operand is untouched."""
    cases = 0
    try:
        for (name, (Q, Sigma, delta, q0, F, what)), order in itertools.product(_DFAS.items(), ('asc', 'desc')):
            D = _mk(Q, Sigma, delta, q0, F)
            ok, got = _run(rule, rep, f, lambda: _interp(ctx, order, classes={'DFA': _dfa_class}).call(f, [D]), 'on the DFA "{}"'.format(name))
            if not ok:
                return
            if not isinstance(got, Obj) or got._cls != 'DFA':
                raise Unsupported('the result is not a DFA built by the constructor')
            R = _reach(delta, Sigma, q0)
            want = {'Q': R, 'F': set(F) & R, 'q0': q0, 'delta': {k: v for k, v in delta.items() if k[0] in R}, 'Sigma': set(Sigma)}
            g = got._f
            cases += 1
            for fld in ('Q', 'F', 'q0', 'delta', 'Sigma'):
                gv = g[fld]
                if (set(gv) if fld in ('Q', 'F', 'Sigma') else gv) != want[fld]:
                    rep.violates(rule, f, 'def ' + f.name, 'on the DFA "{}" ({}) the component {} of the result is {} instead of {}'.format(
                        name, what, fld, sorted(gv) if not isinstance(gv, (dict, str)) else gv, sorted(want[fld]) if not isinstance(want[fld], (dict, str)) else want[fld]))
                    return
            if D._f['Q'] != set(Q) or D._f['F'] != set(F) or D._f['delta'] != dict(delta):
                rep.violates(rule, f, 'def ' + f.name, 'on the DFA "{}" the operand is modified'.format(name))
                return
    except (Unsupported, RecursionError) as e:
        rep.undecided(rule, f, 'def ' + f.name, 'outside the evaluator: {}'.format(e))
        return
    rep.holds(rule, f, 'def ' + f.name, 'on {} runs (four model DFAs under two iteration orders of sets: initial state final / not final, unreachable final state, nothing unreachable, a single state) the result has exactly the reachable states, the reachable final states and their transitions, and the operand is untouched'.format(cases))


_MIN_DFAS = {
    'two accepting sinks': ({'s', 't', 'u'}, {'a', 'b'}, {('s', 'a'): 't', ('s', 'b'): 'u', ('t', 'a'): 't', ('t', 'b'): 't', ('u', 'a'): 'u', ('u', 'b'): 'u'}, 's', {'t', 'u'}, 2),
    'swap pair': ({'s', 'p', 'q'}, {'a'}, {('s', 'a'): 'p', ('p', 'a'): 'q', ('q', 'a'): 'p'}, 's', {'p', 'q'}, 2),
    'F = Q': ({'p', 'q', 'r'}, {'a', 'b'}, {('p', 'a'): 'q', ('p', 'b'): 'r', ('q', 'a'): 'r', ('q', 'b'): 'p', ('r', 'a'): 'p', ('r', 'b'): 'q'}, 'p', {'p', 'q', 'r'}, 1),
    'F empty, cycle': ({'p', 'q', 'r'}, {'a'}, {('p', 'a'): 'q', ('q', 'a'): 'r', ('r', 'a'): 'p'}, 'p', set(), 1),
    'already minimal (mod 3)': ({'0', '1', '2'}, {'a'}, {('0', 'a'): '1', ('1', 'a'): '2', ('2', 'a'): '0'}, '0', {'0'}, 3),
    'ends in ab': ({'0', '1', '2', '3'}, {'a', 'b'}, {('0', 'a'): '1', ('0', 'b'): '0', ('1', 'a'): '1', ('1', 'b'): '2', ('2', 'a'): '1', ('2', 'b'): '3', ('3', 'a'): '1', ('3', 'b'): '0'}, '0', {'2'}, 3),
}


def check_minimiser(ctx, rep, f, rule=RULE + '.M13'):
    """a minimiser on model DFAs all of whose states are reachable: the result is a valid total DFA over the same alphabet,
    accepts the same words up to length 5 and has exactly the Myhill-Nerode number of states (computed by the analyser);
    the operand is untouched."""
    cases = 0
    try:
        for (name, (Q, Sigma, delta, q0, F, n_min)), order in itertools.product(_MIN_DFAS.items(), ('asc', 'desc')):
            assert _nerode_classes(Q, Sigma, delta, F) == n_min
            D = _mk(Q, Sigma, delta, q0, F)
            ok, got = _run(rule, rep, f, lambda: _interp(ctx, order, classes={'DFA': _dfa_class}, max_steps=200000).call(f, [D]), 'on the DFA "{}"'.format(name))
            if not ok:
                return
            if not isinstance(got, Obj) or got._cls != 'DFA':
                raise Unsupported('the result is not a DFA built by the constructor')
            g = got._f
            cases += 1
            if set(g['Sigma']) != set(Sigma):
                rep.violates(rule, f, 'def ' + f.name, 'on the DFA "{}" the alphabet of the result is {} instead of {}'.format(name, sorted(g['Sigma']), sorted(Sigma)))
                return
            if g['q0'] not in g['Q'] or not set(g['F']) <= set(g['Q']) or any((q, a) not in g['delta'] or g['delta'][q, a] not in g['Q'] for q in g['Q'] for a in Sigma):
                rep.violates(rule, f, 'def ' + f.name, 'on the DFA "{}" the result is not a valid total DFA (initial state, final states or a transition outside the states, or a missing transition)'.format(name))
                return
            for k in range(6):
                for w in itertools.product(sorted(Sigma), repeat=k):
                    if _accepts(g, w) != _accepts(D._f, w):
                        rep.violates(rule, f, 'def ' + f.name, 'on the DFA "{}" the result {} the word {!r}, the operand does not'.format(name, 'accepts' if _accepts(g, w) else 'rejects', ''.join(w)))
                        return
            if len(g['Q']) != n_min:
                rep.violates(rule, f, 'def ' + f.name, 'on the DFA "{}" (all states reachable) the result has {} states, the number of Myhill-Nerode classes is {}: {}'.format(
                    name, len(g['Q']), n_min, 'equivalent states are kept apart' if len(g['Q']) > n_min else 'inequivalent states are merged'))
                return
            if D._f['Q'] != set(Q) or D._f['F'] != set(F) or D._f['delta'] != dict(delta):
                rep.violates(rule, f, 'def ' + f.name, 'on the DFA "{}" the operand is modified'.format(name))
                return
    except (Unsupported, RecursionError) as e:
        rep.undecided(rule, f, 'def ' + f.name, 'outside the evaluator: {}'.format(e))
        return
    rep.holds(rule, f, 'def ' + f.name, 'on {} runs (six model DFAs with every state reachable, under two iteration orders of sets: two equivalent sinks, a swapping pair, F = Q, F empty on a cycle, two minimal ones) the result is a valid total DFA over the same alphabet with the same words up to length 5 and exactly the Myhill-Nerode number of states; the operand is untouched'.format(cases))


def _iso_reference(A, B):
    """is there a bijection between the reachable states (brute force, in the analyser)?"""
    (Q1, S1, d1, i1, F1), (Q2, S2, d2, i2, F2) = A, B
    R1, R2 = sorted(_reach(d1, S1, i1)), sorted(_reach(d2, S2, i2))
    if len(R1) != len(R2):
        return False
    for perm in itertools.permutations(R2):
        m = dict(zip(R1, perm))
        if m[i1] == i2 and all((q in F1) == (m[q] in F2) for q in R1) and all(m[d1[q, a]] == d2[m[q], a] for q in R1 for a in S1):
            return True
    return False


_ISO = {
    'loop1': ({'x'}, {'a'}, {('x', 'a'): 'x'}, 'x', set()),
    'cycle2': ({'y', 'z'}, {'a'}, {('y', 'a'): 'z', ('z', 'a'): 'y'}, 'y', set()),
    'cycle2F': ({'y', 'z'}, {'a'}, {('y', 'a'): 'z', ('z', 'a'): 'y'}, 'y', {'z'}),
    'cycle2F-renamed': ({'m', 'n'}, {'a'}, {('m', 'a'): 'n', ('n', 'a'): 'm'}, 'm', {'n'}),
    'cycle2F-other': ({'m', 'n'}, {'a'}, {('m', 'a'): 'n', ('n', 'a'): 'm'}, 'm', {'m'}),
    'loop1F': ({'x'}, {'a'}, {('x', 'a'): 'x'}, 'x', {'x'}),
    'cycle2FF': ({'y', 'z'}, {'a'}, {('y', 'a'): 'z', ('z', 'a'): 'y'}, 'y', {'y', 'z'}),
    'tail3': ({'p', 'q', 'r'}, {'a'}, {('p', 'a'): 'q', ('q', 'a'): 'r', ('r', 'a'): 'r'}, 'p', {'r'}),
    'tail3-late': ({'p', 'q', 'r'}, {'a'}, {('p', 'a'): 'q', ('q', 'a'): 'r', ('r', 'a'): 'q'}, 'p', {'r'}),
    # equally many reachable states, the same language, no bijection: the synchronous relation pairs one state twice on one
    # side only while both projections have the same size (seed C20-k)
    'lasso-loop1': ({'p', 'q', 'r'}, {'a'}, {('p', 'a'): 'q', ('q', 'a'): 'r', ('r', 'a'): 'r'}, 'p', {'p', 'q', 'r'}),
    'lasso-cycle2': ({'p', 'q', 'r'}, {'a'}, {('p', 'a'): 'q', ('q', 'a'): 'r', ('r', 'a'): 'q'}, 'p', {'p', 'q', 'r'}),
    'lasso4-loop1': ({'p', 'q', 'r', 's'}, {'a'}, {('p', 'a'): 'q', ('q', 'a'): 'r', ('r', 'a'): 's', ('s', 'a'): 's'}, 'p', set()),
    'lasso4-cycle3': ({'p', 'q', 'r', 's'}, {'a'}, {('p', 'a'): 'q', ('q', 'a'): 'r', ('r', 'a'): 's', ('s', 'a'): 'q'}, 'p', set()),
    'ab3': ({'0', '1', '2'}, {'a', 'b'}, {('0', 'a'): '1', ('0', 'b'): '2', ('1', 'a'): '1', ('1', 'b'): '0', ('2', 'a'): '0', ('2', 'b'): '2'}, '0', {'1'}),
    'ab3-renamed': ({'u', 'v', 'w'}, {'a', 'b'}, {('w', 'a'): 'u', ('w', 'b'): 'v', ('u', 'a'): 'u', ('u', 'b'): 'w', ('v', 'a'): 'w', ('v', 'b'): 'v'}, 'w', {'u'}),
    'ab3-swapped': ({'u', 'v', 'w'}, {'a', 'b'}, {('w', 'a'): 'v', ('w', 'b'): 'u', ('u', 'a'): 'u', ('u', 'b'): 'w', ('v', 'a'): 'w', ('v', 'b'): 'v'}, 'w', {'u'}),
    'ab3 + unreachable': ({'u', 'v', 'w', 'z'}, {'a', 'b'}, {('w', 'a'): 'u', ('w', 'b'): 'v', ('u', 'a'): 'u', ('u', 'b'): 'w', ('v', 'a'): 'w', ('v', 'b'): 'v', ('z', 'a'): 'z', ('z', 'b'): 'u'}, 'w', {'u', 'z'}),
}
_ISO_PAIRS = [('loop1', 'cycle2'), ('cycle2', 'loop1'), ('cycle2F', 'cycle2F-renamed'), ('cycle2F', 'cycle2F-other'), ('loop1F', 'cycle2FF'), ('cycle2FF', 'loop1F'),
              ('tail3', 'tail3-late'), ('tail3', 'tail3'), ('ab3', 'ab3-renamed'), ('ab3-renamed', 'ab3'), ('ab3', 'ab3-swapped'), ('cycle2F', 'cycle2'),
              ('ab3', 'ab3 + unreachable'), ('ab3 + unreachable', 'ab3'),
              ('lasso-loop1', 'lasso-cycle2'), ('lasso-cycle2', 'lasso-loop1'), ('lasso4-loop1', 'lasso4-cycle3'), ('lasso4-cycle3', 'lasso4-loop1'), ('lasso-cycle2', 'lasso-cycle2')]


def check_isomorphism(ctx, rep, f, rule=RULE + '.M14'):
    """dfa_isomorphic / dfa_isomorphic1 on model pairs: the answer is True exactly when a bijection between the reachable
    states exists (brute force in the analyser).  The pairs contain a state with two partners in either direction (a loop
    against a 2-cycle), renamed copies, a difference in acceptance at the start and later, and unreachable states."""
    cases = 0
    try:
        for (n1, n2), order in itertools.product(_ISO_PAIRS, ('asc', 'desc')):
            A, B = _ISO[n1], _ISO[n2]
            want = _iso_reference(A, B)
            D1, D2 = _mk(*A), _mk(*B)
            ok, got = _run(rule, rep, f, lambda: _interp(ctx, order, classes={'DFA': _dfa_class}, max_steps=200000).call(f, [D1, D2]), 'on the pair ({}, {})'.format(n1, n2))
            if not ok:
                return
            if not isinstance(got, bool):
                raise Unsupported('the answer is not a boolean')
            cases += 1
            if got != want:
                rep.violates(rule, f, 'def ' + f.name, 'on the pair ({}, {}) the answer is {} although {} bijection between the reachable states exists that maps initial to initial, commutes with the transitions and preserves acceptance'.format(
                    n1, n2, got, 'a' if want else 'no'))
                return
    except (Unsupported, RecursionError) as e:
        rep.undecided(rule, f, 'def ' + f.name, 'outside the evaluator: {}'.format(e))
        return
    rep.holds(rule, f, 'def ' + f.name, 'on {} runs (19 model pairs under two iteration orders of sets: a loop against a 2-cycle in both orders, lassos with equally many states and the same language but a loop of another length, renamed copies, acceptance differing at the start and later, a swapped transition, unreachable states) the answer is True exactly when a bijection of the reachable states exists'.format(cases))


class _Sym(str):
    """a grammar symbol of the model: a string (Variable and Terminal ARE strings in the repository) that knows its class"""
    def __new__(cls, content, kind):
        o = super().__new__(cls, content)
        o._gt_cls = kind
        return o

    def __deepcopy__(self, memo):
        return self      # immutable

    def __copy__(self):
        return self

    def __reduce__(self):
        return (_Sym, (str(self), self._gt_cls))


def V(x):
    return _Sym(x, 'Variable')


def T(x):
    return _Sym(x, 'Terminal')


def _grammar(rules, S='S'):
    R = []
    Vs, Ts = set(), set()
    for lhs, alts in rules:
        Vs.add(V(lhs))
        for alt in alts:
            syms = [V(c) if c.isupper() else T(c) for c in alt]
            for s in syms:
                (Vs if s._gt_cls == 'Variable' else Ts).add(s)
            R.append(Obj('Rule', variable=V(lhs), alternative=Obj('Alternative', symbols=syms)))
    return Obj('CFG', V=Vs, Sigma=Ts, R=R, S=V(S))


def _nullable_reference(rules):
    nullable = set()
    changed = True
    while changed:
        changed = False
        for lhs, alts in rules:
            if lhs not in nullable and any(all(c.isupper() and c in nullable for c in alt) for alt in alts):
                nullable.add(lhs)
                changed = True
    return nullable


_GRAMMARS = {
    'S -> AAB; A -> a | eps; B -> b': [('S', ['AAB']), ('A', ['a', '']), ('B', ['b'])],
    'S -> AB; A -> eps; B -> eps | b': [('S', ['AB']), ('A', ['']), ('B', ['', 'b'])],
    'S -> aS | T; T -> eps; U -> TT; W -> Ta': [('S', ['aS', 'T']), ('T', ['']), ('U', ['TT']), ('W', ['Ta'])],
    'S -> AA; A -> BB; B -> eps; C -> AcA': [('S', ['AA']), ('A', ['BB']), ('B', ['']), ('C', ['AcA'])],
    'S -> a': [('S', ['a'])],
    'S -> AB | a; A -> BS | eps; B -> A': [('S', ['AB', 'a']), ('A', ['BS', '']), ('B', ['A'])],
    'S -> ABA; A -> eps; B -> BB | b': [('S', ['ABA']), ('A', ['']), ('B', ['BB', 'b'])],
}


def check_nullable(ctx, rep, f, rule=RULE + '.M15'):
    """cfg_nullable_variables: the least set closed under "A -> X1..Xk with every Xi a nullable variable" -- on grammars with a
    nullable variable that occurs twice next to a non-nullable one, terminals inside otherwise nullable right-hand sides,
    chains and cycles of nullable variables, and no epsilon rule at all."""
    cases = 0
    try:
        for (name, rules), order in itertools.product(_GRAMMARS.items(), ('asc', 'desc')):
            G = _grammar(rules)
            ok, got = _run(rule, rep, f, lambda: _interp(ctx, order, max_steps=200000).call(f, [G]), 'on the grammar {}'.format(name))
            if not ok:
                return
            if not isinstance(got, (set, frozenset)):
                raise Unsupported('the result is not a set')
            want = _nullable_reference(rules)
            cases += 1
            if {str(x) for x in got} != want:
                rep.violates(rule, f, 'def ' + f.name, 'on the grammar {} the nullable variables are {} instead of {}: {}'.format(
                    name, sorted(str(x) for x in got), sorted(want), 'a variable that cannot derive the empty word is taken for nullable (epsilon elimination then drops it from right-hand sides and the language grows)'
                    if {str(x) for x in got} - want else 'a nullable variable is missed (epsilon elimination then loses words)'))
                return
    except (Unsupported, RecursionError) as e:
        rep.undecided(rule, f, 'def ' + f.name, 'outside the evaluator: {}'.format(e))
        return
    rep.holds(rule, f, 'def ' + f.name, 'on {} runs (seven model grammars under two iteration orders of sets: a nullable variable twice next to a non-nullable one, terminals inside right-hand sides, chains and cycles, no epsilon rule) the result is the least fixpoint of the definition'.format(cases))


def _interp(ctx, order, **kw):
    it = Interp(ctx, **kw)
    it.set_order = order
    it.copy_records = True      # deepcopy of a model record copies its fields (refused when a class of the tree has a copy hook)
    return it


def _rules_of(G):
    out = []
    for r in G._f['R']:
        out.append((str(r._f['variable']), [(str(x), getattr(x, '_gt_cls', None)) for x in r._f['alternative']._f['symbols']]))
    return out


def _words(rules, S, k):
    """the words of length <= k that S derives (grammars of the models have no epsilon rules: forms never shrink)"""
    by = {}
    for lhs, syms in rules:
        by.setdefault(lhs, []).append(syms)
    seen, todo, words = set(), [((S, 'Variable'),)], set()
    while todo:
        form = todo.pop()
        if form in seen or len(form) > max(k, 1):     # the start form has length 1 and may still shrink to the empty word
            continue
        seen.add(form)
        idx = next((i for i, (x, kind) in enumerate(form) if kind == 'Variable'), None)
        if idx is None:
            if len(form) <= k:
                words.add(''.join(x for x, _ in form))
            continue
        for syms in by.get(form[idx][0], []):
            todo.append(form[:idx] + tuple(syms) + form[idx + 1:])
    return words


_CFG_CLASSES = {'Rule': lambda v, alt: Obj('Rule', variable=v, alternative=alt), 'Alternative': lambda syms: Obj('Alternative', symbols=syms)}

_UNIT_GRAMMARS = {
    'S -> B; B -> A | b; A -> B | C; C -> c': [('S', ['B']), ('B', ['A', 'b']), ('A', ['B', 'C']), ('C', ['c'])],
    'S -> A | B; A -> B; B -> A': [('S', ['A', 'B']), ('A', ['B']), ('B', ['A'])],
    'S -> aS | T; T -> U | b; U -> c | T': [('S', ['aS', 'T']), ('T', ['U', 'b']), ('U', ['c', 'T'])],
    'S -> AB; A -> a; B -> b': [('S', ['AB']), ('A', ['a']), ('B', ['b'])],
    'S -> S | a': [('S', ['S', 'a'])],
    'S -> A; A -> B; B -> C | AA; C -> A | a': [('S', ['A']), ('A', ['B']), ('B', ['C', 'AA']), ('C', ['A', 'a'])],
}


def check_unit_elimination(ctx, rep, f, rule=RULE + '.M16'):
    """cfg_eliminate_unit_rules_in_place on model grammars with unit-rule cycles that have an exit, a start variable that only
    reaches unit rules (empty language), a self-loop and no unit rule at all, each under two iteration orders of the
    variable set: afterwards no unit rule is left and the words up to length 3 are those of the operand."""
    cases = 0
    try:
        for name, rules in _UNIT_GRAMMARS.items():
            for order in ('asc', 'desc'):
                G = _grammar(rules)
                before = _words(_rules_of(G), 'S', 3)
                ok, _ = _run(rule, rep, f, lambda: _interp(ctx, order, classes=_CFG_CLASSES, max_steps=400000).call(f, [G]),
                             'on the grammar {} (a grammar whose start variable keeps no rule still has a language: the empty one)'.format(name))
                if not ok:
                    return
                after_rules = _rules_of(G)
                cases += 1
                unit = [(lhs, syms) for lhs, syms in after_rules if len(syms) == 1 and syms[0][1] == 'Variable']
                if unit:
                    rep.violates(rule, f, 'def ' + f.name, 'on the grammar {} the unit rule {} -> {} is left'.format(name, unit[0][0], unit[0][1][0][0]))
                    return
                after = _words(after_rules, str(G._f['S']), 3)
                if after != before:
                    rep.violates(rule, f, 'def ' + f.name, 'on the grammar {} (variables visited in {} order) the words up to length 3 change from {} to {}: {}'.format(
                        name, 'ascending' if order == 'asc' else 'descending', sorted(before), sorted(after),
                        'the unit closure of a variable on a cycle is incomplete' if before - after else 'rules are copied to a variable that does not derive them'))
                    return
    except (Unsupported, RecursionError) as e:
        rep.undecided(rule, f, 'def ' + f.name, 'outside the evaluator: {}'.format(e))
        return
    rep.holds(rule, f, 'def ' + f.name, 'on {} runs (six model grammars: unit cycles with an exit, a start variable that only reaches unit rules, a self-loop, no unit rule; two iteration orders of the variable set) no unit rule is left and the words up to length 3 are unchanged'.format(cases))


# ---- NFA union / concatenation / star on model NFAs ---------------------------------------------------------------------------

def _nfa(Q, Sigma, trans, q0, F, eps=''):
    delta = {}
    for (p, a, q) in trans:
        delta.setdefault((p, a), set()).add(q)
    return Obj('NFA', Q=set(Q), Sigma=set(Sigma), delta=delta, q0=q0, F=set(F), epsilon=eps)


def _nfa_class(Q, Sigma, delta, q0, F, epsilon='', check_validity=True):
    return Obj('NFA', Q=Q, Sigma=Sigma, delta=delta, q0=q0, F=F, epsilon=epsilon)


def _nfa_lang(N, alphabet, k):
    f = N._f
    delta, eps = f['delta'], f['epsilon']

    def close(S):
        S = set(S)
        todo = list(S)
        while todo:
            q = todo.pop()
            for q1 in delta.get((q, eps), ()):
                if q1 not in S:
                    S.add(q1)
                    todo.append(q1)
        return S
    out = set()
    for n in range(k + 1):
        for w in itertools.product(sorted(alphabet), repeat=n):
            S = close({f['q0']})
            for a in w:
                S = close({q1 for q in S for q1 in delta.get((q, a), ())}) if a != eps and a in f['Sigma'] else set()
            if S & set(f['F']):
                out.add(''.join(w))
    return out


_NFAS = {
    'a*+b': (['p0', 'p1', 'p2'], ['a', 'b'], [('p0', '', 'p1'), ('p1', 'a', 'p1'), ('p0', 'b', 'p2')], 'p0', ['p1', 'p2'], ''),
    'c': (['r0', 'r1'], ['c'], [('r0', 'c', 'r1')], 'r0', ['r1'], ''),
    'a (states q0 q1)': (['q0', 'q1'], ['a'], [('q0', 'a', 'q1')], 'q0', ['q1'], ''),
    '(ab)* (initial state final)': (['s0', 's1'], ['a', 'b'], [('s0', 'a', 's1'), ('s1', 'b', 's0')], 's0', ['s0'], ''),
    "e (epsilon '')": (['m0', 'm1'], ['e'], [('m0', 'e', 'm1')], 'm0', ['m1'], ''),
    "x (epsilon 'e')": (['n0', 'n1', 'n2'], ['x'], [('n0', 'e', 'n1'), ('n1', 'x', 'n2')], 'n0', ['n2'], 'e'),
    'b + ba (two final states, one with a way on)': (['t0', 't1', 't2'], ['a', 'b'], [('t0', 'b', 't1'), ('t1', 'a', 't2')], 't0', ['t1', 't2'], ''),
}
_NFA_PAIRS = [('a*+b', 'c'), ('c', 'a*+b'), ('a (states q0 q1)', 'c'), ('(ab)* (initial state final)', 'a*+b'), ("e (epsilon '')", "x (epsilon 'e')"),
              ('b + ba (two final states, one with a way on)', 'c'), ('a*+b', '(ab)* (initial state final)')]


def _snapshot(N):
    f = N._f
    return (set(f['Q']), set(f['Sigma']), {k: set(v) for k, v in f['delta'].items() if v}, f['q0'], set(f['F']), f['epsilon'])


def check_nfa_operation(ctx, rep, f, op, rule=RULE + '.M17'):
    """nfa_union / nfa_concatenation / nfa_repetition on model NFAs: the result is a valid NFA whose words up to length 4 are
    exactly L1 u L2 / L1.L2 / L*; the operands are untouched.  The models have several final states with DIFFERENT ways on,
    a final initial state, state names that collide with generated names, and operands with different epsilon symbols."""
    K = 4
    cases = 0
    classes = {'NFA': _nfa_class, 'IdentifierGenerator': lambda index=0: Obj('IdentifierGenerator', index=index)}
    try:
        jobs = [(n,) for n in _NFAS if "epsilon 'e'" not in n] if op == 'star' else _NFA_PAIRS
        for names in jobs:
            for order in ('asc', 'desc'):
                Ns = [_nfa(*_NFAS[n]) for n in names]
                snaps = [_snapshot(N) for N in Ns]
                alphabet = set().union(*[N._f['Sigma'] for N in Ns])
                langs = [_nfa_lang(N, alphabet, K) for N in Ns]
                if op == 'union':
                    want = langs[0] | langs[1]
                elif op == 'concat':
                    want = {u + v for u in langs[0] for v in langs[1] if len(u + v) <= K}
                else:
                    want, frontier = {''}, {''}
                    while frontier:
                        frontier = {u + v for u in frontier for v in langs[0] if v and len(u + v) <= K} - want
                        want |= frontier
                what = 'on ' + ' and '.join('"{}"'.format(n) for n in names)
                ok, got = _run(rule, rep, f, lambda: _interp(ctx, order, classes=classes, max_steps=200000).call(f, Ns), what)
                if not ok:
                    return
                if not isinstance(got, Obj) or got._cls != 'NFA':
                    raise Unsupported('the result is not an NFA built by the constructor')
                cases += 1
                g = got._f
                delta = {k: set(v) for k, v in dict(g['delta']).items() if v}
                Q, eps = set(g['Q']), g['epsilon']
                if g['q0'] not in Q or not set(g['F']) <= Q or eps in set(g['Sigma']) or any(p not in Q or not set(v) <= Q or (a != eps and a not in set(g['Sigma'])) for (p, a), v in delta.items()):
                    rep.violates(rule, f, 'def ' + f.name, '{} the result is not a valid NFA (initial / final state or a transition outside the states, a label outside the alphabet, or epsilon inside it)'.format(what))
                    return
                have = _nfa_lang(Obj('NFA', Q=Q, Sigma=set(g['Sigma']), delta=delta, q0=g['q0'], F=set(g['F']), epsilon=eps), alphabet, K)
                if have != want:
                    extra, missing = sorted(have - want), sorted(want - have)
                    rep.violates(rule, f, 'def ' + f.name, '{} the words up to length {} of the result are not those of the {}: {}'.format(
                        what, K, {'union': 'union', 'concat': 'concatenation', 'star': 'iteration'}[op],
                        'it accepts {!r}, which is not in the language'.format(extra[0]) if extra else 'it rejects {!r}, which is in the language'.format(missing[0])))
                    return
                if [_snapshot(N) for N in Ns] != snaps:
                    rep.violates(rule, f, 'def ' + f.name, '{} an operand is modified'.format(what))
                    return
    except (Unsupported, RecursionError) as e:
        rep.undecided(rule, f, 'def ' + f.name, 'outside the evaluator: {}'.format(e))
        return
    rep.holds(rule, f, 'def ' + f.name, 'on {} runs (model NFAs with several final states that have different ways on, a final initial state, state names q0 / q1, operands with different epsilon symbols; two iteration orders of sets) the result is a valid NFA with exactly the words up to length {} of the {}, and the operands are untouched'.format(
        cases, K, {'union': 'union', 'concat': 'concatenation', 'star': 'iteration'}[op]))


# ---- readers of subset names invert the writer -------------------------------------------------------------------------------

def check_subset_name_readers(ctx, rep, host, writer, rule='R-IO.inv'):
    """the local helpers of the NFA-to-DFA checker that decode a DFA state name `{q0,q1}` back into a set of NFA states invert
    dfa.print_state_set -- on the empty set (the dead state of every partial NFA), a singleton and larger sets.  The decoder is
    found by what it does (one parameter, splits a string), not by its name."""
    import re as _re
    stubs = {}
    for fn in ('fullmatch', 'match', 'search'):
        stubs['re.' + fn] = (lambda interp, args, kwargs, fn=fn: getattr(_re, fn)(*args, **kwargs))
    n = 0
    for g in host.nested.values():
        own = [x for x in g.body_nodes()]
        import ast as _ast
        if len(g.params) != 1 or not any(isinstance(x, _ast.Call) and isinstance(x.func, _ast.Attribute) and x.func.attr == 'split' for x in own):
            continue
        n += 1
        try:
            for S in (set(), {'q0'}, {'q0', 'q1'}, {'p', 'q', 'r'}):
                for order in ('asc',):
                    it = _interp(ctx, order, stubs=stubs)
                    name = it.call(writer, [set(S)])
                    if not isinstance(name, str):
                        raise Unsupported('the writer does not return a string')
                    try:
                        got = it.call(g, [name])
                    except Raised as ex:
                        if ex.name in ('TypeError', 'AttributeError'):
                            raise Unsupported('the evaluator met a {} it cannot attribute to the code'.format(ex.name))
                        rep.violates(rule, g, 'def ' + g.name, 'raises {} on the name {!r} that print_state_set gives to the set {}'.format(ex.name, name, sorted(S)))
                        break
                    if hasattr(got, '__next__'):
                        got = set(got)
                    if not isinstance(got, (set, frozenset, list)):
                        raise Unsupported('the reader does not return a collection')
                    if set(got) != S:
                        rep.violates(rule, g, 'def ' + g.name, 'the name {!r}, which print_state_set gives to the set {}, is read back as {}: {}'.format(
                            name, sorted(S), sorted(got), 'the dead state {} of a partial NFA is taken for a set with one nameless element, so a correct answer is rejected' if not S else 'the checker compares the wrong sets'))
                        break
                else:
                    continue
                break
            else:
                rep.holds(rule, g, 'def ' + g.name, 'reads the names that print_state_set gives to the empty set, a singleton, a pair and a triple back as those sets')
        except (Unsupported, RecursionError) as e:
            rep.undecided(rule, g, 'def ' + g.name, 'outside the evaluator: {}'.format(e))
    return n


# ---- the grammar enumerator on model grammars in Chomsky normal form ----------------------------------------------------------

_CNF_GRAMMARS = {
    'S -> AB; A -> AA | a; B -> BB | b': [('S', ['AB']), ('A', ['AA', 'a']), ('B', ['BB', 'b'])],
    'S -> eps | AB; A -> a; B -> b': [('S', ['', 'AB']), ('A', ['a']), ('B', ['b'])],
    'S -> XC; X -> AB; A -> AA | a; B -> b; C -> CC | c': [('S', ['XC']), ('X', ['AB']), ('A', ['AA', 'a']), ('B', ['b']), ('C', ['CC', 'c'])],
    'S -> a': [('S', ['a'])],
    'S -> AA | a; A -> BB | b; B -> AB | c': [('S', ['AA', 'a']), ('A', ['BB', 'b']), ('B', ['AB', 'c'])],
}


def check_cfg_words(ctx, rep, f, rule=RULE + '.M18'):
    """cfg_words_up_to_n on model grammars in Chomsky normal form, n = 0..4: exactly the words up to length n that the start
    variable derives (computed by the analyser from the model).  The models need a variable that is NOT the leftmost one to
    be expanded while the leftmost one could be expanded as well, an empty-word rule, and mutual recursion."""
    cases = 0
    try:
        for name, rules in _CNF_GRAMMARS.items():
            for n in range(5):
                G = _grammar(rules)
                G._f['epsilon'] = T('ε')
                want = _words(_rules_of(G), 'S', n)
                ok, got = _run(rule, rep, f, lambda: _interp(ctx, 'asc', classes=_CFG_CLASSES, max_steps=2000000).call(f, [G, n]), 'on the grammar {} with n = {}'.format(name, n))
                if not ok:
                    return
                if not isinstance(got, (set, frozenset)):
                    raise Unsupported('the result is not a set')
                cases += 1
                have = {str(w) for w in got}
                if have != want:
                    extra, missing = sorted(have - want), sorted(want - have)
                    rep.violates(rule, f, 'def ' + f.name, 'on the grammar {} with n = {} the result {}'.format(
                        name, n, 'contains {!r}, which the start variable does not derive within the bound'.format(extra[0]) if extra else 'misses {!r}, which the start variable derives'.format(missing[0])))
                    return
    except (Unsupported, RecursionError) as e:
        rep.undecided(rule, f, 'def ' + f.name, 'outside the evaluator: {}'.format(e))
        return
    rep.holds(rule, f, 'def ' + f.name, 'on {} runs (five model grammars in Chomsky normal form, n = 0..4) the result is exactly the set of words up to length n that the start variable derives'.format(cases))


# ---- NFA acceptance, epsilon closure and the subset construction on model NFAs -----------------------------------------------

_ACC_NFAS = dict(_NFAS)
_ACC_NFAS.update({
    'epsilon 3-cycle with an exit': (['A', 'B', 'C'], ['x'], [('A', '', 'B'), ('B', '', 'C'), ('C', '', 'A'), ('A', 'x', 'C')], 'A', ['B'], ''),
    'epsilon 3-cycle entered late': (['I', 'A', 'B', 'C', 'D'], ['x', 'y'], [('I', 'x', 'C'), ('A', '', 'B'), ('B', '', 'C'), ('C', '', 'A'), ('B', 'y', 'D')], 'I', ['D'], ''),
    'no final state': (['u0', 'u1'], ['a'], [('u0', 'a', 'u1'), ('u1', '', 'u0')], 'u0', [], ''),
    'total and nondeterministic (contains aa)': (['0', '1', '2'], ['a', 'b'], [('0', 'a', '0'), ('0', 'b', '0'), ('0', 'a', '1'), ('1', 'a', '2'), ('1', 'b', '0'), ('2', 'a', '2'), ('2', 'b', '2')], '0', ['2'], ''),
    'unreachable final state': (['v0', 'v1', 'v2'], ['a'], [('v0', 'a', 'v0'), ('v2', 'a', 'v1')], 'v0', ['v1'], ''),
    'entry with an empty target set': (['w0', 'w1'], ['a', 'b'], [('w0', 'a', 'w1')], 'w0', ['w1'], ''),
})


def _closure_ref(N, S):
    f = N._f
    S = set(S)
    todo = list(S)
    while todo:
        q = todo.pop()
        for q1 in f['delta'].get((q, f['epsilon']), ()):
            if q1 not in S:
                S.add(q1)
                todo.append(q1)
    return S


def check_nfa_acceptance(ctx, rep, f_acc, f_clo, rule=RULE + '.M19'):
    """nfa_accepts_word on model NFAs and all words up to length 4 against the definition (a run exists), and epsilon_closure of
    every state and of a pair of states against reachability by epsilon moves.  The models contain epsilon cycles of length 3
    with an exit (entered at the start and after a letter), partial transition relations, an entry whose target set is empty,
    no final state, an unreachable final state, nondeterminism, a second epsilon symbol."""
    cases = 0
    try:
        for name, spec in _ACC_NFAS.items():
            for order in ('asc', 'desc'):
                N = _nfa(*spec)
                if name == 'entry with an empty target set':
                    N._f['delta'][('w1', 'b')] = set()
                snap = _snapshot(N)
                alphabet = set(N._f['Sigma'])
                want = _nfa_lang(N, alphabet, 4)
                for S in [{q} for q in sorted(N._f['Q'])] + [set(sorted(N._f['Q'])[:2])]:
                    for arg in ([next(iter(S))] if len(S) == 1 else []) + [set(S)]:
                        ok, got = _run(rule, rep, f_clo, lambda: _interp(ctx, order, classes={'NFA': _nfa_class}).call(f_clo, [N, arg]), 'on the NFA "{}" and {}'.format(name, sorted(S)))
                        if not ok:
                            return
                        if not isinstance(got, (set, frozenset)):
                            raise Unsupported('the closure is not a set')
                        cases += 1
                        if set(got) != _closure_ref(N, S):
                            rep.violates(rule, f_clo, 'def ' + f_clo.name, 'on the NFA "{}" the epsilon closure of {} is {} instead of {}'.format(name, sorted(S), sorted(got), sorted(_closure_ref(N, S))))
                            return
                for k in range(5):
                    for w in itertools.product(sorted(alphabet), repeat=k):
                        word = ''.join(w)
                        ok, got = _run(rule, rep, f_acc, lambda: _interp(ctx, order, classes={'NFA': _nfa_class}, max_steps=200000).call(f_acc, [N, word]), 'on the NFA "{}" and the word {!r}'.format(name, word))
                        if not ok:
                            return
                        if not isinstance(got, bool):
                            raise Unsupported('the answer is not a boolean')
                        cases += 1
                        if got != (word in want):
                            rep.violates(rule, f_acc, 'def ' + f_acc.name, 'on the NFA "{}" the word {!r} is {} although {} accepting run exists'.format(name, word, 'accepted' if got else 'rejected', 'an' if word in want else 'no'))
                            return
                if _snapshot(N) != snap:
                    rep.violates(rule, f_acc, 'def ' + f_acc.name, 'on the NFA "{}" the operand is modified (its transition relation, states or final states)'.format(name))
                    return
    except (Unsupported, RecursionError) as e:
        rep.undecided(rule, f_acc, 'def ' + f_acc.name, 'outside the evaluator: {}'.format(e))
        return
    rep.holds(rule, f_acc, 'def ' + f_acc.name, 'on {} evaluations ({} model NFAs: epsilon cycles of length 3 with an exit, partial relations, an empty target set, no final state, an unreachable final state, nondeterminism, a second epsilon symbol; all words up to length 4; closures of every state and of a pair; two iteration orders of sets) the answers are those of the definition and the operand is untouched'.format(cases, len(_ACC_NFAS)))


def check_subset_construction(ctx, rep, f, rule=RULE + '.M20'):
    """nfa_to_dfa on the same model NFAs: the result is a valid TOTAL DFA over the alphabet of the NFA, accepts the same words up
    to length 4, every state of it is reachable, and the operand is untouched."""
    cases = 0
    try:
        for name, spec in _ACC_NFAS.items():
            for order in ('asc', 'desc'):
                N = _nfa(*spec)
                if name == 'entry with an empty target set':
                    N._f['delta'][('w1', 'b')] = set()
                snap = _snapshot(N)
                Sigma = set(N._f['Sigma'])
                want = _nfa_lang(N, Sigma, 4)
                ok, got = _run(rule, rep, f, lambda: _interp(ctx, order, classes={'NFA': _nfa_class, 'DFA': _dfa_class}, max_steps=400000).call(f, [N]), 'on the NFA "{}"'.format(name))
                if not ok:
                    return
                if not isinstance(got, Obj) or got._cls != 'DFA':
                    raise Unsupported('the result is not a DFA built by the constructor')
                cases += 1
                g = got._f
                if set(g['Sigma']) != Sigma:
                    rep.violates(rule, f, 'def ' + f.name, 'on the NFA "{}" the alphabet of the result is {} instead of {}'.format(name, sorted(g['Sigma']), sorted(Sigma)))
                    return
                if g['q0'] not in g['Q'] or not set(g['F']) <= set(g['Q']) or any((q, a) not in g['delta'] or g['delta'][q, a] not in g['Q'] for q in g['Q'] for a in Sigma):
                    rep.violates(rule, f, 'def ' + f.name, 'on the NFA "{}" the result is not a valid total DFA (a missing transition, or the initial state / a final state / a target outside the states)'.format(name))
                    return
                for k in range(5):
                    for w in itertools.product(sorted(Sigma), repeat=k):
                        if _accepts(g, w) != (''.join(w) in want):
                            rep.violates(rule, f, 'def ' + f.name, 'on the NFA "{}" the DFA {} the word {!r}, the NFA does not'.format(name, 'accepts' if _accepts(g, w) else 'rejects', ''.join(w)))
                            return
                if _reach(g['delta'], Sigma, g['q0']) != set(g['Q']):
                    rep.violates(rule, f, 'def ' + f.name, 'on the NFA "{}" the result has unreachable states: {}'.format(name, sorted(set(g['Q']) - _reach(g['delta'], Sigma, g['q0']))))
                    return
                if _snapshot(N) != snap:
                    rep.violates(rule, f, 'def ' + f.name, 'on the NFA "{}" the operand is modified'.format(name))
                    return
    except (Unsupported, RecursionError) as e:
        rep.undecided(rule, f, 'def ' + f.name, 'outside the evaluator: {}'.format(e))
        return
    rep.holds(rule, f, 'def ' + f.name, 'on {} runs ({} model NFAs under two iteration orders of sets) the result is a valid total DFA over the same alphabet with the same words up to length 4 and only reachable states; the operand is untouched'.format(cases, len(_ACC_NFAS)))


# ---- the DFA closure constructions on model DFAs --------------------------------------------------------------------------------

_C_DFAS = {
    'even a': ({'e', 'o'}, {'a', 'b'}, {('e', 'a'): 'o', ('e', 'b'): 'e', ('o', 'a'): 'e', ('o', 'b'): 'o'}, 'e', {'e'}),
    'ends in b': ({'p', 'q'}, {'a', 'b'}, {('p', 'a'): 'p', ('p', 'b'): 'q', ('q', 'a'): 'p', ('q', 'b'): 'q'}, 'p', {'q'}),
    'a, ab, abb (finite, with extensions)': ({'0', '1', '2', '3', 'x'}, {'a', 'b'}, {('0', 'a'): '1', ('0', 'b'): 'x', ('1', 'a'): 'x', ('1', 'b'): '2', ('2', 'a'): 'x', ('2', 'b'): '3', ('3', 'a'): 'x', ('3', 'b'): 'x', ('x', 'a'): 'x', ('x', 'b'): 'x'}, '0', {'1', '2', '3'}),
    'empty word and b* (initial state final)': ({'s', 't'}, {'a', 'b'}, {('s', 'a'): 't', ('s', 'b'): 's', ('t', 'a'): 't', ('t', 'b'): 't'}, 's', {'s'}),
    'nothing': ({'z'}, {'a', 'b'}, {('z', 'a'): 'z', ('z', 'b'): 'z'}, 'z', set()),
}
_C_PAIRS = [('even a', 'ends in b'), ('ends in b', 'even a'), ('a, ab, abb (finite, with extensions)', 'empty word and b* (initial state final)'), ('nothing', 'even a'), ('even a', 'even a')]


def _dfa_lang(D, k):
    f = _fields(D)
    out = set()
    for n in range(k + 1):
        for w in itertools.product(sorted(f['Sigma']), repeat=n):
            q = f['q0']
            for a in w:
                q = f['delta'].get((q, a))
                if q is None:
                    break
            if q is not None and q in f['F']:
                out.add(''.join(w))
    return out


def _all_words(Sigma, k):
    return {''.join(w) for n in range(k + 1) for w in itertools.product(sorted(Sigma), repeat=n)}


def check_dfa_constructions(ctx, rep, funcs, rule=RULE + '.M21'):
    """the DFA closure constructions on model DFAs (a finite language with extensions, an initial state that is final, the empty
    language, two infinite ones): the result is a valid automaton whose words up to length 4 are exactly the complement /
    union / intersection / symmetric difference / mirror image / prefix-free part / non-extendable part of the operands'
    (for the last two the reference looks at words up to length 6 of a finite language); operands untouched.
    funcs: name -> FuncInfo for complement, union, intersection, symmetric_difference, reverse, no_prefix, no_extend."""
    K = 4
    classes = {'NFA': _nfa_class, 'DFA': _dfa_class}
    total = 0
    for op, f in funcs.items():
        cases = 0
        try:
            jobs = _C_PAIRS if op in ('union', 'intersection', 'symmetric_difference') else [(n,) for n in _C_DFAS]
            bad = False
            for names in jobs:
                for order in ('asc', 'desc'):
                    Ds = [_mk(*_C_DFAS[n]) for n in names]
                    snaps = [(set(D._f['Q']), dict(D._f['delta']), set(D._f['F']), D._f['q0'], set(D._f['Sigma'])) for D in Ds]
                    Sigma = set(Ds[0]._f['Sigma'])
                    Ls = [_dfa_lang(D, K + 2) for D in Ds]
                    U = _all_words(Sigma, K + 2)
                    if op == 'complement':
                        want = U - Ls[0]
                    elif op == 'union':
                        want = Ls[0] | Ls[1]
                    elif op == 'intersection':
                        want = Ls[0] & Ls[1]
                    elif op == 'symmetric_difference':
                        want = Ls[0] ^ Ls[1]
                    elif op == 'reverse':
                        want = {w[::-1] for w in Ls[0]}
                    elif op == 'no_prefix':
                        want = {w for w in Ls[0] if not any(w[:i] in Ls[0] for i in range(len(w)))}
                    else:
                        # non-extendable: exact for the finite model (its longest word has length 3) and for languages where every word has an extension one or two letters on
                        want = {w for w in Ls[0] if len(w) <= K and not any(v != w and v.startswith(w) for v in Ls[0])}
                    want = {w for w in want if len(w) <= K}
                    what = 'on ' + ' and '.join('"{}"'.format(n) for n in names)
                    ok, got = _run(rule, rep, f, lambda: _interp(ctx, order, classes=classes, max_steps=400000).call(f, Ds), what)
                    if not ok:
                        bad = True
                        break
                    if not isinstance(got, Obj) or got._cls not in ('DFA', 'NFA'):
                        raise Unsupported('the result is not an automaton built by a constructor')
                    cases += 1
                    g = got._f
                    if got._cls == 'DFA':
                        valid = g['q0'] in g['Q'] and set(g['F']) <= set(g['Q']) and all(p in g['Q'] and a in g['Sigma'] and q in g['Q'] for (p, a), q in dict(g['delta']).items())
                        have = _dfa_lang(got, K)
                    else:
                        delta = {k: set(v) for k, v in dict(g['delta']).items() if v}
                        valid = g['q0'] in g['Q'] and set(g['F']) <= set(g['Q']) and g['epsilon'] not in set(g['Sigma']) and all(p in g['Q'] and set(v) <= set(g['Q']) and (a == g['epsilon'] or a in g['Sigma']) for (p, a), v in delta.items())
                        have = _nfa_lang(Obj('NFA', Q=set(g['Q']), Sigma=set(g['Sigma']), delta=delta, q0=g['q0'], F=set(g['F']), epsilon=g['epsilon']), Sigma, K)
                    if not valid or set(g['Sigma']) != Sigma:
                        rep.violates(rule, f, 'def ' + f.name, '{} the result is not a valid automaton over the alphabet of the operands'.format(what))
                        bad = True
                        break
                    if have != want:
                        extra, missing = sorted(have - want), sorted(want - have)
                        rep.violates(rule, f, 'def ' + f.name, '{} the words up to length {} of the result are not the {}: {}'.format(
                            what, K, op.replace('_', ' '), 'it accepts {!r}'.format(extra[0]) if extra else 'it rejects {!r}'.format(missing[0])))
                        bad = True
                        break
                    if [(set(D._f['Q']), dict(D._f['delta']), set(D._f['F']), D._f['q0'], set(D._f['Sigma'])) for D in Ds] != snaps:
                        rep.violates(rule, f, 'def ' + f.name, '{} an operand is modified'.format(what))
                        bad = True
                        break
                if bad:
                    break
            if not bad:
                rep.holds(rule, f, 'def ' + f.name, 'on {} runs (model DFAs: a finite language with extensions, an initial state that is final, the empty language, two infinite ones; two iteration orders of sets) the result is a valid automaton with exactly the words up to length {} of the {}; operands untouched'.format(cases, K, op.replace('_', ' ')))
                total += 1
        except (Unsupported, RecursionError) as e:
            rep.undecided(rule, f, 'def ' + f.name, 'outside the evaluator: {}'.format(e))
    return total


# ---- the regular-expression matcher on model expressions ------------------------------------------------------------------------

def _rx(t):
    k = t[0]
    if k in ('Zero', 'One'):
        return Obj(k)
    if k == 'Symbol':
        return Obj('Symbol', symbol=t[1])
    if k == 'Iteration':
        return Obj('Iteration', operand=_rx(t[1]))
    return Obj(k, left=_rx(t[1]), right=_rx(t[2]))


def _rx_lang(t, k):
    """words up to length k of the denoted language (set semantics, in the analyser)"""
    kind = t[0]
    if kind == 'Zero':
        return set()
    if kind == 'One':
        return {''}
    if kind == 'Symbol':
        return {t[1]} if len(t[1]) <= k else set()
    if kind == 'Sum':
        return _rx_lang(t[1], k) | _rx_lang(t[2], k)
    if kind == 'Concat':
        return {u + v for u in _rx_lang(t[1], k) for v in _rx_lang(t[2], k) if len(u + v) <= k}
    L = _rx_lang(t[1], k)
    out, frontier = {''}, {''}
    while frontier:
        frontier = {u + v for u in frontier for v in L if v and len(u + v) <= k} - out
        out |= frontier
    return out


def _rx_str(t):
    k = t[0]
    if k == 'Zero':
        return '0'
    if k == 'One':
        return '1'
    if k == 'Symbol':
        return t[1]
    if k == 'Iteration':
        return '(' + _rx_str(t[1]) + ')*'
    return '(' + _rx_str(t[1]) + ('+' if k == 'Sum' else '.') + _rx_str(t[2]) + ')'


def _model_regexps():
    a, b, one, zero = ('Symbol', 'a'), ('Symbol', 'b'), ('One',), ('Zero',)
    S = lambda x, y: ('Sum', x, y)       # noqa: E731
    C = lambda x, y: ('Concat', x, y)    # noqa: E731
    I = lambda x: ('Iteration', x)       # noqa: E731
    return [zero, one, a, S(a, b), C(a, b), I(a), C(I(a), b), C(one, b), C(b, one), C(I(a), I(b)), I(C(one, a)), C(a, a), I(I(a)), I(S(a, one)), I(S(one, one)), I(zero),
            C(zero, a), S(zero, a), I(C(a, b)), C(I(S(a, b)), C(b, S(a, b))), I(C(I(a), I(b))), C(C(a, I(b)), a), S(C(a, b), C(b, a)), I(S(C(a, a), b)), C(S(one, a), S(one, b)),
            C(I(a), C(I(b), a)), I(C(a, I(a))), C(a, C(b, a)), C(C(a, b), a), S(I(a), C(b, I(a))),
            # the first / shortest split that matches is a dead end, a later one succeeds
            I(S(a, C(a, b))), C(S(a, C(a, b)), b), C(I(a), a), I(S(C(a, b), a)), C(I(S(a, C(a, b))), b)] + _digit_regexps()


def _digit_regexps():
    """expressions over the LETTERS 0 and 1, which print like the constants 0 (empty language) and 1 (empty word)"""
    d0, d1, one, zero = ('Symbol', '0'), ('Symbol', '1'), ('One',), ('Zero',)
    S = lambda x, y: ('Sum', x, y)       # noqa: E731
    C = lambda x, y: ('Concat', x, y)    # noqa: E731
    I = lambda x: ('Iteration', x)       # noqa: E731
    return [S(d1, one), S(one, d1), S(zero, d0), S(d0, zero), C(d0, S(d1, one)), C(I(d0), S(d1, one)), S(C(I(d0), d1), I(d0)), I(S(d1, one)), C(d1, one), C(zero, d0), S(d0, d0), S(C(d0, d1), C(d0, one))]


def _rx_alphabet(t):
    """'01' for an expression over the letters 0 / 1, 'ab' otherwise"""
    if t[0] == 'Symbol':
        return '01' if t[1] in '01' else 'ab'
    for x in t[1:]:
        if isinstance(x, tuple) and _rx_alphabet(x) == '01':
            return '01'
    return 'ab'


def check_regexp_matcher(ctx, rep, f, rule=RULE + '.M22'):
    """regexp_accepts_word on 47 model expressions (twelve of them over the letters 0 and 1, which print like the constants) (every constructor under every other, stars over expressions that match the
    empty word, nested stars, concatenations whose left or right part matches the empty word, 0 inside) and all words over
    {a, b} up to length 3: the answer is membership in the denoted language (set semantics computed by the analyser)."""
    cases = 0
    try:
        for t in _model_regexps():
            L = _rx_lang(t, 3)
            r = _rx(t)
            words = [''.join(w) for n in range(4) for w in itertools.product(_rx_alphabet(t), repeat=n)]
            for w in words:
                it = _interp(ctx, 'asc', max_steps=400000)
                it.superclasses = {k: ('Regexp',) for k in ('Zero', 'One', 'Symbol', 'Iteration', 'Sum', 'Concat')}
                ok, got = _run(rule, rep, f, lambda: it.call(f, [r, w]), 'on the expression {} and the word {!r}'.format(_rx_str(t), w))
                if not ok:
                    return
                cases += 1
                if bool(got) != (w in L) or not isinstance(got, bool):
                    if not isinstance(got, bool):
                        raise Unsupported('the answer is not a boolean')
                    rep.violates(rule, f, 'def ' + f.name, 'the expression {} {} the word {!r}, which is {} the denoted language'.format(_rx_str(t), 'matches' if got else 'does not match', w, 'not in' if got else 'in'))
                    return
    except (Unsupported, RecursionError) as e:
        rep.undecided(rule, f, 'def ' + f.name, 'outside the evaluator: {}'.format(e))
        return
    rep.holds(rule, f, 'def ' + f.name, 'on {} evaluations (47 model expressions (twelve of them over the letters 0 and 1, which print like the constants) with nested stars, stars over expressions matching the empty word, concatenations with an empty-matching side, splits whose first match is a dead end, 0 inside; all words over {{a, b}} up to length 3) the answer is membership in the denoted language'.format(cases))


# ---- CYK table and membership on model grammars in Chomsky normal form ------------------------------------------------------------

def check_cyk(ctx, rep, f_matrix, f_accepts, rule=RULE + '.M23'):
    """cfg_cyk_matrix and cfg_accepts_word on the model grammars in Chomsky normal form and all words up to length 4 (3 for a
    three-letter alphabet): every cell (i, j) holds exactly the variables that derive w[i..j] (derivability computed by the
    analyser by plain enumeration of the model grammar), and the membership test answers True exactly when the start variable
    derives the word."""
    cases = 0
    try:
        for name, rules in _CNF_GRAMMARS.items():
            G0 = _grammar(rules)
            plain = _rules_of(G0)
            sigma = sorted({x for _, syms in plain for x, kind in syms if kind == 'Terminal'})
            maxlen = 4 if len(sigma) <= 2 else 3
            derives = {A: _words(plain, A, maxlen) for A in {lhs for lhs, _ in plain}}
            for n in range(maxlen + 1):
                for tup in itertools.product(sigma, repeat=n):
                    w = ''.join(tup)
                    G = _grammar(rules)
                    G._f['epsilon'] = T('ε')
                    ok, got = _run(rule, rep, f_accepts, lambda: _interp(ctx, 'asc', classes=_CFG_CLASSES, max_steps=400000).call(f_accepts, [G, w]), 'on the grammar {} and the word {!r}'.format(name, w))
                    if not ok:
                        return
                    cases += 1
                    if not isinstance(got, bool):
                        raise Unsupported('the answer is not a boolean')
                    if got != (w in derives['S']):
                        rep.violates(rule, f_accepts, 'def ' + f_accepts.name, 'on the grammar {} the word {!r} is {} although the start variable {} it'.format(name, w, 'accepted' if got else 'rejected', 'derives' if w in derives['S'] else 'does not derive'))
                        return
                    if n == 0:
                        continue
                    ok, X = _run(rule, rep, f_matrix, lambda: _interp(ctx, 'asc', classes=_CFG_CLASSES, max_steps=400000).call(f_matrix, [G, w]), 'on the grammar {} and the word {!r}'.format(name, w))
                    if not ok:
                        return
                    if not hasattr(X, 'get'):
                        raise Unsupported('the table is not a mapping')
                    for i in range(n):
                        for j in range(i, n):
                            want = {A for A in derives if w[i:j + 1] in derives[A]}
                            have = {str(x) for x in (X.get((i, j)) or set())}
                            cases += 1
                            if have != want:
                                rep.violates(rule, f_matrix, 'def ' + f_matrix.name, 'on the grammar {} and the word {!r} the cell ({}, {}) holds {} but the variables that derive {!r} are {}'.format(name, w, i, j, sorted(have), w[i:j + 1], sorted(want)))
                                return
    except (Unsupported, RecursionError) as e:
        rep.undecided(rule, f_matrix, 'def ' + f_matrix.name, 'outside the evaluator: {}'.format(e))
        return
    rep.holds(rule, f_matrix, 'def ' + f_matrix.name, 'on {} comparisons (five model grammars in Chomsky normal form, all words up to length 4 resp. 3) every cell holds exactly the variables that derive the subword and the membership test agrees with derivability from the start variable'.format(cases))


# ---- the bounded enumerators of DFAs, NFAs and regular expressions on models ------------------------------------------------------

def check_enumerators(ctx, rep, f_dfa, f_nfa, f_rx, rule=RULE + '.M24'):
    """dfa_words_up_to_n, nfa_words_up_to_n and regexp_words_up_to_n for n = 0..4 on the model DFAs, NFAs and expressions: the
    result is exactly the set of accepted / denoted words of length at most n (reference: the analyser's own run of the model).
    n runs through the length of the shortest accepted word of every model, and through 0."""
    cases = 0
    cur = f_dfa
    try:
        for name, spec in list(_C_DFAS.items()) + [(k, v[:5]) for k, v in _DFAS.items()]:
            for n in range(5):
                D = _mk(*spec)
                want = _dfa_lang(D, n)
                ok, got = _run(rule, rep, f_dfa, lambda: _interp(ctx, 'asc', classes={'DFA': _dfa_class}, max_steps=400000).call(f_dfa, [D, n]), 'on the DFA "{}" with n = {}'.format(name, n))
                if not ok:
                    return
                if not isinstance(got, (set, frozenset)):
                    raise Unsupported('the result is not a set')
                cases += 1
                if set(got) != want:
                    extra, missing = sorted(set(got) - want), sorted(want - set(got))
                    rep.violates(rule, f_dfa, 'def ' + f_dfa.name, 'on the DFA "{}" with n = {} the result {}'.format(name, n, 'contains {!r}, which is not an accepted word of length <= n'.format(extra[0]) if extra else 'misses the accepted word {!r}'.format(missing[0])))
                    return
        cur = f_nfa
        for name, spec in _ACC_NFAS.items():
            for n in range(5):
                for order in ('asc', 'desc'):
                    N = _nfa(*spec)
                    want = _nfa_lang(N, set(N._f['Sigma']), n)
                    ok, got = _run(rule, rep, f_nfa, lambda: _interp(ctx, order, classes={'NFA': _nfa_class}, max_steps=400000).call(f_nfa, [N, n]), 'on the NFA "{}" with n = {}'.format(name, n))
                    if not ok:
                        return
                    if not isinstance(got, (set, frozenset)):
                        raise Unsupported('the result is not a set')
                    cases += 1
                    if set(got) != want:
                        extra, missing = sorted(set(got) - want), sorted(want - set(got))
                        rep.violates(rule, f_nfa, 'def ' + f_nfa.name, 'on the NFA "{}" with n = {} the result {}'.format(name, n, 'contains {!r}, which is not an accepted word of length <= n'.format(extra[0]) if extra else 'misses the accepted word {!r}'.format(missing[0])))
                        return
        cur = f_rx
        for t in _model_regexps():
            for n in range(4):
                it = _interp(ctx, 'asc', max_steps=400000)
                it.superclasses = {k: ('Regexp',) for k in ('Zero', 'One', 'Symbol', 'Iteration', 'Sum', 'Concat')}
                want = _rx_lang(t, n)
                ok, got = _run(rule, rep, f_rx, lambda: it.call(f_rx, [_rx(t), n]), 'on the expression {} with n = {}'.format(_rx_str(t), n))
                if not ok:
                    return
                if not isinstance(got, (set, frozenset)):
                    raise Unsupported('the result is not a set')
                cases += 1
                if set(got) != want:
                    extra, missing = sorted(set(got) - want), sorted(want - set(got))
                    rep.violates(rule, f_rx, 'def ' + f_rx.name, 'on the expression {} with n = {} the result {}'.format(_rx_str(t), n, 'contains {!r}, which is not a denoted word of length <= n'.format(extra[0]) if extra else 'misses the denoted word {!r}'.format(missing[0])))
                    return
    except (Unsupported, RecursionError) as e:
        rep.undecided(rule, cur, 'def ' + cur.name, 'outside the evaluator: {}'.format(e))
        return
    rep.holds(rule, f_dfa, 'def ' + f_dfa.name + ' / ' + f_nfa.name + ' / ' + f_rx.name, 'on {} runs (the model DFAs, NFAs and expressions, n = 0..4 resp. 0..3) each enumerator returns exactly the accepted / denoted words of length at most n'.format(cases))


# ---- PDA acceptance on model PDAs with bounded epsilon closures -------------------------------------------------------------------

def _pda(Q, Sigma, Gamma, trans, q0, F, eps='_'):
    delta = {}
    for (p, a, u, q, v) in trans:
        delta.setdefault((p, a, u), set()).add((q, v))
    return Obj('PDA', Q=set(Q), Sigma=set(Sigma), Gamma=set(Gamma), delta=delta, q0=q0, F=set(F), epsilon=eps)


_PDAS = {
    'a^n b^n': (['q0', 'q1', 'q2', 'q3'], ['a', 'b'], ['A', '$'], [('q0', '_', '_', 'q1', '$'), ('q1', 'a', '_', 'q1', 'A'), ('q1', '_', '_', 'q2', '_'), ('q2', 'b', 'A', 'q2', '_'), ('q2', '_', '$', 'q3', '_')], 'q0', ['q3']),
    'replace Z by A, then pop': (['q0', 'q1', 'q2', 'q3'], ['a', 'b'], ['A', 'Z'], [('q0', '_', '_', 'q1', 'Z'), ('q1', 'a', 'Z', 'q2', 'A'), ('q2', 'b', 'A', 'q3', '_')], 'q0', ['q3']),
    'replace X by Y, b needs X': (['p1', 'p2', 'p3', 'p0'], ['a', 'b'], ['X', 'Y'], [('p0', '_', '_', 'p1', 'X'), ('p1', 'a', 'X', 'p2', 'Y'), ('p2', 'b', 'X', 'p3', '_')], 'p0', ['p3']),
    'push and pop on the same letter': (['q0', 'q1', 'q2'], ['a'], ['A'], [('q0', 'a', '_', 'q1', 'A'), ('q1', 'a', '_', 'q1', 'A'), ('q1', 'a', 'A', 'q2', '_'), ('q2', 'a', 'A', 'q2', '_')], 'q0', ['q2']),
    'final initial state, stack-neutral loop': (['s'], ['a'], ['A'], [('s', 'a', '_', 's', '_')], 's', ['s']),
    'pushes and never pops (a*)': (['q0'], ['a'], ['X'], [('q0', 'a', '_', 'q0', 'X')], 'q0', ['q0']),
    'two final states, symbols left on the stack': (['g0', 'g1', 'g2'], ['a', 'b'], ['X', 'Y'], [('g0', 'a', '_', 'g1', 'X'), ('g1', 'b', '_', 'g2', 'Y'), ('g1', 'a', 'X', 'g1', 'Y')], 'g0', ['g1', 'g2']),
    # an accepting run that is three balanced pieces in a row through different states (seed C10-k: the concatenation rules of
    # pda_to_cfg must be closed under composition, A_03 needs A_02 or A_13, which only concatenation rules define)
    'three balanced pieces in a row (aaa)': (['q0', 'q1', 'q2', 'q3', 'm'], ['a'], ['X', 'Y', 'Z'], [('q0', 'a', '_', 'm', 'X'), ('m', '_', 'X', 'q1', '_'), ('q1', 'a', '_', 'm', 'Y'), ('m', '_', 'Y', 'q2', '_'), ('q2', 'a', '_', 'm', 'Z'), ('m', '_', 'Z', 'q3', '_')], 'q0', ['q3']),
    'palindromes with a centre mark': (['l', 'r'], ['a', 'b', 'c'], ['A', 'B'], [('l', 'a', '_', 'l', 'A'), ('l', 'b', '_', 'l', 'B'), ('l', 'c', '_', 'r', '_'), ('r', 'a', 'A', 'r', '_'), ('r', 'b', 'B', 'r', '_')], 'l', ['r']),
}


def _pda_accepts_ref(P, w):
    f = P._f
    E = f['epsilon']

    def succ(q, st, a):
        out = set()
        for (p, a1, u), Q1 in f['delta'].items():
            if p != q or a1 != a:
                continue
            for (q1, v) in Q1:
                if u == E or (st and st[-1] == u):
                    base = st if u == E else st[:-1]
                    out.add((q1, base + ((v,) if v != E else ())))
        return out

    def close(S):
        S = set(S)
        todo = list(S)
        while todo:
            q, st = todo.pop()
            for c in succ(q, st, E):
                if c not in S and len(c[1]) <= len(w) + 3:
                    S.add(c)
                    todo.append(c)
        return S
    S = close({(f['q0'], ())})
    for a in w:
        S = close({c for (q, st) in S for c in succ(q, st, a)})
    return any(q in f['F'] for q, _ in S)


def check_pda_acceptance(ctx, rep, f, rule=RULE + '.M25'):
    """pda_accepts_word on model PDAs whose epsilon closures are small (far below any limit) and all words up to length 4 (3 for
    three letters): True exactly when an accepting computation exists (breadth-first search over configurations in the
    analyser).  The models push, pop, replace a symbol by another one, have a pushing and a popping move on the same letter in
    the same state, stack-neutral moves, and the accepted palindromes need the stack contents, not only its height."""
    from .small_models import _pda_classes
    cases = 0
    try:
        for name, spec in _PDAS.items():
            sigma = sorted(spec[1])
            for n in range((4 if len(sigma) <= 2 else 3) + 1):
                for tup in itertools.product(sigma, repeat=n):
                    w = ''.join(tup)
                    for order in ('asc', 'desc'):
                        P = _pda(*spec)
                        it = _interp(ctx, order, classes=_pda_classes(), max_steps=400000)
                        it.constants = {'GambaTools.pda_epsilon_closure_max_iterations': 1000}
                        ok, got = _run(rule, rep, f, lambda: it.call(f, [P, w]), 'on the PDA "{}" and the word {!r}'.format(name, w))
                        if not ok:
                            return
                        if not isinstance(got, bool):
                            raise Unsupported('the answer is not a boolean')
                        cases += 1
                        want = _pda_accepts_ref(P, w)
                        if got != want:
                            rep.violates(rule, f, 'def ' + f.name, 'on the PDA "{}" the word {!r} is {} although {} accepting computation exists'.format(name, w, 'accepted' if got else 'rejected', 'an' if want else 'no'))
                            return
        # completeness AT the limit: the largest closure the run needs has exactly as many configurations as the limit allows.  A
        # layered epsilon graph (two layers of two states, every state of a layer linked to every state of the next) has many more
        # epsilon EDGES than configurations: a budget that is spent per edge or per duplicate runs out (seed C09-k).
        layered = (['s', 'a1', 'a2', 'b1', 'b2', 'g', 'f'], ['a'], ['X'],
                   [('s', '_', '_', 'a1', '_'), ('s', '_', '_', 'a2', '_'), ('a1', '_', '_', 'b1', '_'), ('a1', '_', '_', 'b2', '_'), ('a2', '_', '_', 'b1', '_'), ('a2', '_', '_', 'b2', '_'),
                    ('b1', '_', '_', 'g', '_'), ('b2', '_', '_', 'g', '_'), ('g', 'a', '_', 'f', '_')], 's', ['f'])
        for limit in (6, 7, 8):
            for w in ('', 'a', 'aa'):
                for order in ('asc', 'desc'):
                    P = _pda(*layered)
                    it = _interp(ctx, order, classes=_pda_classes(), max_steps=400000)
                    it.constants = {'GambaTools.pda_epsilon_closure_max_iterations': limit}
                    ok, got = _run(rule, rep, f, lambda: it.call(f, [P, w]), 'on the layered PDA and the word {!r}'.format(w))
                    if not ok:
                        return
                    cases += 1
                    if bool(got) != (w == 'a'):
                        rep.violates(rule, f, 'def ' + f.name, 'on the layered epsilon PDA (largest epsilon closure: 6 configurations) with the limit {} the word {!r} is {}'.format(
                            limit, w, 'accepted although no accepting computation exists' if got else 'rejected although an accepting computation exists and every closure fits the limit'))
                        return
    except (Unsupported, RecursionError) as e:
        rep.undecided(rule, f, 'def ' + f.name, 'outside the evaluator: {}'.format(e))
        return
    rep.holds(rule, f, 'def ' + f.name, 'on {} evaluations (nine model PDAs with pushing, popping, replacing and stack-neutral moves, a push and a pop on the same letter, symbols left on the stack, a final initial state; all words up to length 4 resp. 3; two iteration orders of sets; a layered epsilon PDA whose largest closure has exactly as many configurations as the limit) the answer is True exactly when an accepting computation exists'.format(cases))


# ---- regular expression -> NFA and DFA -> regular expression on models --------------------------------------------------------------

_RX_CLASSES = {
    'Zero': lambda: Obj('Zero'), 'One': lambda: Obj('One'), 'Symbol': lambda symbol: Obj('Symbol', symbol=symbol), 'Iteration': lambda operand: Obj('Iteration', operand=operand),
    'Sum': lambda left, right: Obj('Sum', left=left, right=right), 'Concat': lambda left, right: Obj('Concat', left=left, right=right),
}


def _rx_tuple(o):
    if not isinstance(o, Obj):
        raise Unsupported('not a regular expression object')
    k = o._cls
    if k in ('Zero', 'One'):
        return (k,)
    if k == 'Symbol':
        return ('Symbol', str(o._f['symbol']))
    if k == 'Iteration':
        return ('Iteration', _rx_tuple(o._f['operand']))
    if k in ('Sum', 'Concat'):
        return (k, _rx_tuple(o._f['left']), _rx_tuple(o._f['right']))
    raise Unsupported('not a regular expression object')


def check_regexp_to_nfa(ctx, rep, f, rule=RULE + '.M26'):
    """regexp_to_nfa on the model expressions: a valid NFA whose words over {a, b} up to length 3 are the denoted ones."""
    cases = 0
    classes = {'NFA': _nfa_class, 'IdentifierGenerator': lambda index=0: Obj('IdentifierGenerator', index=index),
               'RegexpToNFAGenerator': lambda: Obj('RegexpToNFAGenerator', Sigma=set(), id_generator=Obj('IdentifierGenerator', index=0))}
    try:
        for t in _model_regexps():
            for order in ('asc', 'desc'):
                it = _interp(ctx, order, classes=classes, max_steps=400000)
                it.superclasses = {k: ('Regexp',) for k in ('Zero', 'One', 'Symbol', 'Iteration', 'Sum', 'Concat')}
                ok, got = _run(rule, rep, f, lambda: it.call(f, [_rx(t)]), 'on the expression {}'.format(_rx_str(t)))
                if not ok:
                    return
                if not isinstance(got, Obj) or got._cls != 'NFA':
                    raise Unsupported('the result is not an NFA built by the constructor')
                cases += 1
                g = got._f
                delta = {k: set(v) for k, v in dict(g['delta']).items() if v}
                Q, eps = set(g['Q']), g['epsilon']
                if g['q0'] not in Q or not set(g['F']) <= Q or eps in set(g['Sigma']) or any(p not in Q or not set(v) <= Q or (a != eps and a not in set(g['Sigma'])) for (p, a), v in delta.items()):
                    rep.violates(rule, f, 'def ' + f.name, 'on the expression {} the result is not a valid NFA (a state or label outside the declared sets, or epsilon inside the alphabet)'.format(_rx_str(t)))
                    return
                have = _nfa_lang(Obj('NFA', Q=Q, Sigma=set(g['Sigma']) | set(_rx_alphabet(t)), delta=delta, q0=g['q0'], F=set(g['F']), epsilon=eps), set(_rx_alphabet(t)), 3)
                want = _rx_lang(t, 3)
                if have != want:
                    extra, missing = sorted(have - want), sorted(want - have)
                    rep.violates(rule, f, 'def ' + f.name, 'on the expression {} the NFA {}'.format(_rx_str(t), 'accepts {!r}, which is not denoted'.format(extra[0]) if extra else 'rejects the denoted word {!r}'.format(missing[0])))
                    return
    except (Unsupported, RecursionError) as e:
        rep.undecided(rule, f, 'def ' + f.name, 'outside the evaluator: {}'.format(e))
        return
    rep.holds(rule, f, 'def ' + f.name, 'on {} runs (47 model expressions (twelve of them over the letters 0 and 1, which print like the constants), two iteration orders of sets) the result is a valid NFA with exactly the denoted words over {{a, b}} up to length 3'.format(cases))


_ABC_DFAS = {
    'all words over a, b, c (three parallel loops)': ({'s'}, {'a', 'b', 'c'}, {('s', 'a'): 's', ('s', 'b'): 's', ('s', 'c'): 's'}, 's', {'s'}),
    'a and c go on, b stays': ({'s0', 's1'}, {'a', 'b', 'c'}, {('s0', 'a'): 's1', ('s0', 'b'): 's0', ('s0', 'c'): 's1', ('s1', 'a'): 's1', ('s1', 'b'): 's0', ('s1', 'c'): 's0'}, 's0', {'s1'}),
}


def check_dfa_to_regexp(ctx, rep, f, rule=RULE + '.M27'):
    """dfa_to_regexp on the model DFAs: the words up to length 4 of the expression (set semantics in the analyser) are those
    the DFA accepts, whatever the elimination order (two iteration orders of sets)."""
    cases = 0
    classes = dict(_RX_CLASSES)
    classes['GNFA'] = lambda Q, Sigma, delta, q_start, q_accept, *a, **k: Obj('GNFA', Q=Q, Sigma=Sigma, delta=delta, q_start=q_start, q_accept=q_accept)
    try:
        for name, spec in list(_C_DFAS.items()) + [(k, v[:5]) for k, v in _MIN_DFAS.items()] + list(_ABC_DFAS.items()):
            for order in ('asc', 'desc'):
                D = _mk(*spec)
                it = _interp(ctx, order, classes=classes, max_steps=2000000)
                it.superclasses = {k: ('Regexp',) for k in ('Zero', 'One', 'Symbol', 'Iteration', 'Sum', 'Concat')}
                ok, got = _run(rule, rep, f, lambda: it.call(f, [D]), 'on the DFA "{}"'.format(name))
                if not ok:
                    return
                t = _rx_tuple(got)
                cases += 1
                K = 4 if len(spec[1]) <= 2 else 3
                have, want = _rx_lang(t, K), _dfa_lang(D, K)
                if have != want:
                    extra, missing = sorted(have - want), sorted(want - have)
                    rep.violates(rule, f, 'def ' + f.name, 'on the DFA "{}" (states eliminated in {} order) the expression {}'.format(
                        name, 'ascending' if order == 'asc' else 'descending', 'denotes {!r}, which the DFA rejects'.format(extra[0]) if extra else 'does not denote {!r}, which the DFA accepts'.format(missing[0])))
                    return
    except (Unsupported, RecursionError) as e:
        rep.undecided(rule, f, 'def ' + f.name, 'outside the evaluator: {}'.format(e))
        return
    rep.holds(rule, f, 'def ' + f.name, 'on {} runs (thirteen model DFAs, two of them with three parallel symbols between a pair of states; two elimination orders) the expression denotes exactly the words up to length 4 (3 for three letters) that the DFA accepts'.format(cases))


# ---- the Chomsky conversion, phase by phase, on model grammars ----------------------------------------------------------------------

def _lang_fix(rules, k):
    """variable -> words of length <= k it derives, for ANY grammar (epsilon rules, cycles): least fixpoint over finite sets"""
    L = {lhs: set() for lhs, _ in rules}
    for _, syms in rules:
        for x, kind in syms:
            if kind == 'Variable':
                L.setdefault(x, set())
    changed = True
    while changed:
        changed = False
        for lhs, syms in rules:
            cur = {''}
            for x, kind in syms:
                part = L[x] if kind == 'Variable' else {x}
                cur = {u + v for u in cur for v in part if len(u + v) <= k}
                if not cur:
                    break
            if not cur <= L[lhs]:
                L[lhs] |= cur
                changed = True
    return L


_GEN_GRAMMARS = {
    'S -> aSb | eps': [('S', ['aSb', ''])],
    'S -> AB | a; A -> aA | eps; B -> bB | A': [('S', ['AB', 'a']), ('A', ['aA', '']), ('B', ['bB', 'A'])],
    'S -> ASA | aB; A -> B | S; B -> b | eps': [('S', ['ASA', 'aB']), ('A', ['B', 'S']), ('B', ['b', ''])],
    'S -> abc | T; T -> S | cc': [('S', ['abc', 'T']), ('T', ['S', 'cc'])],
    'S -> AAB; A -> a | eps; B -> b': [('S', ['AAB']), ('A', ['a', '']), ('B', ['b'])],
    'S -> S | A; A -> eps': [('S', ['S', 'A']), ('A', [''])],
    'S -> EaS | b; E -> eps': [('S', ['EaS', 'b']), ('E', [''])],
    'S -> aXY | T; T -> XY | c; X -> a; Y -> b': [('S', ['aXY', 'T']), ('T', ['XY', 'c']), ('X', ['a']), ('Y', ['b'])],
    # the empty language with a long rule of a productive variable (seed C08-k), rules that only LOOK like Chomsky normal form (C07-k, C12-k)
    'S -> ST; T -> abc': [('S', ['ST']), ('T', ['abc'])],
    'S -> AB | eps; A -> a | eps; B -> b': [('S', ['AB', '']), ('A', ['a', '']), ('B', ['b'])],
    'S -> AB | ABB; A -> a; B -> b': [('S', ['AB', 'ABB']), ('A', ['a']), ('B', ['b'])],
    # 26 variables: the fresh-name providers take their other branch (seed C02-k)
    '26 variables: S -> aSb | A; A -> B; ...; Z -> c': [('S', ['aSb', 'A'])] + [(x0, [y0]) for x0, y0 in zip('ABCDEFGHIJKLMNOPQRTUVWXY', 'BCDEFGHIJKLMNOPQRTUVWXYZ')] + [('Z', ['c'])],
}
_PHASES = ['cfg_add_new_start_variable_in_place', 'cfg_remove_epsilon_rules_in_place', 'cfg_eliminate_unit_rules_in_place', 'cfg_make_rules_of_length_two_in_place', 'cfg_eliminate_terminals_in_place']


def check_chomsky_phases(ctx, rep, funcs, rule=RULE + '.M28', first_rule=False):
    """the five phases of the Chomsky conversion applied in order to model grammars with epsilon rules, nullable chains, unit
    cycles, long right-hand sides and terminals inside them (among them Sipser's example): after EVERY phase the start variable
    derives the same words up to length 3 (least fixpoint computed by the analyser), the variables used are declared, and at
    the end the grammar is in Chomsky normal form: rules A -> BC without the start variable on the right, A -> a, and the
    empty right-hand side for the start variable only.  funcs: the five phase functions in pipeline order."""
    K = 3
    classes = dict(_CFG_CLASSES)
    classes['Variable'] = lambda x: V(str(x))
    classes['Terminal'] = lambda x: T(str(x))
    cases = 0
    f0 = funcs[0]
    try:
        for name, rules in _GEN_GRAMMARS.items():
            for order in ('asc', 'desc'):
                G = _grammar(rules)
                G._f['epsilon'] = T('ε')
                want = _lang_fix(_rules_of(G), K)['S']
                for f in funcs:
                    f0 = f
                    ok, _ = _run(rule, rep, f, lambda: _interp(ctx, order, classes=classes, max_steps=2000000).call(f, [G]), 'on the grammar {} (after the earlier phases)'.format(name))
                    if not ok:
                        return
                    cases += 1
                    now = _rules_of(G)
                    S = str(G._f['S'])
                    have = _lang_fix(now, K).get(S, set())
                    if have != want:
                        extra, missing = sorted(have - want), sorted(want - have)
                        rep.violates(rule, f, 'def ' + f.name, 'on the grammar {} (sets iterated in {} order) the phase changes the language: afterwards the start variable {}'.format(
                            name, 'ascending' if order == 'asc' else 'descending', 'derives {!r}, which it did not'.format(extra[0]) if extra else 'no longer derives {!r}'.format(missing[0])))
                        return
                    if first_rule and now and now[0][0] != S:
                        # the simple text format has no start declaration: the reader takes the variable of the FIRST rule
                        rep.violates(rule, f, 'def ' + f.name, 'on the grammar {} (sets iterated in {} order) the first rule after the phase belongs to {} and not to the start variable {}: the grammar printed in the simple format is read back with another start variable'.format(
                            name, 'ascending' if order == 'asc' else 'descending', now[0][0], S))
                        return
                    used = {lhs for lhs, _ in now} | {x for _, syms in now for x, kind in syms if kind == 'Variable'}
                    if not used <= {str(x) for x in G._f['V']} or S not in {str(x) for x in G._f['V']}:
                        rep.violates(rule, f, 'def ' + f.name, 'on the grammar {} a variable used in the rules is not declared in V afterwards: {}'.format(name, sorted(used - {str(x) for x in G._f['V']})))
                        return
                final = _rules_of(G)
                S = str(G._f['S'])
                for lhs, syms in final:
                    kinds = [kind for _, kind in syms]
                    okr = (kinds == ['Terminal']) or (kinds == ['Variable', 'Variable'] and S not in [x for x, _ in syms]) or (kinds == [] and lhs == S)
                    if not okr:
                        rep.violates(rule, funcs[-1], 'def cfg_to_chomsky_in_place (pipeline)', 'on the grammar {} the rule {} -> {} is left after the five phases: the result is not in Chomsky normal form'.format(name, lhs, ' '.join(x for x, _ in syms) or 'eps'))
                        return
    except (Unsupported, RecursionError) as e:
        rep.undecided(rule, f0, 'def ' + f0.name, 'outside the evaluator: {}'.format(e))
        return
    rep.holds(rule, funcs[-1], 'def cfg_to_chomsky_in_place (pipeline)', 'on {} phase runs (twelve model grammars with epsilon rules, nullable chains, unit cycles, long right-hand sides, terminals inside them, a variable that already has the tail of a long rule among its alternatives; two iteration orders of sets) every phase keeps the words up to length 3 and the declared variables, and the final grammar is in Chomsky normal form'.format(cases))


# ---- the accepts / rejects checker on a model DFA ------------------------------------------------------------------------------------

def check_accepts_rejects_checker(ctx, rep, f, rule='R-FEEDBACK.K12'):
    """check_automaton_accepts_rejects on a model DFA (even number of a's) and word lists that contain the empty word, written
    as the epsilon sign and as an underscore: OK is printed exactly when every word of the first list is accepted and every
    word of the second list is rejected.  The lists are chosen so that the ONLY wrong word is the empty one, the first, the
    last, or one among right ones."""
    spec = _C_DFAS['even a']
    lang = _dfa_lang(_mk(*spec), 4)
    lists = ['', 'ε', '_', 'a', 'aa', 'b', 'ε aa', 'ε a', 'a ε', 'aa ab', 'aa bab aba', 'a ab', 'a ε b', 'b a aa', '_ b']
    cases = 0
    try:
        for acc in lists:
            for rej in lists:
                out = []

                def pr(interp, args, kwargs, out=out):
                    out.append(' '.join(str(a) for a in args))
                    return None
                it = _interp(ctx, 'asc', stubs={'print': pr}, classes={'DFA': _dfa_class}, max_steps=400000)
                it.superclasses = {k: ('Regexp',) for k in ('Zero', 'One', 'Symbol', 'Iteration', 'Sum', 'Concat')}
                ok, _ = _run(rule, rep, f, lambda: it.call(f, [_mk(*spec), acc, rej]), 'for the lists {!r} / {!r}'.format(acc, rej))
                if not ok:
                    return
                cases += 1
                words = lambda s: {'' if w in ('ε', '_') else w for w in s.split()}     # noqa: E731
                right = all(w in lang for w in words(acc)) and all(w not in lang for w in words(rej))
                said_ok = any(o.strip() == 'OK' for o in out)
                if said_ok != right:
                    rep.violates(rule, f, 'def ' + f.name, 'for a DFA accepting the words with an even number of a\'s, the list {!r} of words to accept and {!r} of words to reject, the verdict OK is {} although the DFA {}'.format(
                        acc, rej, 'printed' if said_ok else 'not printed', 'is wrong on one of them (the empty word counts)' if not right else 'is right on all of them'))
                    return
    except (Unsupported, RecursionError) as e:
        rep.undecided(rule, f, 'def ' + f.name, 'outside the evaluator: {}'.format(e))
        return
    rep.holds(rule, f, 'def ' + f.name, 'on {} pairs of word lists (the empty word written in both ways, alone, first, last and among others) OK is printed exactly when the model DFA accepts every word of the first list and rejects every word of the second'.format(cases))


# ---- the recorded run of an NFA on model NFAs ------------------------------------------------------------------------------------------

def check_nfa_run(ctx, rep, f, rule=RULE + '.M29'):
    """nfa_simulate_word on the model NFAs and all words up to length 3: None exactly when the word is not accepted; otherwise a
    list of rows (state, unread rest) that starts at (q0, w), ends at (f, '') with f final, and in which every row follows from
    the previous one by an epsilon move (rest unchanged) or by a move on the first unread letter."""
    cases = 0
    try:
        for name, spec in _ACC_NFAS.items():
            for order in ('asc', 'desc'):
                N = _nfa(*spec)
                fl = N._f
                Sigma = set(fl['Sigma'])
                L = _nfa_lang(N, Sigma, 3)
                for k in range(4):
                    for tup in itertools.product(sorted(Sigma), repeat=k):
                        w = ''.join(tup)
                        ok, got = _run(rule, rep, f, lambda: _interp(ctx, order, classes={'NFA': _nfa_class}, max_steps=400000).call(f, [N, w]), 'on the NFA "{}" and the word {!r}'.format(name, w))
                        if not ok:
                            return
                        cases += 1
                        if (got is None) != (w not in L):
                            rep.violates(rule, f, 'def ' + f.name, 'on the NFA "{}" the word {!r} is {} but {}'.format(name, w, 'accepted' if w in L else 'not accepted', 'no run is returned' if got is None else 'a run is returned'))
                            return
                        if got is None:
                            continue
                        if not isinstance(got, list) or not all(isinstance(r, tuple) and len(r) == 2 for r in got):
                            raise Unsupported('the run is not a list of pairs')
                        rows = [(str(q), str(u)) for q, u in got]
                        bad = None
                        if not rows or rows[0] != (fl['q0'], w):
                            bad = 'it does not start at the initial configuration ({}, {!r})'.format(fl['q0'], w)
                        elif rows[-1][1] != '' or rows[-1][0] not in fl['F']:
                            bad = 'it does not end in a final state with the word read'
                        else:
                            for (p, u), (q, v) in zip(rows, rows[1:]):
                                if u == v and q in fl['delta'].get((p, fl['epsilon']), ()):
                                    continue
                                if u and u[1:] == v and q in fl['delta'].get((p, u[0]), ()):
                                    continue
                                bad = 'the row ({}, {!r}) does not follow from ({}, {!r}) by a transition of the NFA'.format(q, v, p, u)
                                break
                        if bad:
                            rep.violates(rule, f, 'def ' + f.name, 'on the NFA "{}" and the word {!r} the recorded run {} is not a run: {}'.format(name, w, rows, bad))
                            return
    except (Unsupported, RecursionError) as e:
        rep.undecided(rule, f, 'def ' + f.name, 'outside the evaluator: {}'.format(e))
        return
    rep.holds(rule, f, 'def ' + f.name, 'on {} evaluations (13 model NFAs, all words up to length 3, two iteration orders of sets) a run is returned exactly for the accepted words and every returned run is genuine: from (q0, w) to a final state, each row by one transition'.format(cases))


def check_pda_run(ctx, rep, f, rule=RULE + '.M30'):
    """pda_simulate_word on the model PDAs and all words up to length 4 resp. 3: None exactly when no accepting computation
    exists; otherwise rows (state, unread rest, stack) from (q0, w, []) to a final state with the word read, every row following
    from the previous one by ONE transition of the PDA: the letter read (or none), the symbol popped if it is on top, the symbol
    pushed."""
    from .small_models import _pda_classes
    cases = 0
    try:
        for name, spec in _PDAS.items():
            sigma = sorted(spec[1])
            for n in range((4 if len(sigma) <= 2 else 3) + 1):
                for tup in itertools.product(sigma, repeat=n):
                    w = ''.join(tup)
                    for order in ('asc', 'desc'):
                        P = _pda(*spec)
                        fl = P._f
                        E = fl['epsilon']
                        it = _interp(ctx, order, classes=_pda_classes(), max_steps=400000)
                        it.constants = {'GambaTools.pda_epsilon_closure_max_iterations': 1000}
                        ok, got = _run(rule, rep, f, lambda: it.call(f, [P, w]), 'on the PDA "{}" and the word {!r}'.format(name, w))
                        if not ok:
                            return
                        cases += 1
                        want = _pda_accepts_ref(P, w)
                        if (got is None) == want:
                            rep.violates(rule, f, 'def ' + f.name, 'on the PDA "{}" the word {!r} {} but {}'.format(name, w, 'has an accepting computation' if want else 'has no accepting computation', 'no run is returned' if got is None else 'a run is returned'))
                            return
                        if got is None:
                            continue
                        if not isinstance(got, list) or not all(isinstance(r, tuple) and len(r) == 3 for r in got):
                            raise Unsupported('the run is not a list of triples')
                        rows = [(str(q), str(u), tuple(str(x) for x in st)) for q, u, st in got]
                        bad = None
                        if not rows or rows[0] != (fl['q0'], w, ()):
                            bad = 'it does not start at ({}, {!r}, [])'.format(fl['q0'], w)
                        elif rows[-1][1] != '' or rows[-1][0] not in fl['F']:
                            bad = 'it does not end in a final state with the word read'
                        else:
                            for (p, u, st), (q, v, st1) in zip(rows, rows[1:]):
                                found = False
                                for (p0, a, x), Q1 in fl['delta'].items():
                                    if p0 != p or not ((a == E and u == v) or (a != E and u and u[0] == a and u[1:] == v)):
                                        continue
                                    if x != E and not (st and st[-1] == x):
                                        continue
                                    base = st if x == E else st[:-1]
                                    if any(q1 == q and base + ((y,) if y != E else ()) == st1 for (q1, y) in Q1):
                                        found = True
                                        break
                                if not found:
                                    bad = 'the row ({}, {!r}, {}) does not follow from ({}, {!r}, {}) by one transition of the PDA'.format(q, v, list(st1), p, u, list(st))
                                    break
                        if bad:
                            rep.violates(rule, f, 'def ' + f.name, 'on the PDA "{}" and the word {!r} the recorded run is not a computation: {}'.format(name, w, bad))
                            return
    except (Unsupported, RecursionError) as e:
        rep.undecided(rule, f, 'def ' + f.name, 'outside the evaluator: {}'.format(e))
        return
    rep.holds(rule, f, 'def ' + f.name, 'on {} evaluations (nine model PDAs, all words up to length 4 resp. 3, two iteration orders of sets) a run is returned exactly when an accepting computation exists and every returned run is a computation of the PDA'.format(cases))


# ---- the finite-language helpers of the checkers on model languages -----------------------------------------------------------------

_LANGS = [set(), {''}, {'a'}, {'', 'a', 'b'}, {'a', 'ab', 'ac'}, {'a', 'ab', 'abc'}, {'ab', 'abc', 'b', 'ba'}, {'', 'ab'}, {'b', 'ab', 'aab'}, {'a', 'b', 'ab', 'ba', 'aba'}, {'aa', 'aab', 'ab'}]


def check_language_helpers(ctx, rep, funcs, rule=RULE + '.M31'):
    """language_no_prefix, language_no_extend, language_reverse, concatenation and words_up_to_n on model languages: the empty
    language, the language of the empty word alone, the empty word next to words with different first letters, a word whose
    proper prefix in L is NOT its neighbour in lexicographic order, chains of prefixes, words that are suffixes but not prefixes
    of others.  Reference: the definitions in the documentation strings, evaluated by the analyser.
    funcs: name -> FuncInfo."""
    n_ok = 0
    refs = {
        'language_no_prefix': lambda L: {w for w in L if not any(w[:i] in L for i in range(len(w)))},
        'language_no_extend': lambda L: {w for w in L if not any(v != w and v.startswith(w) for v in L)},
        'language_reverse': lambda L: {w[::-1] for w in L},
    }
    for name, f in funcs.items():
        cases = 0
        try:
            bad = False
            if name in refs:
                for L in _LANGS:
                    for order in ('asc', 'desc'):
                        arg = set(L)
                        ok, got = _run(rule, rep, f, lambda: _interp(ctx, order).call(f, [arg]), 'on the language {}'.format(sorted(L)))
                        if not ok:
                            bad = True
                            break
                        if hasattr(got, '__next__'):
                            got = set(got)
                        if not isinstance(got, (set, frozenset)):
                            raise Unsupported('the result is not a set')
                        cases += 1
                        want = refs[name](L)
                        if set(got) != want:
                            rep.violates(rule, f, 'def ' + f.name, 'on the language {} the result is {} instead of {}'.format(sorted(L), sorted(got), sorted(want)))
                            bad = True
                            break
                        if arg != L:
                            rep.violates(rule, f, 'def ' + f.name, 'on the language {} the argument is modified'.format(sorted(L)))
                            bad = True
                            break
                    if bad:
                        break
            elif name == 'concatenation':
                for L1 in _LANGS[:8]:
                    for L2 in _LANGS[:8]:
                        ok, got = _run(rule, rep, f, lambda: _interp(ctx, 'asc').call(f, [set(L1), set(L2)]), 'on {} and {}'.format(sorted(L1), sorted(L2)))
                        if not ok:
                            bad = True
                            break
                        if not isinstance(got, (set, frozenset)):
                            raise Unsupported('the result is not a set')
                        cases += 1
                        want = {u + v for u in L1 for v in L2}
                        if set(got) != want:
                            rep.violates(rule, f, 'def ' + f.name, 'on {} and {} the result is {} instead of {}'.format(sorted(L1), sorted(L2), sorted(got), sorted(want)))
                            bad = True
                            break
                    if bad:
                        break
            elif name == 'words_up_to_n':
                for Sigma in (set(), {'a'}, {'a', 'b'}):
                    for n in range(4):
                        ok, got = _run(rule, rep, f, lambda: _interp(ctx, 'asc').call(f, [set(Sigma), n]), 'on the alphabet {} and n = {}'.format(sorted(Sigma), n))
                        if not ok:
                            bad = True
                            break
                        if not isinstance(got, (set, frozenset)):
                            raise Unsupported('the result is not a set')
                        cases += 1
                        want = _all_words(Sigma, n)
                        if set(got) != want:
                            rep.violates(rule, f, 'def ' + f.name, 'on the alphabet {} and n = {} the result is {} instead of {}'.format(sorted(Sigma), n, sorted(got), sorted(want)))
                            bad = True
                            break
                    if bad:
                        break
            if not bad:
                rep.holds(rule, f, 'def ' + f.name, 'on {} runs over the model languages (the empty language, the empty word alone and among others, a prefix that is not the lexicographic neighbour, chains) the result is the set the documentation string defines'.format(cases))
                n_ok += 1
        except (Unsupported, RecursionError) as e:
            rep.undecided(rule, f, 'def ' + f.name, 'outside the evaluator: {}'.format(e))
    return n_ok


# ---- membership for general grammars (the on-the-fly Chomsky conversion included) ---------------------------------------------------

def check_cfg_membership(ctx, rep, f, rule=RULE + '.M32'):
    """cfg_accepts_word on the general model grammars (epsilon rules, nullable chains, unit cycles, long right-hand sides) and all
    words up to length 3 over their terminals: True exactly when the start variable derives the word (least fixpoint computed
    by the analyser); the grammar handed in is untouched."""
    classes = dict(_CFG_CLASSES)
    classes['Variable'] = lambda x: V(str(x))
    classes['Terminal'] = lambda x: T(str(x))
    cases = 0
    try:
        for name, rules in _GEN_GRAMMARS.items():
            if name.startswith('26 variables'):
                continue      # the conversion of this one is decided phase by phase (M28); 40 membership tests on it cost half a minute
            G0 = _grammar(rules)
            plain = _rules_of(G0)
            sigma = sorted({x for _, syms in plain for x, kind in syms if kind == 'Terminal'})
            L = _lang_fix(plain, 3)['S']
            for n in range(4):
                for tup in itertools.product(sigma, repeat=n):
                    w = ''.join(tup)
                    G = _grammar(rules)
                    G._f['epsilon'] = T('ε')
                    ok, got = _run(rule, rep, f, lambda: _interp(ctx, 'asc', classes=classes, max_steps=4000000).call(f, [G, w]), 'on the grammar {} and the word {!r}'.format(name, w))
                    if not ok:
                        return
                    if not isinstance(got, bool):
                        raise Unsupported('the answer is not a boolean')
                    cases += 1
                    if got != (w in L):
                        rep.violates(rule, f, 'def ' + f.name, 'on the grammar {} the word {!r} is {} although the start variable {} it'.format(name, w, 'accepted' if got else 'rejected', 'derives' if w in L else 'does not derive'))
                        return
                    if _rules_of(G) != plain or {str(x) for x in G._f['V']} != {str(x) for x in G0._f['V']}:
                        rep.violates(rule, f, 'def ' + f.name, 'on the grammar {} the grammar handed in is modified by the membership test'.format(name))
                        return
    except (Unsupported, RecursionError) as e:
        rep.undecided(rule, f, 'def ' + f.name, 'outside the evaluator: {}'.format(e))
        return
    rep.holds(rule, f, 'def ' + f.name, 'on {} evaluations (eleven general model grammars, all words up to length 3) the answer is True exactly when the start variable derives the word, and the grammar handed in is untouched'.format(cases))


# ---- PDA -> CFG on model PDAs ---------------------------------------------------------------------------------------------------------

def check_pda_to_cfg(ctx, rep, f, rule=RULE + '.M33'):
    """pda_to_cfg on the model PDAs (transition relation held in a defaultdict, as the parser builds it): the start variable of
    the grammar derives exactly the words up to length 3 (2 for three letters) for which the PDA has an accepting computation;
    the PDA handed in is untouched.  The normal forms the function establishes on its private copy (one accepting state,
    push-or-pop moves only, empty stack on acceptance) are exercised by the replacing and stack-neutral moves of the models."""
    import collections
    from .small_models import _pda_classes
    classes = dict(_CFG_CLASSES)
    classes.update(_pda_classes())
    classes['Variable'] = lambda x: V(str(x))
    classes['Terminal'] = lambda x: T(str(x))
    classes['CFG'] = lambda Vs, Sigma, R, S, *a, **k: Obj('CFG', V=Vs, Sigma=Sigma, R=R, S=S)
    cases = 0
    try:
        for name, spec in _PDAS.items():
            sigma = sorted(spec[1])
            K = 3 if len(sigma) <= 2 else 2
            for order in ('asc', 'desc'):
                P = _pda(*spec)
                dd = collections.defaultdict(set)
                for k0, v0 in P._f['delta'].items():
                    dd[k0] = set(v0)
                P._f['delta'] = dd
                snap = ({k0: set(v0) for k0, v0 in dd.items() if v0}, set(P._f['Q']), set(P._f['F']), set(P._f['Gamma']))
                want = {''.join(t) for n in range(K + 1) for t in itertools.product(sigma, repeat=n) if _pda_accepts_ref(_pda(*spec), ''.join(t))}
                it = _interp(ctx, order, classes=classes, max_steps=8000000)
                it.constants = {'GambaTools.pda_epsilon_closure_max_iterations': 1000}
                ok, got = _run(rule, rep, f, lambda: it.call(f, [P]), 'on the PDA "{}"'.format(name))
                if not ok:
                    return
                if not isinstance(got, Obj) or got._cls != 'CFG':
                    raise Unsupported('the result is not a grammar built by the constructor')
                cases += 1
                rules = []
                for r in got._f['R']:
                    rules.append((str(r._f['variable']), [(str(x), 'Variable' if getattr(x, '_gt_cls', None) == 'Variable' else 'Terminal') for x in r._f['alternative']._f['symbols']]))
                have = _lang_fix(rules, K).get(str(got._f['S']), set())
                if have != want:
                    extra, missing = sorted(have - want), sorted(want - have)
                    rep.violates(rule, f, 'def ' + f.name, 'on the PDA "{}" the grammar {}'.format(name, 'derives {!r}, for which the PDA has no accepting computation'.format(extra[0]) if extra else 'does not derive {!r}, which the PDA accepts'.format(missing[0])))
                    return
                if ({k0: set(v0) for k0, v0 in P._f['delta'].items() if v0}, set(P._f['Q']), set(P._f['F']), set(P._f['Gamma'])) != snap:
                    rep.violates(rule, f, 'def ' + f.name, 'on the PDA "{}" the PDA handed in is modified'.format(name))
                    return
    except (Unsupported, RecursionError) as e:
        rep.undecided(rule, f, 'def ' + f.name, 'outside the evaluator: {}'.format(e))
        return
    rep.holds(rule, f, 'def ' + f.name, 'on {} runs (nine model PDAs, two iteration orders of sets) the grammar derives exactly the words up to length 3 resp. 2 that the PDA accepts, and the PDA handed in is untouched'.format(cases))


# ---- Turing machine verdict and recorded run on model machines --------------------------------------------------------------------------

def _tm(Q, Sigma, Gamma, trans, q0, acc, rej, blank='_'):
    return Obj('TM', Q=set(Q), Sigma=set(Sigma), Gamma=set(Gamma), delta={(p, a): (q, b, d) for (p, a, q, b, d) in trans}, q0=q0, q_accept=acc, q_reject=rej, blank=blank)


_TMS = {
    'even number of 1s (missing transition rejects)': (['e', 'o', 'A', 'R'], ['0', '1'], ['0', '1', '_'], [('e', '0', 'e', '0', 'R'), ('e', '1', 'o', '1', 'R'), ('o', '0', 'o', '0', 'R'), ('o', '1', 'e', '1', 'R'), ('e', '_', 'A', '_', 'R')], 'e', 'A', 'R'),
    'bumps at the left end forever on 0, accepts on 1': (['l', 'A', 'R'], ['0', '1'], ['0', '1', '_'], [('l', '0', 'l', '0', 'L'), ('l', '1', 'A', '1', 'L'), ('l', '_', 'R', '_', 'R')], 'l', 'A', 'R'),
    'marks the first letter, runs to the end, comes back and checks the mark': (['s', 'r', 'b', 'A', 'R'], ['0', '1'], ['0', '1', 'x', '_'], [('s', '0', 'r', 'x', 'R'), ('s', '1', 'R', '1', 'R'), ('r', '0', 'r', '0', 'R'), ('r', '1', 'r', '1', 'R'), ('r', '_', 'b', '_', 'L'), ('b', '0', 'b', '0', 'L'), ('b', '1', 'b', '1', 'L'), ('b', 'x', 'A', 'x', 'L')], 's', 'A', 'R'),
    'initial state is the accepting state': (['A', 'R'], ['0'], ['0', '_'], [], 'A', 'A', 'R'),
    'writes blanks over the word and rejects at the end': (['w', 'A', 'R'], ['0', '1'], ['0', '1', '_'], [('w', '0', 'w', '_', 'R'), ('w', '1', 'w', '_', 'R'), ('w', '_', 'R', '_', 'L')], 'w', 'A', 'R'),
}


def _tm_ref(T, w, k):
    f = T._f
    tape = list(w) or [f['blank']]
    head, q = 0, f['q0']
    rows = [(q, tuple(tape), head)]
    if q in (f['q_accept'], f['q_reject']):
        return (q == f['q_accept']), rows
    for _ in range(k):
        a = tape[head]
        if (q, a) in f['delta']:
            q, b, d = f['delta'][q, a]
        else:
            q, b, d = f['q_reject'], a, 'R'
        tape[head] = b
        head = max(head - 1, 0) if d == 'L' else head + 1
        if head == len(tape):
            tape.append(f['blank'])
        rows.append((q, tuple(tape), head))
        if q in (f['q_accept'], f['q_reject']):
            return (q == f['q_accept']), rows
    return None, rows


def check_tm(ctx, rep, f_acc, f_sim, rule=RULE + '.M34'):
    """tm_accepts_word and tm_simulate_word on five model machines, all words up to length 3 and the budgets 0, 1, 2, 3, 5, 8, 40:
    the verdict is True / False exactly when the accepting / rejecting state is entered within the budget and None otherwise; the
    recorded sequence is the sequence of configurations of the definition (a missing transition moves to the rejecting state,
    a left move at the left end stays put), stops at the first halting state and has at most budget + 1 rows; every recorded
    tape is a snapshot (later steps do not change earlier rows)."""
    cases = 0
    try:
        for name, spec in _TMS.items():
            sigma = sorted(spec[1])
            for n in range(4):
                for tup in itertools.product(sigma, repeat=n):
                    w = ''.join(tup)
                    for k in (0, 1, 2, 3, 5, 8, 40):
                        T0 = _tm(*spec)
                        want, rows = _tm_ref(T0, w, k)
                        ok, got = _run(rule, rep, f_acc, lambda: _interp(ctx, 'asc', max_steps=400000).call(f_acc, [T0, w, k]), 'on the machine "{}", the word {!r} and the budget {}'.format(name, w, k))
                        if not ok:
                            return
                        cases += 1
                        if got is not want and got != want or (got is None) != (want is None):
                            rep.violates(rule, f_acc, 'def ' + f_acc.name, 'on the machine "{}", the word {!r} and the budget {} the verdict is {} instead of {}'.format(name, w, k, got, want))
                            return
                        ok, run = _run(rule, rep, f_sim, lambda: _interp(ctx, 'asc', max_steps=400000).call(f_sim, [_tm(*spec), w, k]), 'on the machine "{}", the word {!r} and the budget {}'.format(name, w, k))
                        if not ok:
                            return
                        if not isinstance(run, list) or not all(isinstance(r, tuple) and len(r) == 3 for r in run):
                            raise Unsupported('the run is not a list of triples')
                        have = [(str(q), tuple(str(x) for x in tape), h) for q, tape, h in run]
                        if have != rows:
                            i = next((j for j, (x, y) in enumerate(zip(have, rows)) if x != y), min(len(have), len(rows)))
                            rep.violates(rule, f_sim, 'def ' + f_sim.name, 'on the machine "{}", the word {!r} and the budget {} the recorded run differs from the configuration sequence of the definition at row {}: {} instead of {}'.format(
                                name, w, k, i, have[i] if i < len(have) else 'nothing', rows[i] if i < len(rows) else 'nothing (the run must stop there)'))
                            return
    except (Unsupported, RecursionError) as e:
        rep.undecided(rule, f_acc, 'def ' + f_acc.name, 'outside the evaluator: {}'.format(e))
        return
    rep.holds(rule, f_acc, 'def ' + f_acc.name + ' / ' + f_sim.name, 'on {} evaluations (five model machines, all words up to length 3, seven budgets) the verdict and the recorded run are those of the definition'.format(cases))
