"""R-MODEL -- small extracted models decided exactly (M1, M2, M6, M8 here; M3/M4 in ka_rules, M5 in pda_rules, M7 in cyk)."""
import ast

from .. import abseval
from ..abseval import Unsupported
from ..astutil import u, names_in, walk_no_nested, atoms_of
from ..model import norm

RULE = 'R-MODEL'


# ---- helpers -------------------------------------------------------------------------------------------

def single_def(f, name):
    out = []
    for n in walk_no_nested(f.node):
        if isinstance(n, ast.Assign) and any(isinstance(t, ast.Name) and t.id == name for t in n.targets):
            out.append(n.value)
        elif isinstance(n, ast.AnnAssign) and isinstance(n.target, ast.Name) and n.target.id == name and n.value is not None:
            out.append(n.value)
    return out


def resolve_alias(f, e, depth=4):
    """follow single-definition local names to the expression they denote"""
    while depth > 0 and isinstance(e, ast.Name):
        d = single_def(f, e.id)
        if len(d) != 1:
            break
        e = d[0]
        depth -= 1
    return e


def set_membership_table(f, expr, bases):
    """truth table of `x in expr` over membership in the base sets.  bases: dict name -> set of alias texts.
    Returns dict frozenset(true bases) -> bool, or raises Unsupported."""
    names = sorted(bases)

    def base_of(e):
        e0 = e
        e = resolve_alias(f, e)
        t = u(e)
        for b, al in bases.items():
            if t in al or u(e0) in al:
                return b
        return None

    def evs(e, assign):
        b = base_of(e)
        if b is not None:
            return assign[b]
        e = resolve_alias(f, e)
        if isinstance(e, ast.BinOp):
            l, r = evs(e.left, assign), evs(e.right, assign)
            if isinstance(e.op, ast.BitOr):
                return l or r
            if isinstance(e.op, ast.BitAnd):
                return l and r
            if isinstance(e.op, ast.Sub):
                return l and not r
            if isinstance(e.op, ast.BitXor):
                return l != r
        if isinstance(e, ast.Call) and isinstance(e.func, ast.Attribute) and e.func.attr in ('difference', 'union', 'intersection', 'symmetric_difference') and len(e.args) == 1:
            l, r = evs(e.func.value, assign), evs(e.args[0], assign)
            return {'difference': l and not r, 'union': l or r, 'intersection': l and r, 'symmetric_difference': l != r}[e.func.attr]
        if isinstance(e, ast.Call) and isinstance(e.func, ast.Name) and e.func.id in ('set', 'frozenset') and len(e.args) == 1:
            return evs(e.args[0], assign)
        if isinstance(e, ast.Call) and isinstance(e.func, ast.Attribute) and e.func.attr == 'copy' and not e.args:
            return evs(e.func.value, assign)
        if isinstance(e, (ast.SetComp, ast.ListComp, ast.GeneratorExp)) and len(e.generators) == 1 and u(e.elt) == u(e.generators[0].target):
            g = e.generators[0]
            v = evs(g.iter, assign)
            for c in g.ifs:
                v = v and cond(c, u(g.target), assign)
            return v
        raise Unsupported('set expression ' + u(e))

    def cond(c, var, assign):
        if isinstance(c, ast.BoolOp):
            vs = [cond(v, var, assign) for v in c.values]
            return all(vs) if isinstance(c.op, ast.And) else any(vs)
        if isinstance(c, ast.UnaryOp) and isinstance(c.op, ast.Not):
            return not cond(c.operand, var, assign)
        if isinstance(c, ast.Compare) and len(c.ops) == 1 and u(c.left) == var and isinstance(c.ops[0], (ast.In, ast.NotIn)):
            v = evs(c.comparators[0], assign)
            return v if isinstance(c.ops[0], ast.In) else not v
        raise Unsupported('filter ' + u(c))

    table = {}
    for mask in range(2 ** len(names)):
        assign = {n: bool(mask >> i & 1) for i, n in enumerate(names)}
        table[frozenset(n for n in names if assign[n])] = evs(expr, assign)
    return table


def expect_table(bases, fn):
    names = sorted(bases)
    table = {}
    for mask in range(2 ** len(names)):
        assign = {n: bool(mask >> i & 1) for i, n in enumerate(names)}
        table[frozenset(n for n in names if assign[n])] = fn(assign)
    return table


def ctor_call(ctx, f, cls_name):
    """constructor calls of the given class in f (returned ones first)"""
    out = []
    for c in ctx.prog.calls_in(f):
        r = ctx.resolve_call(f, c)
        if r is not None and r.kind == 'class' and r.target.name == cls_name:
            out.append(c)
    return out


def ctor_arg(ctx, call, cls_name, field):
    """expression bound to constructor parameter ``field`` (by position or keyword)"""
    c = None
    for k in ctx.prog.classes.values():
        if k.name == cls_name:
            c = k
    if c is None:
        return None
    params = [p for p, _, _ in c.init_params]
    for kw in call.keywords:
        if kw.arg == field:
            return kw.value
    if field in params:
        i = params.index(field)
        if i < len(call.args):
            return call.args[i]
    return None


# ---- M1: accepting sets ------------------------------------------------------------------------------------

PRODUCT_TABLE = {
    'union': lambda a: a['F1'] or a['F2'],
    'intersection': lambda a: a['F1'] and a['F2'],
    'symmetric_difference': lambda a: a['F1'] != a['F2'],
}


def check_product_accepting(ctx, rep, f):
    """dfa_product: for each product type, the pairs selected as accepting are OR / AND / XOR of the components.  The body is
    followed with product_type fixed to each of the three values; the selecting condition (inline, or a local helper
    predicate) is evaluated for the four combinations of (q1 in F1, q2 in F2)."""
    p1, p2 = f.pos_params[0].arg, f.pos_params[1].arg
    tparam = f.pos_params[2].arg if len(f.pos_params) > 2 else 'product_type'
    seen = set()

    def aliases(fn, which):
        out = {which + '.F'}
        for g in [f] + list(f.nested.values()):
            for st in walk_no_nested(g.node):
                if isinstance(st, ast.Assign) and len(st.targets) == 1 and isinstance(st.targets[0], ast.Name) and u(st.value) == which + '.F':
                    out.add(st.targets[0].id)
        return out
    al1, al2 = aliases(f, p1), aliases(f, p2)

    def atoms_for(v1, v2, b1, b2):
        atoms = {}
        for s_ in al1:
            atoms['{} in {}'.format(v1, s_)] = b1
            atoms['{} not in {}'.format(v1, s_)] = not b1
        for s_ in al2:
            atoms['{} in {}'.format(v2, s_)] = b2
            atoms['{} not in {}'.format(v2, s_)] = not b2
        # a set of states is never equal to a state (the links of an accidental comparison chain `q1 in F1 != q2 in F2`)
        for s_ in al1 | al2:
            for v_ in (v1, v2):
                atoms['{} != {}'.format(s_, v_)] = True
                atoms['{} != {}'.format(v_, s_)] = True
                atoms['{} == {}'.format(s_, v_)] = False
                atoms['{} == {}'.format(v_, s_)] = False
        return atoms

    def eval_cond(cond, v1, v2, b1, b2, kind):
        # a call of a local predicate: evaluate its body with its parameters standing for the pair
        if isinstance(cond, ast.Call) and isinstance(cond.func, ast.Name) and cond.func.id in f.nested and len(cond.args) == 2 and [u(a) for a in cond.args] == [v1, v2]:
            h = f.nested[cond.func.id]
            ps = [p for p in h.params]
            atoms = atoms_for(ps[0], ps[1], b1, b2)

            def run(stmts):
                for st in stmts:
                    if isinstance(st, ast.If):
                        r = run(st.body) if abseval.ev(st.test, {tparam: kind}, atoms) else run(st.orelse)
                        if r is not None:
                            return r
                    elif isinstance(st, ast.Return):
                        return ('ret', bool(abseval.ev(st.value, {tparam: kind}, atoms)))
                    elif isinstance(st, (ast.Expr, ast.Pass)):
                        continue
                    else:
                        raise Unsupported('statement ' + type(st).__name__)
                return None
            r = run(h.node.body)
            if r is None:
                raise Unsupported('predicate returns nothing')
            return r[1]
        return bool(abseval.ev(cond, {tparam: kind}, atoms_for(v1, v2, b1, b2)))

    def find_selection(stmts, kind):
        """the comprehension with a condition that is assigned on the path taken for this product type"""
        for st in stmts:
            if isinstance(st, ast.If):
                try:
                    t = abseval.ev(st.test, {tparam: kind})
                except Unsupported:
                    continue
                r = find_selection(st.body if t else st.orelse, kind)
                if r is not None:
                    return r
                continue
            if isinstance(st, ast.Raise):
                return ('raise', st)
            if isinstance(st, ast.Assign) and len(st.targets) == 1 and isinstance(st.targets[0], ast.Name):
                v = st.value
                comp = None
                if isinstance(v, ast.Call) and isinstance(v.func, ast.Name) and v.func.id in ('list', 'set') and len(v.args) == 1 and isinstance(v.args[0], (ast.GeneratorExp, ast.ListComp, ast.SetComp)):
                    comp = v.args[0]
                elif isinstance(v, (ast.ListComp, ast.SetComp)):
                    comp = v
                if comp is not None and comp.generators and comp.generators[0].ifs:
                    return ('comp', st, comp)
        return None

    for kind in PRODUCT_TABLE:
        sel = find_selection(f.node.body, kind)
        if sel is None:
            rep.undecided(RULE + '.M1', f, 'product ' + kind, "selection of the accepting pairs for '{}' not found".format(kind))
            continue
        if sel[0] == 'raise':
            rep.violates(RULE + '.M1', f, sel[1], "the product type '{}' is rejected".format(kind))
            continue
        _, st, comp = sel
        seen.add(kind)
        g = comp.generators[0]
        tgt = g.target
        if not (isinstance(tgt, ast.Tuple) and len(tgt.elts) == 2):
            rep.undecided(RULE + '.M1', f, st, 'pair pattern not recognised')
            continue
        v1, v2 = u(tgt.elts[0]), u(tgt.elts[1])
        cond = g.ifs[0] if len(g.ifs) == 1 else ast.BoolOp(op=ast.And(), values=list(g.ifs))
        try:
            bad = None
            for b1 in (False, True):
                for b2 in (False, True):
                    got = eval_cond(cond, v1, v2, b1, b2, kind)
                    want = PRODUCT_TABLE[kind]({'F1': b1, 'F2': b2})
                    if got != want and bad is None:
                        bad = (b1, b2, got, want)
            if bad:
                b1, b2, got, want = bad
                rep.violates(RULE + '.M1', f, st, "accepting pairs of the '{}' product: for ({} in F1)={}, ({} in F2)={} the pair is {} but must be {}".format(
                    kind, v1, b1, v2, b2, 'accepting' if got else 'rejecting', 'accepting' if want else 'rejecting'))
            else:
                rep.holds(RULE + '.M1', f, 'product ' + kind, "truth table of the accepting condition of the '{}' product equals {} (4 rows)".format(
                    kind, {'union': 'OR', 'intersection': 'AND', 'symmetric_difference': 'XOR'}[kind]))
        except Unsupported as e:
            rep.undecided(RULE + '.M1', f, st, 'condition outside the boolean fragment: {}'.format(e))
    return len(seen)


def check_product_wrappers(ctx, rep, specs):
    """dfa_union/dfa_intersection/dfa_symmetric_difference pass their own kind and both operands in order"""
    for spec, kind in specs:
        f = ctx.prog.func(spec)
        calls = [c for c in ctx.prog.calls_in(f) if ctx.callee_name(f, c) == 'dfa_product']
        if len(calls) != 1:
            rep.undecided(RULE + '.M1', f, 'def ' + f.name, 'no single call of dfa_product')
            continue
        c = calls[0]
        args = [u(a) for a in c.args]
        lit = c.args[2].value if len(c.args) > 2 and isinstance(c.args[2], ast.Constant) else None
        params = [p.arg for p in f.pos_params]
        if lit == kind and args[:2] == params[:2]:
            rep.holds(RULE + '.M1', f, c, "wrapper passes its operands in order and the product type '{}'".format(kind), nontrivial=False)
        else:
            rep.violates(RULE + '.M1', f, c, "wrapper {} must call dfa_product({}, {}, '{}')".format(f.name, params[0], params[1], kind))


def check_set_model(ctx, rep, f, cls_name, field, bases, expected, what, rule=RULE + '.M1'):
    """the constructor argument ``field`` of the returned object, as a membership truth table over ``bases``"""
    calls = ctor_call(ctx, f, cls_name)
    if not calls:
        rep.undecided(rule, f, 'def ' + f.name, 'no {} constructor call'.format(cls_name))
        return
    c = calls[-1]
    e = ctor_arg(ctx, c, cls_name, field)
    if e is None:
        rep.undecided(rule, f, c, 'argument {} not found'.format(field))
        return
    try:
        got = set_membership_table(f, e, bases)
    except Unsupported as ex:
        rep.undecided(rule, f, c, 'set expression outside the fragment: {}'.format(ex))
        return
    want = expect_table(bases, expected)
    if got == want:
        rep.holds(rule, f, c, '{} of the result is {} (membership truth table, {} rows)'.format(field, what, len(want)))
    else:
        diff = [sorted(k) for k in want if want[k] != got[k]]
        rep.violates(rule, f, c, '{} of the result must be {}; differs for membership pattern(s) {}'.format(field, what, diff[:3]))


# ---- M2: edge transformers -------------------------------------------------------------------------------------

class Edge:
    def __init__(self):
        self.src = None      # (s, a, t) role names
        self.filters = []    # atoms
        self.key = None      # tuple of texts
        self.val = None      # text
        self.stmt = None
        self.how = None      # add / assign


def extract_edge_loops(ctx, f, map_text_suffix='.delta'):
    """`for (s, a), t in X.delta.items(): [if c:] D[k1, k2].add(v)` and dict comprehensions over X.delta"""
    out = []
    fx = ctx.facts(f)
    for n in walk_no_nested(f.node):
        if isinstance(n, ast.For) and isinstance(n.iter, ast.Call) and isinstance(n.iter.func, ast.Attribute) and n.iter.func.attr == 'items':
            src_map = resolve_alias(f, n.iter.func.value)
            if not u(src_map).endswith(map_text_suffix):
                continue
            tgt = n.target
            if not (isinstance(tgt, ast.Tuple) and len(tgt.elts) == 2 and isinstance(tgt.elts[0], ast.Tuple)):
                continue
            roles = tuple(u(x) for x in tgt.elts[0].elts) + (u(tgt.elts[1]),)
            for st in ast.walk(n):
                e = None
                if isinstance(st, ast.Expr) and isinstance(st.value, ast.Call) and isinstance(st.value.func, ast.Attribute) \
                        and st.value.func.attr == 'add' and isinstance(st.value.func.value, ast.Subscript):
                    sub = st.value.func.value
                    e = Edge()
                    e.how = 'add'
                    e.val = u(st.value.args[0])
                elif isinstance(st, ast.Assign) and len(st.targets) == 1 and isinstance(st.targets[0], ast.Subscript):
                    sub = st.targets[0]
                    e = Edge()
                    e.how = 'assign'
                    e.val = u(st.value)
                if e is None:
                    continue
                e.src = roles
                e.key = tuple(u(x) for x in sub.slice.elts) if isinstance(sub.slice, ast.Tuple) else (u(sub.slice),)
                e.stmt = st
                e.map = u(sub.value)
                nid = fx.cfg.n_of(st)
                loop_id = fx.cfg.n_of(n)
                e.filters = [a for a in fx.guard_atoms(nid) if a[-1] != loop_id and fx.cfg.dominates(loop_id, a[-1])]
                out.append(e)
    return out


def check_reverse_edges(ctx, rep, f):
    edges = extract_edge_loops(ctx, f)
    if not edges:
        rep.undecided(RULE + '.M2', f, 'def ' + f.name, 'edge loop over D.delta.items() not found')
        return
    for e in edges:
        s, a, t = e.src
        if e.key == (t, a) and e.val == s and not e.filters:
            rep.holds(RULE + '.M2', f, e.stmt, 'every edge s -{}-> t becomes t -{}-> s (key ({}, {}), value {})'.format(a, a, t, a, s))
        else:
            rep.violates(RULE + '.M2', f, e.stmt, 'reversal must store, for each edge ({s},{a})->{t}, the edge ({t},{a})->{s}; found key ({k}) value {v}{flt}'.format(
                s=s, a=a, t=t, k=', '.join(e.key), v=e.val, flt=' under an extra filter' if e.filters else ''))


def _check_no_prefix_model(ctx, rep, f):
    """dfa_no_prefix, evaluated (analyser's own evaluator) on a three-state DFA over two letters with every choice of the
    accepting set: the result keeps Q, Sigma, q0 and F, and its transitions are exactly the transitions of D that leave a
    non-accepting state, each to the singleton of its target.  The construction treats every transition on its own and
    decides by `source in F`, so the model covers both outcomes for every transition.  Returns True when decided."""
    import itertools
    from ..miniexec import Interp, Obj, Raised
    from ..abseval import Unsupported as U2
    classes = {'NFA': lambda Q, Sigma, delta, q0, F, epsilon=None, *rest, **kw: Obj('NFA', Q=Q, Sigma=Sigma, delta=delta, q0=q0, F=F, epsilon=epsilon)}
    trans = {('p', 'a'): 'q', ('p', 'b'): 'r', ('q', 'a'): 'q', ('q', 'b'): 'p', ('r', 'a'): 'r', ('r', 'b'): 'q'}
    cases = 0
    try:
        for k in range(4):
            for Fs in itertools.combinations(['p', 'q', 'r'], k):
                D = Obj('DFA', Q={'p', 'q', 'r'}, Sigma={'a', 'b'}, delta=dict(trans), q0='p', F=set(Fs))
                try:
                    N = Interp(ctx, classes=classes, stubs={'fresh_epsilon': lambda it, args, kw: 'EPS'}).call(f, [D])
                except Raised as ex:
                    rep.violates(RULE + '.M2', f, 'def ' + f.name, 'the construction raises {} on a three-state DFA with F = {}'.format(ex.name, sorted(Fs)))
                    return True
                if not isinstance(N, Obj) or N._cls != 'NFA':
                    raise U2('result is not an NFA')
                cases += 1
                got = {k0: set(v0) for k0, v0 in dict(N._f['delta']).items() if v0}
                want = {(s, a): {t} for (s, a), t in trans.items() if s not in Fs}
                bad = None
                if got != want:
                    diff = sorted(set(got.items() if False else [k0 for k0 in set(got) | set(want) if got.get(k0) != want.get(k0)]))
                    k0 = diff[0]
                    bad = 'the transition from {} on {} is {} in the result, the prefix-free restriction has {} (F = {})'.format(k0[0], k0[1], sorted(got.get(k0, [])) or 'absent', sorted(want.get(k0, [])) or 'none', sorted(Fs))
                elif set(N._f['Q']) != D._f['Q'] or set(N._f['Sigma']) != D._f['Sigma'] or N._f['q0'] != 'p' or set(N._f['F']) != set(Fs):
                    bad = 'states, alphabet, initial state or accepting set of the result differ from those of the DFA (F = {})'.format(sorted(Fs))
                if bad:
                    rep.violates(RULE + '.M2', f, 'def ' + f.name, bad + ': the result does not accept exactly the words of L(D) without a proper prefix in L(D)')
                    return True
    except (U2, RecursionError) as e:
        rep.note('{}: finite-model evaluation not applicable ({})'.format(f.short, e))
        return False
    rep.holds(RULE + '.M2', f, 'def ' + f.name, 'on a three-state DFA with each of its {} accepting sets the result keeps exactly the transitions that leave a non-accepting state, and Q, Sigma, q0, F'.format(cases))
    return True


def check_no_prefix_edges(ctx, rep, f):
    if _check_no_prefix_model(ctx, rep, f):
        return
    edges = extract_edge_loops(ctx, f)
    if not edges:
        rep.undecided(RULE + '.M2', f, 'def ' + f.name, 'edge loop over D.delta.items() not found')
        return
    p = f.pos_params[0].arg
    for e in edges:
        s, a, t = e.src
        flt = [x for x in e.filters if x[0] == 'in']
        ok_shape = e.key == (s, a) and e.val == t
        ok_filter = len(flt) == 1 and flt[0][1] == s and flt[0][3] is False and u(resolve_alias(f, ast.parse(flt[0][2], mode='eval').body)) == p + '.F'
        if ok_shape and ok_filter:
            rep.holds(RULE + '.M2', f, e.stmt, 'edges are kept unchanged exactly when their source {} is not accepting'.format(s))
        elif not ok_shape:
            rep.violates(RULE + '.M2', f, e.stmt, 'prefix-free restriction must keep edges ({},{})->{} unchanged; found key ({}) value {}'.format(s, a, t, ', '.join(e.key), e.val))
        else:
            rep.violates(RULE + '.M2', f, e.stmt, 'prefix-free restriction must cut exactly the edges leaving accepting states (filter `{} not in {}.F` on the source); found {}'.format(
                s, p, [(x[1], 'in' if x[3] else 'not in', x[2]) for x in flt] or 'no filter'))


def check_reachable_restriction(ctx, rep, f):
    """dfa_remove_unreachable_states: delta restricted to sources in the reachable set, F intersected with it"""
    comps = [n for n in walk_no_nested(f.node) if isinstance(n, ast.DictComp)]
    if len(comps) != 1:
        rep.undecided(RULE + '.M2', f, 'def ' + f.name, 'dict comprehension not found')
        return
    c = comps[0]
    g = c.generators[0]
    key = u(c.key)
    tgt = u(g.target)
    val_ok = isinstance(c.value, ast.Subscript) and u(c.value.slice) == key.strip('()') or u(c.value).replace(' ', '') == 'delta[{}]'.format(key.strip('()')).replace(' ', '')
    reach_names = {n for n in names_in(c) if any(isinstance(d, ast.Call) and ctx.callee_name(f, d) == 'dfa_reachable_states' for d in single_def(f, n))}
    src = u(g.target.elts[0]) if isinstance(g.target, ast.Tuple) else None
    flt_ok = len(g.ifs) == 1 and isinstance(g.ifs[0], ast.Compare) and isinstance(g.ifs[0].ops[0], ast.In) and u(g.ifs[0].left) == src \
        and u(g.ifs[0].comparators[0]) in reach_names
    if key.replace(' ', '') == tgt.replace(' ', '') and flt_ok:
        rep.holds(RULE + '.M2', f, c, 'transitions are kept unchanged exactly when their source is reachable')
    else:
        rep.violates(RULE + '.M2', f, c, 'the restriction must keep (q,a)->delta[q,a] exactly for reachable sources q (filter on the source state against the reachable set)')
    # reachable set is computed from the initial state
    for n in reach_names:
        for d in single_def(f, n):
            if isinstance(d, ast.Call) and len(d.args) >= 2:
                q = u(resolve_alias(f, d.args[1]))
                if q.endswith('.q0') and (len(d.args) < 3 or (isinstance(d.args[2], ast.Constant) and d.args[2].value == 0)):
                    rep.holds(RULE + '.M2', f, d, 'reachability is computed from the initial state with depth 0')
                else:
                    rep.violates(RULE + '.M2', f, d, 'reachable states must be computed from the initial state (depth 0), found {}'.format(u(d)))


def check_product_step(ctx, rep, f):
    """both components of the product step on the same symbol, each with its own transition function"""
    p1, p2 = f.pos_params[0].arg, f.pos_params[1].arg
    comps = [n for n in walk_no_nested(f.node) if isinstance(n, ast.DictComp)]
    if len(comps) != 1:
        rep.undecided(RULE + '.M2', f, 'def ' + f.name, 'dict comprehension not found')
        return
    c = comps[0]
    g = c.generators[0]
    if not (isinstance(g.target, ast.Tuple) and len(g.target.elts) == 2 and isinstance(g.target.elts[0], ast.Tuple)):
        rep.undecided(RULE + '.M2', f, c, 'generator target not recognised')
        return
    q1, q2 = (u(x) for x in g.target.elts[0].elts)
    a = u(g.target.elts[1])
    subs = [n for n in ast.walk(c.value) if isinstance(n, ast.Subscript)]
    sig = []
    for s in subs:
        m = u(resolve_alias(f, s.value))
        k = tuple(u(x) for x in s.slice.elts) if isinstance(s.slice, ast.Tuple) else (u(s.slice),)
        sig.append((m, k))
    want = [(p1 + '.delta', (q1, a)), (p2 + '.delta', (q2, a))]
    key_ok = isinstance(c.key, ast.Tuple) and len(c.key.elts) == 2 and u(c.key.elts[1]) == a and isinstance(c.key.elts[0], ast.Call) \
        and [u(x) for x in c.key.elts[0].args] == [q1, q2]
    order_ok = isinstance(c.value, ast.Call) and len(c.value.args) == 2 and [u(resolve_alias(f, x.value)) if isinstance(x, ast.Subscript) else None for x in c.value.args] == [p1 + '.delta', p2 + '.delta']
    if sig == want and key_ok and order_ok:
        rep.holds(RULE + '.M2', f, c, 'product step: ({q1},{q2}) -{a}-> (delta1[{q1},{a}], delta2[{q2},{a}]) -- same symbol, own transition function, same pairing function'.format(q1=q1, q2=q2, a=a))
    else:
        rep.violates(RULE + '.M2', f, c, 'the synchronous product must map ({q1},{q2}),{a} to (delta1[{q1},{a}], delta2[{q2},{a}]); found lookups {sig}'.format(q1=q1, q2=q2, a=a, sig=sig))
    # the iteration covers all pairs and the whole alphabet
    it = g.iter
    if isinstance(it, ast.Call) and ctx.callee_name(f, it) == 'itertools.product' and len(it.args) == 2:
        st_expr = resolve_alias(f, it.args[0])
        ok_states = isinstance(st_expr, ast.Call) and any(ctx.callee_name(f, x) == 'itertools.product' for x in ast.walk(st_expr) if isinstance(x, ast.Call))
        if ok_states:
            inner = [x for x in ast.walk(st_expr) if isinstance(x, ast.Call) and ctx.callee_name(f, x) == 'itertools.product'][0]
            srcs = [u(resolve_alias(f, x)) for x in inner.args]
            if srcs == [p1 + '.Q', p2 + '.Q']:
                rep.holds(RULE + '.M2', f, it, 'transitions are defined for all of Q1 x Q2 x Sigma')
            else:
                rep.violates(RULE + '.M2', f, it, 'product states must range over Q1 x Q2, found {}'.format(srcs))


def check_make_total(ctx, rep, f):
    """only missing (state, symbol) pairs are sent to the trap state, for all states including the trap"""
    fx = ctx.facts(f)
    stores = [n for n in walk_no_nested(f.node) if isinstance(n, ast.Assign) and len(n.targets) == 1 and isinstance(n.targets[0], ast.Subscript)]
    if len(stores) != 1:
        rep.undecided(RULE + '.M2', f, 'def ' + f.name, 'single store into delta not found')
        return
    st = stores[0]
    key = u(st.targets[0].slice)
    m = u(st.targets[0].value)
    atoms = list(fx.guard_atoms(fx.cfg.n_of(st)))
    nk = lambda t: t.replace(' ', '').strip('()')
    # the pairs may have been collected beforehand:  missing = [k for k in product(Q, Sigma) if k not in delta] ; for k in missing: ...
    enum_stmt = st
    for lp in walk_no_nested(f.node):
        if isinstance(lp, ast.For) and any(x is st for x in ast.walk(lp)) and nk(u(lp.target)) == nk(key):
            enum_stmt = lp
            src = lp.iter
            if isinstance(src, ast.Name):
                defs = [n for n in walk_no_nested(f.node) if isinstance(n, ast.Assign) and len(n.targets) == 1 and isinstance(n.targets[0], ast.Name) and n.targets[0].id == src.id]
                if len(defs) == 1:
                    enum_stmt = defs[0]
                    src = defs[0].value
            if isinstance(src, (ast.ListComp, ast.GeneratorExp, ast.SetComp)) and len(src.generators) == 1 and nk(u(src.elt)) == nk(u(src.generators[0].target)):
                for cond in src.generators[0].ifs:
                    for a in atoms_of(cond, True):
                        if a[0] == 'in' and nk(a[1]) == nk(u(src.elt)):
                            atoms.append((a[0], key, a[2], a[3]))
    alias = lambda t: u(resolve_alias(f, ast.parse(t, mode='eval').body)) if t.isidentifier() else t
    guard = [a for a in atoms if a[0] == 'in' and alias(a[2]) == alias(m) and nk(a[1]) == nk(key)]
    trap = u(st.value)
    fresh = any(isinstance(d, ast.Call) and ctx.callee_name(f, d) == 'fresh_state' for d in single_def(f, trap))
    if guard and guard[0][3] is False:
        rep.holds(RULE + '.M2', f, st, 'a pair ({}) is sent to the trap state only when it has no transition yet'.format(key))
    elif guard:
        rep.violates(RULE + '.M2', f, st, 'existing transitions are redirected to the trap state (guard `{} in {}` has the wrong polarity)'.format(key, m))
    else:
        rep.violates(RULE + '.M2', f, st, 'transitions are overwritten with the trap state without testing that the pair ({}) is missing'.format(key))
    if not fresh:
        rep.violates(RULE + '.M2', f, st, 'the trap state {} does not come from fresh_state'.format(trap))
    # the trap state is added to Q before the completion loop so that it gets its own self-loops
    adds = [n for n in walk_no_nested(f.node) if isinstance(n, ast.Expr) and isinstance(n.value, ast.Call) and isinstance(n.value.func, ast.Attribute)
            and n.value.func.attr == 'add' and n.value.args and u(n.value.args[0]) == trap]
    if adds and fx.cfg.dominates(fx.cfg.n_of(adds[0]), fx.cfg.n_of(enum_stmt)) and fx.cfg.n_of(adds[0]) != fx.cfg.n_of(enum_stmt):
        rep.holds(RULE + '.M2', f, adds[0], 'the trap state joins Q before the missing pairs are enumerated (so it is completed too)')
    else:
        rep.violates(RULE + '.M2', f, st, 'the trap state is not added to Q before the completion loop: it has no outgoing transitions and the result is not total')


# ---- M6: Turing machine step ------------------------------------------------------------------------------------

def _check_tm_step_syntactic(ctx, rep, f):
    p_T, p_p, p_tape, p_head = [p.arg for p in f.pos_params][:4]
    fx = ctx.facts(f)
    # (1) head update
    head_defs = []
    rets = [n for n in walk_no_nested(f.node) if isinstance(n, ast.Return) and isinstance(n.value, ast.Tuple) and len(n.value.elts) == 2]
    if not rets:
        rep.undecided(RULE + '.M6', f, 'def ' + f.name, 'return (state, head) not found')
        return
    hv = rets[0].value.elts[1]
    hexpr = resolve_alias(f, hv)
    # the direction is the third component unpacked from the transition (or its default)
    unpack3 = [n for n in walk_no_nested(f.node) if isinstance(n, ast.Assign) and isinstance(n.targets[0], ast.Tuple) and len(n.targets[0].elts) == 3 and isinstance(n.targets[0].elts[2], ast.Name)]
    dnames = sorted({n.targets[0].elts[2].id for n in unpack3}) or [n for n in names_in(hexpr) if n not in (p_head,)]
    try:
        ok = True
        for h in range(0, 4):
            for d in ('L', 'R'):
                env = {p_head: h, 'len({})'.format(p_tape): 9}
                for dn in dnames:
                    env[dn] = d
                if isinstance(hexpr, ast.Name) and hexpr.id not in env:
                    # the new head is computed by statements (if/else): run them on the store {head, direction}
                    out = abseval.run_block(f.node.body, env, fixed=set(dnames) | {p_head})
                    got = out.get(hexpr.id, abseval.UNKNOWN)
                    if got is abseval.UNKNOWN:
                        raise Unsupported('value of {} not determined by head and direction'.format(hexpr.id))
                else:
                    got = abseval.ev(hexpr, env)
                want = max(h - 1, 0) if d == 'L' else h + 1
                if got != want:
                    ok = False
                    rep.violates(RULE + '.M6', f, hexpr, 'head update: at position {} with direction {} the head moves to {} but must move to {} (a left move at the left end stays put)'.format(h, d, got, want))
                    break
            if not ok:
                break
        if ok:
            rep.holds(RULE + '.M6', f, hexpr, 'head update evaluated for positions 0..3 x {L,R}: left is clamped at 0, right advances by one (head >= 0 always)')
    except Unsupported as e:
        rep.undecided(RULE + '.M6', f, hexpr, 'head expression outside the fragment: {}'.format(e))
    # (2) missing transition default
    unpack = [n for n in walk_no_nested(f.node) if isinstance(n, ast.Assign) and isinstance(n.targets[0], ast.Tuple) and len(n.targets[0].elts) == 3]
    default = None
    for n in unpack:
        atoms = fx.guard_atoms(fx.cfg.n_of(n))
        if any(a[0] == 'in' and a[3] is False and a[2].endswith('.delta') for a in atoms) and isinstance(n.value, ast.Tuple):
            default = n
    read_var = None
    for n in walk_no_nested(f.node):
        if isinstance(n, ast.Assign) and isinstance(n.value, ast.Subscript) and u(n.value.value) == p_tape and u(n.value.slice) == p_head:
            read_var = u(n.targets[0])
    if default is None:
        rep.violates(RULE + '.M6', f, 'def ' + f.name, 'no default for a missing transition (must be: move to the rejecting state, keep the symbol, move right)')
    else:
        q, b, d = default.value.elts
        dval = None
        try:
            dval = abseval.ev(d, {})
        except Unsupported:
            pass
        if u(q) == p_T + '.q_reject' and u(b) == read_var and dval == 'R':
            rep.holds(RULE + '.M6', f, default, 'missing transition defaults to (q_reject, symbol read, R)')
        else:
            rep.violates(RULE + '.M6', f, default, 'a missing transition must default to ({}.q_reject, {}, R); found ({}, {}, {})'.format(p_T, read_var, u(q), u(b), u(d)))
    # (3) tape extension with blank when the head leaves the written part
    apps = [n for n in walk_no_nested(f.node) if isinstance(n, ast.Expr) and isinstance(n.value, ast.Call) and isinstance(n.value.func, ast.Attribute)
            and n.value.func.attr == 'append' and u(n.value.func.value) == p_tape]
    if len(apps) == 1 and u(apps[0].value.args[0]) == p_T + '.blank':
        atoms = fx.guard_atoms(fx.cfg.n_of(apps[0]))
        if any(a[0] == 'eq' and a[3] is True and {a[1], a[2]} == {u(hv), 'len({})'.format(p_tape)} for a in atoms):
            rep.holds(RULE + '.M6', f, apps[0], 'the tape is extended by exactly one blank when the new head position equals its length')
        else:
            rep.violates(RULE + '.M6', f, apps[0], 'the tape extension is not guarded by `new head == len(tape)`')
    else:
        rep.violates(RULE + '.M6', f, 'def ' + f.name, 'the tape must be extended with the blank symbol when the head moves past its end')
    # (4) write before move
    writes = [n for n in walk_no_nested(f.node) if isinstance(n, ast.Assign) and isinstance(n.targets[0], ast.Subscript) and u(n.targets[0].value) == p_tape]
    if len(writes) == 1 and u(writes[0].targets[0].slice) == p_head:
        rep.holds(RULE + '.M6', f, writes[0], 'the symbol is written at the old head position')
    else:
        rep.violates(RULE + '.M6', f, 'def ' + f.name, 'exactly one write `tape[head] = b` at the old head position is required')


# ---- M8: slice orientation ------------------------------------------------------------------------------------------

def check_prefix_helper(ctx, rep, f):
    """language_no_prefix: candidates tested against L are exactly the proper prefixes w[:i], 0 <= i < len(w)"""
    fs = [f] + list(f.nested.values())
    found = False
    for g in fs:
        for comp in [n for n in walk_no_nested(g.node) if isinstance(n, (ast.GeneratorExp, ast.ListComp, ast.SetComp))]:
            subs = [s for s in ast.walk(comp.elt) if isinstance(s, ast.Subscript) and isinstance(s.slice, ast.Slice)]
            if not subs or len(comp.generators) != 1:
                continue
            gen = comp.generators[0]
            if not (isinstance(gen.iter, ast.Call) and isinstance(gen.iter.func, ast.Name) and gen.iter.func.id == 'range' and isinstance(gen.target, ast.Name)):
                continue
            found = True
            s = subs[0]
            w = u(s.value)
            try:
                ok = True
                for n in range(0, 5):
                    got = set()
                    for i in abseval.ev(gen.iter, {'len({})'.format(w): n}):
                        got.add(abseval.slice_bounds(s, {gen.target.id: i, 'len({})'.format(w): n}, n))
                    want = {(0, i) for i in range(0, n)}
                    if got != want:
                        ok = False
                        kind = 'suffixes' if any(b == n and a > 0 for a, b in got) else 'a different set of slices'
                        rep.violates(RULE + '.M8', g, comp, 'for |w|={} the slices tested against L are {} ({}), but the proper prefixes are {} (from the empty prefix up to length |w|-1)'.format(
                            n, sorted(got), kind, sorted(want)))
                        break
                if ok:
                    rep.holds(RULE + '.M8', g, comp, 'the slices tested are exactly the proper prefixes w[:i], 0 <= i < |w| (evaluated for |w| = 0..4)')
            except Unsupported as e:
                rep.undecided(RULE + '.M8', g, comp, 'slice arithmetic outside the fragment: {}'.format(e))
    if not found:
        # startswith form
        sw = [n for g in fs for n in walk_no_nested(g.node) if isinstance(n, ast.Call) and isinstance(n.func, ast.Attribute) and n.func.attr == 'startswith']
        if sw:
            rep.undecided(RULE + '.M8', f, sw[0], 'startswith form: orientation not decided by this rule')
        else:
            rep.undecided(RULE + '.M8', f, 'def ' + f.name, 'no prefix test recognised')


def check_no_extend_helper(ctx, rep, f):
    """language_no_extend: w is kept iff no v in L has w as a proper prefix"""
    helper = None
    for g in f.nested.values():
        if len(g.pos_params) == 2:
            helper = g
    if helper is None:
        rep.undecided(RULE + '.M8', f, 'def ' + f.name, 'prefix helper not found')
        return
    a, b = helper.pos_params[0].arg, helper.pos_params[1].arg
    rets = [n for n in walk_no_nested(helper.node) if isinstance(n, ast.Return)]
    sw = [n for n in ast.walk(rets[0].value) if isinstance(n, ast.Call) and isinstance(n.func, ast.Attribute) and n.func.attr == 'startswith'] if rets else []
    if len(sw) != 1:
        rep.undecided(RULE + '.M8', helper, 'def ' + helper.name, 'startswith test not found')
        return
    whole, prefix = u(sw[0].func.value), u(sw[0].args[0])
    atoms = atoms_of(rets[0].value, True)
    proper = any(x[0] == 'eq' and x[3] is False and {x[1], x[2]} == {a, b} for x in atoms)
    if not proper:
        rep.violates(RULE + '.M8', helper, rets[0], 'the prefix test is not proper (w != v is missing): every word is a prefix of itself, so every word is removed')
        return
    # helper(prefix_param, whole_param): which parameter is the prefix
    pre_i = [a, b].index(prefix) if prefix in (a, b) else None
    # result comprehension
    comps = [n for n in walk_no_nested(f.node) if isinstance(n, (ast.GeneratorExp, ast.SetComp)) and len(n.generators) == 1 and n.generators[0].ifs]
    if not comps or pre_i is None:
        rep.undecided(RULE + '.M8', f, 'def ' + f.name, 'result comprehension not recognised')
        return
    comp = comps[0]
    cand = u(comp.generators[0].target)
    cond = comp.generators[0].ifs[0]
    calls = [n for n in ast.walk(cond) if isinstance(n, ast.Call) and isinstance(n.func, ast.Name) and n.func.id == helper.name]
    if len(calls) != 1:
        rep.undecided(RULE + '.M8', f, comp, 'helper call not found in the filter')
        return
    args = [u(x) for x in calls[0].args]
    cand_is_prefix = args[pre_i] == cand
    # polarity: all(not helper(..)) or not any(helper(..))
    txt = u(cond).replace(' ', '').replace('((', '(')
    neg = txt.startswith('all(not') or txt.startswith('notany(')
    if cand_is_prefix and neg:
        rep.holds(RULE + '.M8', f, comp, '{} is kept iff no word of L has it as a proper prefix (candidate is the prefix argument of startswith)'.format(cand))
    elif not cand_is_prefix:
        rep.violates(RULE + '.M8', f, comp, 'orientation: the candidate {} is tested as the longer word; "not extendable" needs it as the prefix'.format(cand))
    else:
        rep.violates(RULE + '.M8', f, comp, 'polarity: words that can be extended are kept instead of removed')


def check_dfa_sim_column(ctx, rep, f):
    """dfa_simulate_word: after k symbols the recorded unread input is word[k:]"""
    word = f.pos_params[1].arg
    fx = ctx.facts(f)
    apps = [n for n in walk_no_nested(f.node) if isinstance(n, ast.Call) and isinstance(n.func, ast.Attribute) and n.func.attr == 'append'
            and n.args and isinstance(n.args[0], ast.Tuple) and len(n.args[0].elts) == 2]
    loops = [n for n in walk_no_nested(f.node) if isinstance(n, ast.For)]
    if not apps or len(loops) != 1:
        rep.undecided(RULE + '.M8', f, 'def ' + f.name, 'row recording not recognised')
        return
    loop = loops[0]
    for c in apps:
        col = c.args[0].elts[1]
        if not any(x is c for x in ast.walk(loop)):
            continue
        # counter: a name incremented once per iteration, or enumerate index
        try:
            ok = True
            n = 4
            for k in range(1, n + 1):
                env = {'len({})'.format(word): n}
                for nm in names_in(col) - {word}:
                    env[nm] = k
                if isinstance(col, ast.Subscript) and isinstance(col.slice, ast.Slice) and u(col.value) == word:
                    got = abseval.slice_bounds(col, env, n)
                else:
                    raise Unsupported('column is not a slice of the input word')
                want = (k, n) if k < n else (n, n)
                if got != want:
                    ok = False
                    rep.violates(RULE + '.M8', f, c, 'after {} of {} symbols the recorded unread input is word[{}:{}] but must be the suffix word[{}:] (the input shrinks from the front)'.format(k, n, got[0], got[1], k))
                    break
            if ok:
                # the counter must count consumed symbols: incremented before the append, from 0
                rep.holds(RULE + '.M8', f, c, 'the unread-input column is the suffix word[k:] after k symbols (evaluated for |word| = 4)')
        except Unsupported as e:
            rep.undecided(RULE + '.M8', f, c, 'column expression outside the fragment: {}'.format(e))
    # the counter increments exactly once per symbol before the row is recorded
    counters = [n for n in loop.body if (isinstance(n, ast.AugAssign) and isinstance(n.op, ast.Add)) or
                (isinstance(n, ast.Assign) and isinstance(n.value, ast.BinOp) and isinstance(n.value.op, ast.Add) and u(n.targets[0]) in names_in(n.value))]
    if len(counters) == 1:
        rep.holds(RULE + '.M8', f, counters[0], 'consumed-symbol counter advances once per symbol', nontrivial=False)
    elif isinstance(loop.iter, ast.Call) and isinstance(loop.iter.func, ast.Name) and loop.iter.func.id == 'enumerate':
        pass
    else:
        rep.undecided(RULE + '.M8', f, loop, 'consumed-symbol counter not recognised')


def check_backward_word(ctx, rep, f):
    """nfa/pda_simulate_word: walking the history backwards, the unread input is rebuilt by prepending (word = a + word)"""
    loops = [n for n in walk_no_nested(f.node) if isinstance(n, ast.For) and isinstance(n.iter, ast.Call) and isinstance(n.iter.func, ast.Name) and n.iter.func.id == 'reversed']
    if len(loops) != 1:
        rep.undecided(RULE + '.M8', f, 'def ' + f.name, 'backward loop not found')
        return
    loop = loops[0]
    a = u(loop.target)
    acc = [n for n in loop.body if isinstance(n, ast.Assign) and isinstance(n.value, ast.BinOp) and isinstance(n.value.op, ast.Add)
           and u(n.targets[0]) in (u(n.value.left), u(n.value.right)) and a in (u(n.value.left), u(n.value.right))]
    if len(acc) != 1:
        rep.undecided(RULE + '.M8', f, loop, 'word accumulation not found')
        return
    st = acc[0]
    w = u(st.targets[0])
    if u(st.value.left) == a and u(st.value.right) == w:
        rep.holds(RULE + '.M8', f, st, 'walking backwards, the unread input is rebuilt by prepending the symbol (suffixes of the input)')
    else:
        rep.violates(RULE + '.M8', f, st, 'walking the word backwards the unread input must be rebuilt as {} + {} (prepend); found {}'.format(a, w, u(st.value)))
    # initial value is the empty word
    inits = [d for d in single_def(f, w) if isinstance(d, ast.Constant)]
    if inits and inits[0].value == '':
        rep.holds(RULE + '.M8', f, 'word = \'\'', 'the run ends with nothing unread', nontrivial=False)


# ---- generator / checker agreement of the reverse exercise ----------------------------------------------------------------

def check_reverse_agreement(ctx, rep, f_gen, f_chk, rule='R-AGREE.reverse'):
    """the checker of the reverse exercise demands structure, not only the language: the initial state of the answer is
    not a state of the DFA (`answer.q0 in D.Q` -> warning) and its accepting set is {D.q0}.  The generator must meet
    each demand on every path, or the library's own answer is not graded OK.  The demands are read from the checker; a
    demand that the checker no longer makes is not imposed."""
    chk_src = [u(n) for n in walk_no_nested(f_chk.node) if isinstance(n, ast.If)]
    wants_fresh_q0 = any(isinstance(n, ast.If) and isinstance(n.test, ast.Compare) and len(n.test.ops) == 1 and isinstance(n.test.ops[0], ast.In)
                         and u(n.test.left).endswith('.q0') and u(n.test.comparators[0]).endswith('.Q') for n in walk_no_nested(f_chk.node))
    wants_f = any(isinstance(n, ast.If) and isinstance(n.test, ast.Compare) and len(n.test.ops) == 1 and isinstance(n.test.ops[0], ast.NotEq)
                  and u(n.test.left).endswith('.F') and isinstance(n.test.comparators[0], ast.Set) and len(n.test.comparators[0].elts) == 1
                  and u(n.test.comparators[0].elts[0]).endswith('.q0') for n in walk_no_nested(f_chk.node))
    calls = ctor_call(ctx, f_gen, 'NFA')
    if not calls:
        rep.undecided(rule, f_gen, 'def ' + f_gen.name, 'constructor call of the result not found')
        return 0
    p = f_gen.pos_params[0].arg
    n = 0
    for c in calls:
        if wants_fresh_q0:
            q0 = ctor_arg(ctx, c, 'NFA', 'q0')
            defs = single_def(f_gen, q0.id) if isinstance(q0, ast.Name) else [q0]
            bad = [d for d in defs if not (isinstance(d, ast.Call) and (ctx.callee_name(f_gen, d) or '').startswith('fresh') and d.args and u(resolve_alias(f_gen, d.args[0])) == p + '.Q')]
            n += 1
            if defs and not bad:
                rep.holds(rule, f_gen, c, 'the initial state is drawn fresh for {}.Q on every path, as the checker of the exercise demands'.format(p))
            else:
                rep.violates(rule, f_gen, bad[0] if bad else c, 'on some path the initial state of the reversed automaton is `{}`, not a state drawn fresh for {}.Q: the checker of the exercise '
                             '({}: `answer.q0 in D.Q`) answers "a new initial state should be introduced" to the library\'s own answer'.format(u(bad[0]) if bad else '?', p, f_chk.name))
        if wants_f:
            F = ctor_arg(ctx, c, 'NFA', 'F')
            Fr = resolve_alias(f_gen, F) if F is not None else None
            n += 1
            if isinstance(Fr, ast.Set) and len(Fr.elts) == 1 and u(Fr.elts[0]) == p + '.q0':
                rep.holds(rule, f_gen, F, 'the accepting set is {{{}.q0}}, as the checker of the exercise demands'.format(p))
            else:
                rep.violates(rule, f_gen, F if F is not None else c, 'the accepting set of the reversed automaton is `{}`, the checker of the exercise demands exactly {{{}.q0}}'.format(u(Fr) if Fr is not None else '?', p))
    return n



def check_tm_step(ctx, rep, f):
    """M6 -- the single step of a Turing machine, decided on a finite model with the analyser's evaluator: tapes of length
    1..3, every head position, a transition that is present (writing another or the same symbol, moving L or R, to any
    state) or missing.  Expected (Sipser, with the conventions of the property): present -> write, move, new state;
    missing -> rejecting state, symbol kept, move right; a left move at the left end stays put; a move off the right end
    appends one blank; no other cell changes and the transition table is not touched.  The step only indexes the tape and
    compares the head with its ends, so these positions cover every case.  Outside the evaluator's fragment the older
    syntactic version of the rule is used."""
    from ..miniexec import Interp, Obj, Raised
    ps = [p.arg for p in f.pos_params]
    if len(ps) < 4:
        return _check_tm_step_syntactic(ctx, rep, f)
    cases = 0
    bad = None
    try:
        for n in (1, 2, 3):
            for head in range(n):
                for trans in (None, ('q1', 'c', 'L'), ('q1', 'c', 'R'), ('p', 'a', 'L'), ('qa', 'b', 'R'), ('qr', '_', 'L')):
                    tape = ['a', 'b', 'a'][:n]
                    before = list(tape)
                    delta = {}
                    if trans is not None:
                        delta[('p', tape[head])] = trans
                    delta[('other', 'z')] = ('other', 'z', 'R')
                    snapshot = dict(delta)
                    T = Obj('TM', delta=delta, q0='p', q_accept='qa', q_reject='qr', blank='_', Q={'p', 'q1', 'qa', 'qr', 'other'}, Sigma={'a', 'b'}, Gamma={'a', 'b', 'c', 'z', '_'})
                    try:
                        r = Interp(ctx).call(f, [T, 'p', tape, head])
                    except Raised as ex:
                        bad = (n, head, trans, 'raises {}'.format(ex.name))
                        break
                    cases += 1
                    q1, b, d = trans if trans is not None else ('qr', before[head], 'R')
                    want_head = max(head - 1, 0) if d == 'L' else head + 1
                    want_tape = list(before)
                    want_tape[head] = b
                    if want_head == len(want_tape):
                        want_tape.append('_')
                    what = 'the transition {} -> {}'.format(('p', before[head]), trans) if trans is not None else 'no transition for {}'.format(('p', before[head]))
                    if not (isinstance(r, tuple) and len(r) == 2):
                        raise Unsupported('result is not a pair (state, head)')
                    if r[0] != q1:
                        bad = (n, head, trans, 'with {} the new state is {} but must be {}'.format(what, r[0], q1))
                    elif r[1] != want_head:
                        bad = (n, head, trans, 'with {} the head moves from {} to {} but must move to {} (a left move at the left end stays put; a missing transition moves right)'.format(what, head, r[1], want_head))
                    elif tape != want_tape:
                        bad = (n, head, trans, 'with {} the tape {} becomes {} but must become {} (write at the old head position; one blank is appended when the head leaves the right end)'.format(what, before, tape, want_tape))
                    elif delta != snapshot:
                        bad = (n, head, trans, 'the step changes the transition table of the machine (a read of a missing transition inserts it)')
                    if bad:
                        break
                if bad:
                    break
            if bad:
                break
    except Unsupported as e:
        rep.note('{}: finite-model evaluation of the TM step not applicable ({}); syntactic rule used'.format(f.short, e))
        return _check_tm_step_syntactic(ctx, rep, f)
    if bad:
        n, head, trans, msg = bad
        rep.violates(RULE + '.M6', f, 'def ' + f.name, 'TM step on a tape of length {} with the head at {}: {}'.format(n, head, msg))
    else:
        rep.holds(RULE + '.M6', f, 'def ' + f.name, 'the step agrees with the definition on all {} cases of the finite model (tapes of length 1..3, every head position, present / missing transitions, both directions)'.format(cases))


# ---- the alphabet of a construction is the alphabet of its operand(s) ---------------------------------------------------

def check_alphabet_preserved(ctx, rep, funcs, rule='R-ALPHA'):
    """a construction that returns an automaton for its operand(s) hands on the operand's alphabet -- the declared set
    X.Sigma (a copy of it, or the union of the operands' alphabets for a binary construction) -- and does not recompute it
    from the transitions: a symbol that labels no transition is a symbol of the alphabet all the same (the result must be
    total over it, the checkers compare alphabets)."""
    n = 0
    for f in funcs:
        operands = [p.arg for p in f.pos_params if p.annotation is not None and u(p.annotation).split('.')[-1] in ('DFA', 'NFA', 'PDA', 'GNFA')]
        if not operands:
            continue

        def base(x, depth=0):
            x = resolve_alias(f, x) if x is not None else None
            while depth < 6:
                depth += 1
                if isinstance(x, ast.Call) and isinstance(x.func, ast.Attribute) and x.func.attr == 'copy' and not x.args:
                    x = resolve_alias(f, x.func.value)
                elif isinstance(x, ast.Call) and isinstance(x.func, ast.Name) and x.func.id in ('set', 'frozenset') and len(x.args) == 1 and not x.keywords:
                    x = resolve_alias(f, x.args[0])
                else:
                    break
            return x
        for cname in ('DFA', 'NFA', 'GNFA'):
            for c in ctor_call(ctx, f, cname):
                sig = ctor_arg(ctx, c, cname, 'Sigma')
                if sig is None:
                    continue
                b = base(sig)
                terms = []

                def split(e):
                    e = base(e)
                    if isinstance(e, ast.BinOp) and isinstance(e.op, ast.BitOr):
                        split(e.left)
                        split(e.right)
                    elif isinstance(e, ast.Call) and isinstance(e.func, ast.Attribute) and e.func.attr == 'union' and len(e.args) == 1:
                        split(e.func.value)
                        split(e.args[0])
                    else:
                        terms.append(e)
                split(b)
                n += 1
                texts = [u(t) for t in terms]
                want = [o + '.Sigma' for o in operands]
                if all(t in want for t in texts) and texts:
                    rep.holds(rule, f, c, 'the result is built over {} (the declared alphabet of the operand{})'.format(' | '.join(texts), 's' if len(texts) > 1 else ''))
                elif any(isinstance(t, (ast.SetComp, ast.GeneratorExp, ast.ListComp)) and any('delta' in u(g.iter) for g in t.generators) for t in terms):
                    rep.violates(rule, f, c, 'the alphabet of the result is recomputed from the transitions ({}): a declared symbol that labels no transition is lost, so the result is not an automaton over the alphabet of the operand (not total over it; the checker compares the alphabets)'.format(
                        u([t for t in terms if isinstance(t, (ast.SetComp, ast.GeneratorExp, ast.ListComp))][0])[:80]))
                else:
                    rep.undecided(rule, f, c, 'alphabet argument `{}` is not recognised as the alphabet of an operand'.format(u(b)[:60]))
    return n


# ---- order of the rows of a reconstructed run -------------------------------------------------------------------------------

def check_trace_order(ctx, rep, f, rule='R-MODEL.M8'):
    """nfa_simulate_word / pda_simulate_word rebuild the run BACKWARDS (the loop walks the word from its last symbol to its
    first) from chunks: single rows, and epsilon paths, which the path search returns in forward order.  Two ways of
    assembling them are right: prepend every chunk as it is (rows = chunk + rows), or append every chunk REVERSED and
    reverse the whole list once at the end.  Appending a forward path and reversing at the end turns every stretch of two or
    more epsilon moves round; prepending reversed paths does the same; a missing / extra final reversal turns the whole run
    round.  Decided by an order algebra over the list operations; other shapes are UNDECIDED."""
    rets = [r for r in walk_no_nested(f.node) if isinstance(r, ast.Return) and r.value is not None and not (isinstance(r.value, ast.Constant) and r.value.value is None)]
    names = {u(r.value) for r in rets if isinstance(r.value, ast.Name)}
    final_rev_in_return = False
    if not names:
        for r in rets:
            v = r.value
            if isinstance(v, ast.Call) and isinstance(v.func, ast.Name) and v.func.id == 'list' and v.args and isinstance(v.args[0], ast.Call) and u(v.args[0].func) == 'reversed' and isinstance(v.args[0].args[0], ast.Name):
                names.add(v.args[0].args[0].id)
                final_rev_in_return = True
            if isinstance(v, ast.Subscript) and isinstance(v.value, ast.Name) and u(v.slice) == '::-1':
                names.add(v.value.id)
                final_rev_in_return = True
    if len(names) != 1:
        rep.undecided(rule, f, 'def ' + f.name, 'the list that holds the run is not recognised')
        return 0
    R = names.pop()
    loops = [l for l in walk_no_nested(f.node) if isinstance(l, ast.For) and any(isinstance(x, ast.Name) and x.id == R for x in ast.walk(l))]
    backward = [l for l in loops if (isinstance(l.iter, ast.Call) and u(l.iter.func) == 'reversed') or
                (isinstance(l.iter, ast.Call) and u(l.iter.func) == 'range' and len(l.iter.args) == 3 and u(l.iter.args[2]).replace(' ', '') == '-1')]
    if not backward:
        rep.undecided(rule, f, 'def ' + f.name, 'no backward loop over the word that assembles the run')
        return 0

    def path_names():
        out = set()
        for st in walk_no_nested(f.node):
            if isinstance(st, ast.Assign) and len(st.targets) == 1 and isinstance(st.targets[0], ast.Name) and isinstance(st.value, ast.Call) and 'path' in (ctx.callee_name(f, st.value) or ''):
                out.add(st.targets[0].id)
        return out
    paths = path_names()

    def orient(x):
        """'fwd' / 'rev' for a chunk built from an epsilon path, 'one' for a single row, None when not recognised"""
        if isinstance(x, ast.List) and len(x.elts) == 1:
            return 'one'
        if isinstance(x, (ast.ListComp, ast.GeneratorExp)) and len(x.generators) == 1:
            it = x.generators[0].iter
            if isinstance(it, ast.Call) and u(it.func) == 'reversed' and it.args and any(isinstance(n, ast.Name) and n.id in paths for n in ast.walk(it.args[0])):
                return 'rev'
            if isinstance(it, ast.Subscript) and isinstance(it.value, ast.Name) and it.value.id in paths:
                sl = it.slice
                if isinstance(sl, ast.Slice) and sl.step is not None and u(sl.step).replace(' ', '') == '-1':
                    return 'rev'
                return 'fwd'
            if isinstance(it, ast.Name) and it.id in paths:
                return 'fwd'
        return None
    ops = []     # (kind, orientation, stmt): kind in prepend / append / reverse
    for st in walk_no_nested(f.node):
        if isinstance(st, ast.Assign) and len(st.targets) == 1 and u(st.targets[0]) == R and isinstance(st.value, ast.BinOp) and isinstance(st.value.op, ast.Add):
            l, r = st.value.left, st.value.right
            if u(r) == R:
                ops.append(('prepend', orient(l), st))
            elif u(l) == R:
                ops.append(('append', orient(r), st))
        if isinstance(st, ast.Expr) and isinstance(st.value, ast.Call) and isinstance(st.value.func, ast.Attribute) and u(st.value.func.value) == R:
            m = st.value.func.attr
            if m == 'append':
                ops.append(('append', 'one', st))
            elif m == 'extend' and st.value.args:
                ops.append(('append', orient(st.value.args[0]), st))
            elif m == 'insert' and len(st.value.args) == 2 and u(st.value.args[0]) == '0':
                ops.append(('prepend', 'one', st))
            elif m == 'reverse':
                ops.append(('reverse', None, st))
    if not ops:
        rep.undecided(rule, f, 'def ' + f.name, 'no list operations on the run found')
        return 0
    if any(o is None for k, o, s in ops if k != 'reverse'):
        rep.undecided(rule, f, [s for k, o, s in ops if k != 'reverse' and o is None][0], 'a chunk of the run is not recognised as a row or an epsilon path')
        return 1
    kinds = {k for k, o, s in ops if k != 'reverse'}
    nrev = len([1 for k, o, s in ops if k == 'reverse']) + (1 if final_rev_in_return else 0)
    if kinds == {'prepend'}:
        bad = [s for k, o, s in ops if k == 'prepend' and o == 'rev']
        if bad:
            rep.violates(rule, f, bad[0], 'the run is assembled by prepending, but this epsilon path is prepended REVERSED: every stretch of two or more consecutive epsilon moves appears in the wrong order, so the run contains steps that are no moves of the automaton')
        elif nrev % 2 == 1:
            rep.violates(rule, f, [s for k, o, s in ops if k == 'reverse'][0] if nrev else 'def ' + f.name, 'the run is assembled front-first by prepending and then reversed: it is returned backwards (it does not start in the initial configuration)')
        else:
            rep.holds(rule, f, ops[0][2], 'the run is assembled by prepending forward chunks while the word is walked backwards: rows come out in the order of the computation')
    elif kinds == {'append'}:
        bad = [s for k, o, s in ops if k == 'append' and o == 'fwd']
        if bad:
            rep.violates(rule, f, bad[0], 'the run is collected back to front and reversed at the end, but this epsilon path is appended in FORWARD order: after the final reversal every stretch of two or more consecutive epsilon moves is the wrong way round, so the run contains steps that are no moves of the automaton (and need not start in the initial configuration)')
        elif nrev % 2 == 0:
            rep.violates(rule, f, ops[-1][2], 'the run is collected back to front (appending while the word is walked backwards) but never reversed: it is returned backwards')
        else:
            rep.holds(rule, f, ops[0][2], 'the run is collected back to front with every epsilon path reversed, and reversed once at the end')
    else:
        rep.undecided(rule, f, ops[0][2], 'the run is assembled by a mixture of prepending and appending')
    return 1
