"""R-INJ -- an encoding that carries the IDENTITY of a value is injective on the components of that value.

Sites (all discovered from the tree, none frozen):
  (a) naming functions of constructions: a function that returns ``State(<encoding of its parameters>)`` (the subset
      construction, the minimisers, the product) -- two different parameter values must get two different names;
  (b) ``__eq__`` methods of library classes: every field that ``__init__`` stores from a parameter takes part in the
      comparison, and a comparison through a printed form needs that printed form to be injective;
  (c) look-up keys: a dict subscript / membership test whose key contains ``str(x)`` / ``repr(x)`` of a library object
      and whose hit short-circuits a computation.

The encoder algebra (what is accepted as injective, on the stated assumption that a literal separator does not occur in
the components -- the label regular expressions of the text formats exclude ',', '(', ')' from plain state names):
  component itself | constructor wrapper (State, Variable, str of a string) | '<fmt>'.format(e1..en) with a non-empty
  literal between consecutive fields | '<sep>'.join(sorted(set)) / join over a generator of injective element encodings
  with a NON-EMPTY separator | a call of a function whose every return is such an encoding.
Shown NOT injective: ''.join(seq) (empty separator: ['a','b'] and ['ab'] collide), a lossy string operation on a
component (strip, lower, replace, slicing, ...), adjacent format fields without separator, sorted() of a sequence (order
lost), a class hierarchy where one leaf prints a constant and a sibling leaf prints an unconstrained string field.
Anything else is UNDECIDED.
"""
import ast
import re

from ..astutil import u, walk_no_nested

RULE = 'R-INJ'
LOSSY_METHODS = {'strip', 'lstrip', 'rstrip', 'lower', 'upper', 'casefold', 'title', 'capitalize', 'replace', 'swapcase',
                 'translate', 'removeprefix', 'removesuffix', 'split', 'rsplit', 'partition', 'rpartition', 'splitlines',
                 'expandtabs', 'zfill', 'center', 'ljust', 'rjust'}
WRAPPERS = {'State', 'Variable', 'Terminal', 'Symbol', 'str', 'tuple', 'frozenset', 'list'}

INJ, NOT, UNK, CONST = 'inj', 'not', 'unknown', 'const'


class Enc:
    def __init__(self, kind, covered=(), reason=''):
        self.kind = kind
        self.covered = frozenset(covered)
        self.reason = reason

    def __repr__(self):
        return 'Enc({}, {}, {})'.format(self.kind, sorted(self.covered), self.reason)


def _combine(parts):
    """parts encoded side by side WITH separators between them"""
    cov = set()
    for p in parts:
        if p.kind == NOT:
            return p
    for p in parts:
        if p.kind == UNK:
            return p
    for p in parts:
        cov |= p.covered
    if all(p.kind == CONST for p in parts):
        return Enc(CONST)
    return Enc(INJ, cov)


def _format_fields(fmt):
    """[(literal before field, field spec)] + trailing literal; None when the string is not a plain {}-format"""
    import string
    try:
        items = list(string.Formatter().parse(fmt))
    except ValueError:
        return None
    return items


class Encoder:
    def __init__(self, ctx, f, components, depth=0):
        self.ctx = ctx
        self.f = f
        self.components = dict(components)      # name (or 'self.x') -> component id
        self.depth = depth
        self.local_defs = {}
        if f is not None:
            for n in walk_no_nested(f.node):
                if isinstance(n, ast.Assign) and len(n.targets) == 1 and isinstance(n.targets[0], ast.Name):
                    self.local_defs.setdefault(n.targets[0].id, []).append(n.value)

    def comp_of(self, e):
        k = u(e)
        if k in self.components:
            return self.components[k]
        return None

    def enc(self, e, elem_env=None):
        elem_env = elem_env or {}
        c = self.comp_of(e)
        if c is not None:
            return Enc(INJ, [c])
        if isinstance(e, ast.Name) and e.id in elem_env:
            return elem_env[e.id]
        if isinstance(e, ast.Constant):
            return Enc(CONST)
        if isinstance(e, ast.Name):
            defs = self.local_defs.get(e.id)
            if defs and len(defs) == 1 and self.depth < 6:
                sub = Encoder(self.ctx, self.f, self.components, self.depth + 1)
                sub.local_defs = {k: v for k, v in self.local_defs.items() if k != e.id}
                return sub.enc(defs[0], elem_env)
            return Enc(UNK, reason='value of {} not tracked'.format(e.id))
        if isinstance(e, ast.Tuple):
            return _combine([self.enc(x, elem_env) for x in e.elts])
        if isinstance(e, ast.JoinedStr):
            parts = []
            prev_field = False
            for v in e.values:
                if isinstance(v, ast.Constant):
                    if v.value:
                        prev_field = False
                    continue
                en = self.enc(v.value, elem_env)
                if en.kind == CONST:
                    prev_field = False
                    continue
                if prev_field:
                    return Enc(NOT, reason='two adjacent fields of the f-string {} have no separator between them'.format(u(e)))
                parts.append(en)
                prev_field = True
            return _combine(parts) if parts else Enc(CONST)
        if isinstance(e, ast.BinOp) and isinstance(e.op, ast.Add):
            flat = []

            def fl(x):
                if isinstance(x, ast.BinOp) and isinstance(x.op, ast.Add):
                    fl(x.left)
                    fl(x.right)
                else:
                    flat.append(x)
            fl(e)
            encs = [self.enc(x, elem_env) for x in flat]
            prev_var = False
            for x, en in zip(flat, encs):
                is_const = en.kind == CONST
                if not is_const and prev_var:
                    return Enc(NOT, reason='two variable parts of the concatenation {} are adjacent without a separator'.format(u(e)))
                prev_var = not is_const
            return _combine(encs)
        if isinstance(e, ast.Subscript):
            base = self.enc(e.value, elem_env)
            if base.kind == INJ:
                return Enc(NOT, reason='{} keeps only a part of {}'.format(u(e), u(e.value)))
            return Enc(UNK, reason='subscript {}'.format(u(e)))
        if isinstance(e, ast.Call):
            fn = e.func
            # '<fmt>'.format(...)
            if isinstance(fn, ast.Attribute) and fn.attr == 'format' and isinstance(fn.value, ast.Constant) and isinstance(fn.value.value, str):
                items = _format_fields(fn.value.value)
                if items is None:
                    return Enc(UNK, reason='format string not understood')
                parts = []
                auto = 0
                prev_field = False
                for lit, field, spec, conv in items:
                    if lit and prev_field and field is not None and re.fullmatch(r'\w+', lit):
                        # the literal between two variable parts consists of characters that names are made of (states,
                        # variables and symbols of the text formats are \w+): q_1 + '_' + 2 and q + '_' + 1_2 collide
                        return Enc(NOT, reason="the separator {!r} between two fields of {!r} consists of characters that occur in names themselves (names are \\w+): different pairs of names can give the same text".format(lit, fn.value.value))
                    if lit:
                        prev_field = False
                    if field is None:
                        continue
                    if field == '':
                        idx = auto
                        auto += 1
                        arg = e.args[idx] if idx < len(e.args) else None
                    else:
                        try:
                            idx = int(field.split('.')[0].split('[')[0])
                            arg = e.args[idx] if idx < len(e.args) else None
                        except ValueError:
                            kw = [k for k in e.keywords if k.arg == field]
                            arg = kw[0].value if kw else None
                    if arg is None:
                        return Enc(UNK, reason='format field {!r} not resolved'.format(field))
                    en = self.enc(arg, elem_env)
                    if en.kind == CONST:
                        prev_field = False
                        continue
                    if prev_field:
                        return Enc(NOT, reason='two adjacent fields of the format string {!r} have no separator between them: the parts cannot be told apart'.format(fn.value.value))
                    parts.append(en)
                    prev_field = True
                return _combine(parts) if parts else Enc(CONST)
            # '<sep>'.join(X)
            if isinstance(fn, ast.Attribute) and fn.attr == 'join' and isinstance(fn.value, ast.Constant) and isinstance(fn.value.value, str) and len(e.args) == 1:
                inner = self.enc_collection(e.args[0], elem_env)
                if inner.kind == INJ and fn.value.value == '':
                    return Enc(NOT, reason="''.join({}) glues the elements together without a separator: the sequences ['a','b'] and ['ab'] get the same text".format(u(e.args[0])))
                return inner
            # lossy string methods on something that carries a component
            if isinstance(fn, ast.Attribute) and fn.attr in LOSSY_METHODS:
                base = self.enc(fn.value, elem_env)
                if base.kind in (INJ, NOT):
                    return Enc(NOT, reason='{}(...) is applied to {}: different values get the same text'.format(fn.attr, u(fn.value)))
                return base
            name = fn.id if isinstance(fn, ast.Name) else None
            if name in WRAPPERS and len(e.args) == 1 and not e.keywords:
                a = e.args[0]
                if name == 'str':
                    return self.enc_str_of(a, elem_env)
                return self.enc(a, elem_env)
            if name in ('sorted', 'set', 'frozenset', 'list', 'tuple', 'reversed') and e.args:
                return self.enc_collection(e, elem_env)
            if name in ('repr',) and len(e.args) == 1:
                return self.enc_str_of(e.args[0], elem_env)
            if name == 'hash' or name == 'id' or name == 'len':
                inner = self.enc(e.args[0], elem_env) if e.args else Enc(CONST)
                if inner.kind in (INJ, NOT):
                    return Enc(NOT, reason='{}() of {} does not determine the value'.format(name, u(e.args[0])))
                return inner
            # a repository function: every return must encode its parameters injectively
            r = self.ctx.resolve_call(self.f, e) if self.f is not None else None
            if r is not None and r.kind == 'func' and self.depth < 6:
                g = r.target
                params = [p.arg for p in g.pos_params]
                if params and params[0] == 'self':
                    params = params[1:]
                arg_enc = {}
                for p, a in zip(params, e.args):
                    arg_enc[p] = self.enc(a, elem_env)
                for k in e.keywords:
                    if k.arg in params:
                        arg_enc[k.arg] = self.enc(k.value, elem_env)
                sub = Encoder(self.ctx, g, {}, self.depth + 1)
                rets = [s.value for s in walk_no_nested(g.node) if isinstance(s, ast.Return) and s.value is not None]
                if not rets:
                    return Enc(UNK, reason='{} returns nothing'.format(g.name))
                outs = [sub.enc(x, dict(arg_enc)) for x in rets]
                for o in outs:
                    if o.kind == NOT:
                        return Enc(NOT, reason='{}: {}'.format(g.name, o.reason))
                for o in outs:
                    if o.kind == UNK:
                        return Enc(UNK, reason='{}: {}'.format(g.name, o.reason))
                inj = [o for o in outs if o.kind == INJ]
                if not inj:
                    return Enc(CONST)
                cov = set(inj[0].covered)
                for o in inj[1:]:
                    cov &= o.covered
                return Enc(INJ, cov)
            return Enc(UNK, reason='call {} not understood'.format(u(fn)))
        if isinstance(e, ast.Attribute):
            base = self.enc(e.value, elem_env)
            if base.kind == INJ:
                return Enc(NOT, reason='{} uses only the attribute {} of {}'.format(u(e), e.attr, u(e.value)))
            return Enc(UNK, reason='attribute {}'.format(u(e)))
        if isinstance(e, ast.IfExp):
            a, b = self.enc(e.body, elem_env), self.enc(e.orelse, elem_env)
            return _combine([a, b])
        return Enc(UNK, reason='expression {} not understood'.format(u(e)))

    def enc_str_of(self, a, elem_env):
        """str(a): injective when a is a string-like component; for a library object the class printer is analysed"""
        t = None
        if self.f is not None:
            try:
                t = self.ctx.env(self.f).type_of(a)
            except Exception:
                t = None
        cls = _class_of_type(self.ctx, t)
        if cls is None and isinstance(a, ast.Name) and a.id == 'self' and self.f is not None and self.f.cls is not None:
            cls = self.f.cls
        if cls is None and isinstance(a, ast.Name) and a.id == 'other' and self.f is not None and self.f.cls is not None:
            cls = self.f.cls
        inner = self.enc(a, elem_env)
        if cls is None:
            return inner
        ok, reason = class_printer_injective(self.ctx, cls)
        if ok is False:
            return Enc(NOT, reason='str({}) of a {}: {}'.format(u(a), cls.name, reason))
        if ok is None:
            return Enc(UNK, reason='str({}) of a {}: {}'.format(u(a), cls.name, reason))
        return inner if inner.kind == INJ else Enc(INJ, ['<{}>'.format(u(a))])

    def enc_collection(self, e, elem_env):
        """encoding of a collection argument of join(): sorted(set) / generator / comprehension / plain name"""
        if isinstance(e, ast.Call) and isinstance(e.func, ast.Name) and e.func.id in ('sorted', 'list', 'tuple', 'set', 'frozenset', 'reversed') and e.args:
            inner = self.enc_collection(e.args[0], elem_env)
            if e.func.id == 'sorted' and inner.kind == INJ and self.f is not None:
                t = None
                try:
                    t = self.ctx.env(self.f).type_of(e.args[0])
                except Exception:
                    t = None
                from ..types import is_kind
                if t is not None and is_kind(t, 'list', 'tuple', 'str'):
                    return Enc(NOT, reason='sorted({}) forgets the order of a sequence'.format(u(e.args[0])))
            return inner
        if isinstance(e, ast.Call) and isinstance(e.func, ast.Name) and e.func.id == 'map' and len(e.args) == 2 and isinstance(e.args[0], ast.Name) and e.args[0].id in ('str', 'repr'):
            src = self.enc_collection(e.args[1], elem_env)
            if src.kind != INJ:
                return src
            cls = None
            if self.f is not None:
                from ..types import elem_type
                try:
                    cls = _class_of_type(self.ctx, elem_type(self.ctx.env(self.f).type_of(e.args[1])))
                except Exception:
                    cls = None
            if cls is None:
                return src
            ok, reason = class_printer_injective(self.ctx, cls)
            if ok is False:
                return Enc(NOT, reason='the elements of {} are identified by their printed form: {}'.format(u(e.args[1]), reason))
            if ok is None:
                return Enc(UNK, reason='printed form of a {}: {}'.format(cls.name, reason))
            return src
        if isinstance(e, (ast.GeneratorExp, ast.ListComp, ast.SetComp)):
            if len(e.generators) != 1:
                return Enc(UNK, reason='nested comprehension')
            g = e.generators[0]
            src = self.enc_collection(g.iter, elem_env)
            if g.ifs and src.kind == INJ:
                return Enc(NOT, reason='the comprehension {} filters elements away'.format(u(e)))
            env2 = dict(elem_env)
            if isinstance(g.target, ast.Name):
                env2[g.target.id] = src
            out = self.enc(e.elt, env2)
            return out
        return self.enc(e, elem_env)


def _class_of_type(ctx, t):
    from ..types import members
    cs = [m for m in members(t) if m[0] == 'cls']
    if len(cs) != 1 or len(members(t)) != 1:
        return None
    return ctx.prog.classes.get(cs[0][1])


_printer_cache = {}


def _subclasses(ctx, cls):
    out = []
    for c in ctx.prog.classes.values():
        if c is cls:
            continue
        for b in c.node.bases:
            if u(b).split('.')[-1] == cls.name and c.module is cls.module:
                out.append(c)
                out.extend(_subclasses(ctx, c))
    return out


def _init_fields(cls, required_only=False):
    """fields stored by __init__ from a (required) parameter: {field: value text}"""
    init = cls.methods.get('__init__')
    out = {}
    if init is None:
        return out
    params = {p for p in init.params if p != 'self' and (not required_only or p not in init.defaults)}
    for n in walk_no_nested(init.node):
        if isinstance(n, (ast.Assign, ast.AnnAssign)):
            targets = n.targets if isinstance(n, ast.Assign) else [n.target]
            val = n.value
            for t in targets:
                if isinstance(t, ast.Attribute) and isinstance(t.value, ast.Name) and t.value.id == 'self' and val is not None:
                    if any(isinstance(x, ast.Name) and x.id in params for x in ast.walk(val)):
                        out[t.attr] = u(val)
    return out


def class_printer_injective(ctx, cls):
    """(True|False|None, reason) for the __str__ of cls and of its subclasses"""
    key = cls.qualname if hasattr(cls, 'qualname') else (cls.module.name, cls.name)
    if key in _printer_cache:
        return _printer_cache[key]
    _printer_cache[key] = (None, 'recursive printer')
    family = [cls] + _subclasses(ctx, cls)
    consts, free = [], []
    verdict = (True, '')
    for c in family:
        pr = c.methods.get('__str__') or c.methods.get('__repr__')
        if pr is None:
            if c is cls and len(family) > 1:
                continue
            verdict = (None, '{} has no __str__'.format(c.name)) if verdict[0] is True else verdict
            continue
        rets = [s.value for s in walk_no_nested(pr.node) if isinstance(s, ast.Return) and s.value is not None]
        fields = _init_fields(c)
        for r in rets:
            if isinstance(r, ast.Constant) and isinstance(r.value, str):
                consts.append((c, r.value))
                continue
            if isinstance(r, ast.Attribute) and isinstance(r.value, ast.Name) and r.value.id == 'self' and r.attr in fields:
                free.append((c, r.attr))
                continue
            comps = {'self.' + fld: fld for fld in fields}
            en = Encoder(ctx, pr, comps).enc(r)
            if en.kind == NOT:
                verdict = (False, '{}.__str__: {}'.format(c.name, en.reason))
            elif en.kind == UNK and verdict[0] is True:
                verdict = (None, '{}.__str__: {}'.format(c.name, en.reason))
            elif en.kind == INJ and verdict[0] is True:
                missing = set(fields) - set(en.covered)
                if missing:
                    verdict = (False, '{}.__str__ does not show the field(s) {}'.format(c.name, ', '.join(sorted(missing))))
    if consts and free and verdict[0] is not False:
        (c1, v), (c2, fld) = consts[0], free[0]
        verdict = (False, "a {} prints as the constant '{}' and a {} prints as its unconstrained field {}: {}() and {}('{}') have the same text".format(
            c1.name, v, c2.name, fld, c1.name, c2.name, v))
    _printer_cache[key] = verdict
    return verdict


# ------------------------------------------------------------------------------------------------------------------- sites

def naming_functions(ctx, funcs):
    """(function, return expression) for functions among funcs (and their nested helpers) returning State(<composite>)"""
    out = []
    seen = set()
    for f in funcs:
        stack = [f]
        while stack:
            g = stack.pop()
            stack.extend(g.nested.values())
            if g.qualname in seen:
                continue
            seen.add(g.qualname)
            params = [p for p in g.params if p != 'self']
            if not params:
                continue
            for s in walk_no_nested(g.node):
                if isinstance(s, ast.Return) and isinstance(s.value, ast.Call) and isinstance(s.value.func, ast.Name) and s.value.func.id in ('State', 'Variable') and len(s.value.args) == 1:
                    a = s.value.args[0]
                    if isinstance(a, (ast.Call, ast.JoinedStr, ast.BinOp)):
                        out.append((g, s.value))
    return out


def check_naming(ctx, rep, funcs, rule=RULE + '.name'):
    n = 0
    for g, e in naming_functions(ctx, funcs):
        params = [p for p in g.params if p != 'self']
        # only parameters that the encoding mentions at all are components (a hint parameter may be unused)
        comps = {p: p for p in params}
        en = Encoder(ctx, g, comps).enc(e.args[0])
        # only encodings OF STATES are names of composite states; a generator of fresh names (hint + counter) is judged by
        # R-FRESH, its text need not determine hint and counter
        ann = {p.arg: (u(p.annotation) if p.annotation is not None else None) for p in g.pos_params}
        mentioned = {x.id for x in ast.walk(e.args[0]) if isinstance(x, ast.Name)} & set(params)
        if mentioned and all(ann.get(p) is not None and 'State' not in ann[p] for p in mentioned):
            continue
        if not mentioned:
            continue
        n += 1
        if en.kind == NOT:
            rep.violates(rule, g, e, 'the name of a composite state must identify it, but {}: two different composite states get the same name and are merged'.format(en.reason))
        elif en.kind == UNK:
            rep.undecided(rule, g, e, 'encoding not understood: {}'.format(en.reason))
        else:
            missing = [p for p in params if p not in en.covered and any(isinstance(x, ast.Name) and x.id == p for x in ast.walk(g.node) if x is not None)]
            used_missing = [p for p in missing if any(isinstance(x, ast.Name) and x.id == p for s in walk_no_nested(g.node) for x in ast.walk(s))]
            if en.kind == CONST:
                rep.violates(rule, g, e, 'the name does not depend on the composite state at all')
            elif used_missing and False:
                rep.violates(rule, g, e, 'the name ignores {}'.format(', '.join(used_missing)))
            else:
                rep.holds(rule, g, e, 'the name is an injective encoding of {} (separators between the parts, no lossy operation)'.format(', '.join(sorted(en.covered))))
    return n


def check_eq_methods(ctx, rep, classes, rule=RULE + '.eq'):
    """every field stored from an __init__ parameter takes part in __eq__; comparisons through printed forms need
    injective printers"""
    n = 0
    for cls in classes:
        eq = cls.methods.get('__eq__')
        if eq is None:
            continue
        fields = _init_fields(cls, required_only=True)
        rets = [s.value for s in walk_no_nested(eq.node) if isinstance(s, ast.Return) and s.value is not None]
        if len(rets) != 1:
            rep.undecided(rule, eq, 'def __eq__', 'more than one return')
            continue
        n += 1
        r = rets[0]
        conj = r.values if isinstance(r, ast.BoolOp) and isinstance(r.op, ast.And) else [r]
        covered = set()
        bad = None
        for c in conj:
            if not (isinstance(c, ast.Compare) and len(c.ops) == 1 and isinstance(c.ops[0], ast.Eq)):
                bad = Enc(UNK, reason='conjunct {} is not an equality'.format(u(c)))
                break
            a, b = c.left, c.comparators[0]
            # mirror: b is a with self -> other
            if u(a).replace('self', 'other') != u(b) and u(b).replace('self', 'other') != u(a):
                bad = Enc(UNK, reason='{} does not compare the same thing on both sides'.format(u(c)))
                break
            side = a if 'self' in u(a) else b
            comps = {'self.' + fld: fld for fld in fields}
            comps['self'] = '*'
            en = Encoder(ctx, eq, comps).enc(side)
            if isinstance(side, ast.Call) and isinstance(side.func, ast.Name) and side.func.id in ('str', 'repr') and u(side.args[0]) == 'self':
                ok, reason = class_printer_injective(ctx, cls)
                if ok is False:
                    bad = Enc(NOT, reason=reason)
                    break
                if ok is None:
                    bad = Enc(UNK, reason=reason)
                    break
                covered |= set(fields)
                continue
            if en.kind == NOT:
                bad = en
                break
            if en.kind == UNK:
                bad = en
                break
            covered |= set(fields) if '*' in en.covered else set(en.covered)
        if bad is not None and bad.kind == NOT:
            rep.violates(rule, eq, r, '{}.__eq__ identifies objects through an encoding that is not injective: {} -- two different objects compare equal, so sets and dictionaries of them lose elements'.format(cls.name, bad.reason))
        elif bad is not None:
            rep.undecided(rule, eq, r, bad.reason)
        else:
            missing = sorted(set(fields) - covered)
            if missing:
                rep.violates(rule, eq, r, '{}.__eq__ ignores the field(s) {}: objects that differ there compare equal'.format(cls.name, ', '.join(missing)))
            else:
                rep.holds(rule, eq, r, '__eq__ compares every stored field ({}) directly'.format(', '.join(sorted(fields))))
    return n


def check_lookup_keys(ctx, rep, funcs, rule=RULE + '.key'):
    """a dict key / membership key that contains str(x) or repr(x) of a library object whose printer is not injective"""
    n = 0
    for f in funcs:
        keys = []
        for s in walk_no_nested(f.node):
            if isinstance(s, ast.Subscript):
                keys.append((s.slice, s))
            if isinstance(s, ast.Compare) and len(s.ops) == 1 and isinstance(s.ops[0], (ast.In, ast.NotIn)):
                keys.append((s.left, s))
            if isinstance(s, ast.Call) and isinstance(s.func, ast.Attribute) and s.func.attr in ('get', 'setdefault', 'add') and s.args:
                keys.append((s.args[0], s))
        seen = set()
        enc = Encoder(ctx, f, {})
        for k, site in keys:
            exprs = [k]
            if isinstance(k, ast.Name) and k.id in enc.local_defs and len(enc.local_defs[k.id]) == 1:
                exprs = [enc.local_defs[k.id][0]]
            for e in exprs:
                for c in ast.walk(e):
                    if isinstance(c, ast.Call) and isinstance(c.func, ast.Name) and c.func.id in ('str', 'repr') and len(c.args) == 1:
                        a = c.args[0]
                        try:
                            t = ctx.env(f).type_of(a)
                        except Exception:
                            t = None
                        cls = _class_of_type(ctx, t)
                        if cls is None:
                            continue
                        sig = (u(c), cls.name)
                        if sig in seen:
                            continue
                        seen.add(sig)
                        n += 1
                        ok, reason = class_printer_injective(ctx, cls)
                        if ok is False:
                            rep.violates(rule, f, site, 'the look-up key {} identifies a {} by its printed form, which is not injective: {} -- the entry of one object is returned for another'.format(u(e), cls.name, reason))
                        elif ok is None:
                            rep.undecided(rule, f, site, 'look-up key through the printed form of a {}: {}'.format(cls.name, reason))
                        else:
                            rep.holds(rule, f, site, 'the printed form of a {} is injective'.format(cls.name))
    return n


def check_input_unmodified(ctx, rep, funcs, rule=RULE + '.word'):
    """the input word of an acceptance / simulation / derivation function is consumed as given: it is indexed, sliced,
    iterated or passed on, never put through a lossy string operation (strip, lower, replace, ...)"""
    n = 0
    for f in funcs:
        wparams = []
        for p in f.pos_params:
            if p.arg in ('word', 'w') and (p.annotation is None or u(p.annotation) == 'str'):
                wparams.append(p.arg)
        if not wparams:
            continue
        for wp in wparams:
            aliases = {wp}
            for s in walk_no_nested(f.node):
                if isinstance(s, ast.Assign) and len(s.targets) == 1 and isinstance(s.targets[0], ast.Name) and isinstance(s.value, ast.Name) and s.value.id in aliases:
                    aliases.add(s.targets[0].id)
            bad = None
            for s in walk_no_nested(f.node):
                if isinstance(s, ast.Call) and isinstance(s.func, ast.Attribute) and s.func.attr in LOSSY_METHODS and isinstance(s.func.value, ast.Name) and s.func.value.id in aliases:
                    bad = s
                    break
            n += 1
            if bad is not None:
                rep.violates(rule, f, bad, 'the input word is changed by {}() before it is consumed: characters of the word that belong to the alphabet are dropped or replaced, so the verdict is about a different word'.format(bad.func.attr))
            else:
                rep.holds(rule, f, 'parameter ' + wp, 'the input word is consumed as given (indexed, sliced, iterated or passed on only)', nontrivial=False)
    return n


def check_scope(ctx, rep, scope):
    """all R-INJ sites inside a set of functions (the call-graph closure of a property's operations)"""
    funcs = []
    for f in scope.values():
        stack = [f]
        while stack:
            g = stack.pop()
            funcs.append(g)
            stack.extend(g.nested.values())
    tops = list(scope.values())
    n = check_naming(ctx, rep, tops)
    # classes constructed or compared inside the scope
    classes = {}
    for g in funcs:
        if g.cls is not None and g.cls.methods.get('__eq__') is not None:
            classes[g.cls.qualname] = g.cls
        for c in ctx.prog.calls_in(g):
            r = ctx.resolve_call(g, c)
            if r is not None and r.kind == 'class' and r.target.methods.get('__eq__') is not None:
                classes[r.target.qualname] = r.target
            elif r is not None and r.kind == 'func' and r.target.cls is not None and r.target.name == '__init__' and r.target.cls.methods.get('__eq__') is not None:
                classes[r.target.cls.qualname] = r.target.cls
    n += check_eq_methods(ctx, rep, [classes[k] for k in sorted(classes)])
    n += check_lookup_keys(ctx, rep, funcs)
    n += check_input_unmodified(ctx, rep, funcs)
    n += check_index_by_value(ctx, rep, funcs)
    n += check_subsets_by_value(ctx, rep, funcs)
    n += check_memo_keys(ctx, rep, funcs)
    n += check_dedupe_keys(ctx, rep, funcs)
    return n


def check_index_by_value(ctx, rep, funcs, rule=RULE + '.index'):
    """``seq.index(x)`` for the loop variable x of a loop over the same seq yields the FIRST position of an equal
    element: when the sequence may hold an element twice (a word, a right-hand side of a rule, a trace) the positions of
    the later occurrences are never produced."""
    from ..types import is_kind
    n = 0
    for f in funcs:
        loops = []
        for s in walk_no_nested(f.node):
            if isinstance(s, ast.For) and isinstance(s.target, ast.Name) and isinstance(s.iter, ast.Name):
                loops.append((s.target.id, s.iter.id, s))
            if isinstance(s, (ast.ListComp, ast.SetComp, ast.GeneratorExp, ast.DictComp)):
                for g in s.generators:
                    if isinstance(g.target, ast.Name) and isinstance(g.iter, ast.Name):
                        loops.append((g.target.id, g.iter.id, s))
        if not loops:
            continue
        for (var, seq, scope_node) in loops:
            for c in ast.walk(scope_node):
                if isinstance(c, ast.Call) and isinstance(c.func, ast.Attribute) and c.func.attr == 'index' and isinstance(c.func.value, ast.Name) and c.func.value.id == seq \
                        and len(c.args) == 1 and isinstance(c.args[0], ast.Name) and c.args[0].id == var:
                    try:
                        t = ctx.env(f).type_of(c.func.value)
                    except Exception:
                        t = None
                    if t is None or not is_kind(t, 'list', 'tuple', 'str'):
                        continue
                    # a local list made from a set has no duplicates
                    defs = [st.value for st in walk_no_nested(f.node) if isinstance(st, ast.Assign) and len(st.targets) == 1 and isinstance(st.targets[0], ast.Name) and st.targets[0].id == seq]
                    from_set = False
                    for d in defs:
                        if isinstance(d, ast.Call) and isinstance(d.func, ast.Name) and d.func.id in ('sorted', 'list', 'tuple') and d.args:
                            try:
                                td = ctx.env(f).type_of(d.args[0])
                            except Exception:
                                td = None
                            if td is not None and is_kind(td, 'set', 'frozenset', 'dict'):
                                from_set = True
                    if defs and from_set:
                        continue
                    n += 1
                    rep.violates(rule, f, c, '{0}.index({1}) inside the loop over {0}: for an element that occurs twice in {0} this is the position of its FIRST occurrence both times, so the later positions are never visited (e.g. the second A in the right-hand side A S A)'.format(seq, var))
    return n


def check_subsets_by_value(ctx, rep, funcs, rule=RULE + '.index'):
    """occurrences chosen by value: the sub-collections of the elements of a sequence x are enumerated
    (itertools.combinations / permutations over elements drawn from x) and one of them then filters x itself with
    `in` / `not in`.  Two equal elements of x cannot be told apart by such a filter: both stay or both go, so the
    selections that treat the occurrences differently are never produced (e.g. dropping only one A of the right-hand side
    A A).  Choosing positions (indices, or recursion on the tail) does not have this defect.  Pattern rule: no floor."""
    from ..types import is_kind
    n = 0
    for f in funcs:
        for lp in walk_no_nested(f.node):
            gens = []
            if isinstance(lp, ast.For):
                gens.append((lp.target, lp.iter, lp))
            if isinstance(lp, (ast.ListComp, ast.SetComp, ast.GeneratorExp, ast.DictComp)):
                gens += [(g.target, g.iter, lp) for g in lp.generators]
            for (tg, it, node) in gens:
                if not (isinstance(tg, ast.Name) and isinstance(it, ast.Call) and u(it.func).split('.')[-1] in ('combinations', 'permutations', 'combinations_with_replacement') and it.args):
                    continue
                pool = it.args[0]
                # the sequence the pool was drawn from:  pool = [s for s in x if ...]  /  x itself
                src = None
                pr = pool
                if isinstance(pr, ast.Name):
                    defs = [st.value for st in walk_no_nested(f.node) if isinstance(st, ast.Assign) and len(st.targets) == 1 and isinstance(st.targets[0], ast.Name) and st.targets[0].id == pr.id]
                    if len(defs) == 1:
                        pr = defs[0]
                if isinstance(pr, (ast.ListComp, ast.GeneratorExp)) and len(pr.generators) == 1 and isinstance(pr.generators[0].iter, ast.Name) and u(pr.elt) == u(pr.generators[0].target):
                    src = pr.generators[0].iter.id
                elif isinstance(pr, ast.Name):
                    src = pr.id
                if src is None:
                    continue
                try:
                    t = ctx.env(f).type_of(ast.Name(id=src, ctx=ast.Load()))
                except Exception:
                    t = None
                if t is not None and is_kind(t, 'set', 'frozenset', 'dict'):
                    continue
                for c in ast.walk(node):
                    if isinstance(c, (ast.ListComp, ast.GeneratorExp, ast.SetComp)) and len(c.generators) == 1 and isinstance(c.generators[0].iter, ast.Name) and c.generators[0].iter.id == src:
                        g = c.generators[0]
                        for cond in g.ifs:
                            for x in ast.walk(cond):
                                if isinstance(x, ast.Compare) and len(x.ops) == 1 and isinstance(x.ops[0], (ast.In, ast.NotIn)) and u(x.left) == u(g.target) and u(x.comparators[0]) == tg.id:
                                    n += 1
                                    rep.violates(rule, f, c, 'the sub-collections `{}` of the elements of `{}` are enumerated by value and then used to filter `{}` itself (`{}`): equal elements of the sequence are kept or dropped '
                                                 'together, so the selections that treat two occurrences differently are never produced (e.g. only one A of the right-hand side A A)'.format(tg.id, src, src, u(x)))
    return n


def _param_deps(f, expr, extra_stop=()):
    """parameters of f (and of its enclosing functions) that the expression depends on through local assignments"""
    params = set()
    g = f
    while g is not None:
        params |= set(g.params)
        g = g.parent
    defs = {}
    for st in walk_no_nested(f.node):
        if isinstance(st, (ast.Assign, ast.AnnAssign)) and getattr(st, 'value', None) is not None:
            tgts = st.targets if isinstance(st, ast.Assign) else [st.target]
            for t in tgts:
                for x in ast.walk(t):
                    if isinstance(x, ast.Name) and isinstance(x.ctx, ast.Store):
                        defs.setdefault(x.id, []).append(st.value)
        elif isinstance(st, ast.For):
            for x in ast.walk(st.target):
                if isinstance(x, ast.Name):
                    defs.setdefault(x.id, []).append(st.iter)
    seen, out = set(), set()
    work = [n.id for n in ast.walk(expr) if isinstance(n, ast.Name)]
    while work:
        n = work.pop()
        if n in seen or n in extra_stop:
            continue
        seen.add(n)
        if n in params and n not in defs:
            out.add(n)
            continue
        if n in params:
            out.add(n)
        for d in defs.get(n, []):
            work += [x.id for x in ast.walk(d) if isinstance(x, ast.Name)]
    return out


def check_memo_keys(ctx, rep, funcs, rule=RULE + '.memo'):
    """`if key not in M: M[key] = V ... return M[key]`: the stored value may depend only on what the key determines.
    Every parameter that V depends on must also be a parameter the key depends on (the container itself and `self`
    excepted); otherwise the entry computed for one argument is returned for another."""
    n = 0
    for f in funcs:
        stores = [st for st in walk_no_nested(f.node) if isinstance(st, ast.Assign) and len(st.targets) == 1 and isinstance(st.targets[0], ast.Subscript)]
        if not stores:
            continue
        tests = [c for c in walk_no_nested(f.node) if isinstance(c, ast.Compare) and len(c.ops) == 1 and isinstance(c.ops[0], (ast.In, ast.NotIn))]
        for st in stores:
            M, key = st.targets[0].value, st.targets[0].slice
            if not any(u(c.comparators[0]) == u(M) and u(c.left) == u(key) for c in tests):
                continue
            # a read of the same entry that is returned makes it a memo
            reads = [r for r in walk_no_nested(f.node) if isinstance(r, ast.Return) and r.value is not None and any(isinstance(x, ast.Subscript) and u(x.value) == u(M) and u(x.slice) == u(key) for x in ast.walk(r.value))]
            if not reads:
                continue
            container = {x.id for x in ast.walk(M) if isinstance(x, ast.Name)}
            stop = container | {'self'}
            # lifetime of the container: a local of f is rebuilt on every call (no memo across calls); a local of an
            # enclosing function lives for one call of that function, during which its parameters are fixed
            if isinstance(M, ast.Name):
                def assigns(g):
                    return any(isinstance(x, (ast.Assign, ast.AnnAssign)) and any(isinstance(t, ast.Name) and t.id == M.id for t in (x.targets if isinstance(x, ast.Assign) else [x.target])) for x in walk_no_nested(g.node))
                if M.id not in f.params and assigns(f):
                    continue
                g = f.parent
                while g is not None:
                    if assigns(g) and M.id not in g.params:
                        h = g
                        while h is not None:
                            stop |= set(h.params)
                            h = h.parent
                        break
                    g = g.parent
            vdeps = _param_deps(f, st.value, extra_stop=stop) - stop
            kdeps = _param_deps(f, key, extra_stop=stop) - stop
            n += 1
            missing = sorted(vdeps - kdeps)
            if missing:
                rep.violates(rule, f, st, 'the memo {}[{}] stores a value that depends on the parameter(s) {} but the key does not: the entry computed for one value of {} is returned for another'.format(u(M), u(key), ', '.join(missing), missing[0]))
            else:
                rep.holds(rule, f, st, 'every parameter the memoised value depends on ({}) is determined by the key'.format(', '.join(sorted(vdeps)) or 'none'))
    return n


def check_dedupe_keys(ctx, rep, funcs, rule=RULE + '.key'):
    """{enc(x): x for x in xs} -- elements are identified by enc(x); a non-injective encoding drops distinct elements"""
    n = 0
    for f in funcs:
        for c in walk_no_nested(f.node):
            if not (isinstance(c, ast.DictComp) and len(c.generators) == 1 and isinstance(c.generators[0].target, ast.Name)):
                continue
            x = c.generators[0].target.id
            if not any(isinstance(v, ast.Name) and v.id == x for v in ast.walk(c.value)):
                continue
            en = Encoder(ctx, f, {x: x}).enc(c.key)
            if en.kind == CONST or (en.kind == INJ and x not in en.covered):
                continue
            n += 1
            if en.kind == NOT:
                rep.violates(rule, f, c, 'the elements of {} are de-duplicated by the key {}, which does not identify them: {} -- distinct elements are merged and one of them is dropped'.format(u(c.generators[0].iter), u(c.key), en.reason))
            elif en.kind == UNK:
                rep.undecided(rule, f, c, 'de-duplication key not understood: {}'.format(en.reason))
            else:
                rep.holds(rule, f, c, 'the de-duplication key is an injective encoding of the element')
    return n
