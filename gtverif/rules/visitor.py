"""R-IO.v -- the hand-written parse-tree visitors of the two regular-expression syntaxes build, for every labelled
alternative  <K>Expression  of the grammar, the constructor K applied to the visited children.  A visit method (or the
helper it delegates to) may return something else on a guarded path -- that is a rewrite performed while parsing -- only
if it is an identity of Kleene algebra; the identity is decided in the analyser (ka.equivalent) with the guarded operand
specialised to each class of the isinstance test.  `0* -> 0` is not an identity (0* = 1)."""
import ast

from .. import ka
from ..abseval import Unsupported
from ..astutil import u, walk_no_nested
from ..model import AnalysisError

RULE = 'R-IO.v'
ARITY = {'Zero': 0, 'One': 0, 'Symbol': 0, 'Iteration': 1, 'Concat': 2, 'Sum': 2, 'Parens': 1}
VISITORS = {'regexp': 'regexp_parser', 'regexp_simple': 'regexp_simple_parser'}


def _shape(cname, fresh):
    if cname == 'Zero':
        return ka.ZERO
    if cname == 'One':
        return ka.ONE
    if cname == 'Symbol':
        return ka.sym(fresh())
    if cname == 'Iteration':
        return ('*', ka.sym(fresh()))
    if cname == 'Sum':
        return ('+', ka.sym(fresh()), ka.sym(fresh()))
    if cname == 'Concat':
        return ('.', ka.sym(fresh()), ka.sym(fresh()))
    raise Unsupported('class ' + cname)


def _build(cname, args):
    if cname == 'Zero':
        return ka.ZERO
    if cname == 'One':
        return ka.ONE
    if cname == 'Iteration':
        return ('*', args[0])
    if cname == 'Sum':
        return ('+', args[0], args[1])
    if cname == 'Concat':
        return ('.', args[0], args[1])
    if cname == 'Symbol':
        return ka.sym('sym')
    raise Unsupported('constructor ' + cname)


class _Eval:
    """symbolic evaluation of a visit method: outcomes [(guards {var: class}, term expr env)]"""

    def __init__(self, ctx, cls):
        self.ctx = ctx
        self.cls = cls

    def outcomes(self, f, binding, depth=0):
        """[(guard dict, ast expr, env, binding)] for every return of f; env: local name -> ('child', i) | ast"""
        out = []
        self._walk(f, f.node.body, {}, dict(binding), {}, out, depth)
        return out

    def _child(self, e):
        """self.visit(ctx.expression(i)) -> i"""
        if isinstance(e, ast.Call) and isinstance(e.func, ast.Attribute) and e.func.attr == 'visit' and u(e.func.value) == 'self' and len(e.args) == 1:
            a = e.args[0]
            if isinstance(a, ast.Call) and isinstance(a.func, ast.Attribute) and a.func.attr == 'expression':
                if not a.args:
                    return 0
                if isinstance(a.args[0], ast.Constant) and isinstance(a.args[0].value, int):
                    return a.args[0].value
        return None

    def _walk(self, f, stmts, guards, binding, env, out, depth):
        """returns True when every path through stmts returns"""
        env = dict(env)
        guards = dict(guards)
        for st in stmts:
            if isinstance(st, ast.Expr) and isinstance(st.value, ast.Constant):
                continue
            if isinstance(st, ast.Assign) and len(st.targets) == 1 and isinstance(st.targets[0], ast.Name):
                ci = self._child(st.value)
                env[st.targets[0].id] = ('child', ci) if ci is not None else st.value
                continue
            if isinstance(st, ast.Return):
                out.append((dict(guards), st.value, dict(env), dict(binding), f))
                return True
            if isinstance(st, ast.If):
                t = st.test
                neg = False
                if isinstance(t, ast.UnaryOp) and isinstance(t.op, ast.Not):
                    t, neg = t.operand, True
                classes = None
                var = None
                if isinstance(t, ast.Call) and isinstance(t.func, ast.Name) and t.func.id == 'isinstance' and len(t.args) == 2 and isinstance(t.args[0], ast.Name):
                    var = t.args[0].id
                    elts = t.args[1].elts if isinstance(t.args[1], ast.Tuple) else [t.args[1]]
                    classes = []
                    for x in elts:
                        nm = u(x)
                        nm = binding.get(nm, nm)
                        classes.append(nm)
                if classes is None:
                    raise Unsupported('condition {} in {}'.format(u(st.test), f.name))
                g_then = dict(guards)
                g_else = dict(guards)
                if not neg:
                    g_then[var] = ('in', tuple(classes))
                    g_else[var] = ('notin', tuple(classes))
                else:
                    g_then[var] = ('notin', tuple(classes))
                    g_else[var] = ('in', tuple(classes))
                r1 = self._walk(f, st.body, g_then, binding, env, out, depth)
                r2 = self._walk(f, st.orelse, g_else, binding, env, out, depth) if st.orelse else False
                if r1 and r2:
                    return True
                if r1 and not st.orelse:
                    guards = g_else
                    continue
                if not r1 and not r2:
                    continue
                raise Unsupported('partial return in {}'.format(f.name))
            raise Unsupported('statement {} in {}'.format(type(st).__name__, f.name))
        return False


def _term(ev, expr, env, binding, children, f, depth=0):
    """KA term of a returned expression"""
    if isinstance(expr, ast.Name):
        v = env.get(expr.id)
        if isinstance(v, tuple) and v[0] == 'child':
            return children[v[1]]
        if v is not None:
            return _term(ev, v, env, binding, children, f, depth)
        raise Unsupported('name ' + expr.id)
    ci = ev._child(expr)
    if ci is not None:
        return children[ci]
    if isinstance(expr, ast.Call):
        fn = expr.func
        name = fn.id if isinstance(fn, ast.Name) else None
        if name is not None:
            name = binding.get(name, name)
            if name == 'Symbol':
                return ka.sym('sym')
            if name in ARITY and name != 'Parens':
                return _build(name, [_term(ev, a, env, binding, children, f, depth) for a in expr.args])
        raise Unsupported('call ' + u(fn))
    raise Unsupported('expression ' + u(expr))


from ..shapes import ShapeEval as _Concrete, shapes as _shapes, rename as _rename, ka_of as _ka_of, LEAVES, FIELDS  # noqa: E402,F401


def _flat(sh):
    """a shape with its Sum / Concat chains flattened (printed forms do not show how a chain is nested)"""
    if not (isinstance(sh, tuple) and sh and sh[0] in ARITY):
        return sh
    if sh[0] in ('Sum', 'Concat'):
        parts = []

        def go(x):
            if isinstance(x, tuple) and x and x[0] == sh[0]:
                go(x[1]); go(x[2])
            else:
                parts.append(_flat(x))
        go(sh)
        return (sh[0] + '*',) + tuple(parts)
    return (sh[0],) + tuple(_flat(x) for x in sh[1:])


def _decide_concrete(ctx, cls, m, K, exact=False):
    """None when every return of the visit method denotes K(children) on all child shapes, else a description.  With
    exact, the result must also BE K(children) up to the nesting of Sum / Concat chains (same printed form)."""
    shapes = _shapes()
    arity = ARITY[K]
    n = 0
    combos = [()] if arity == 0 else ([(s,) for s in shapes] if arity == 1 else [(s, t) for s in shapes for t in shapes])
    for combo in combos:
        children = {i: _rename(sh, 'c%d' % i) for i, sh in enumerate(combo)}
        got = _Concrete(ctx, cls, children).call(m, ['CTX'], True)
        if K == 'Parens':
            want = children[0]
        elif K == 'Symbol':
            want = ('Symbol', 'sym')
        else:
            want = (K,) + tuple(children[i] for i in range(arity))
        n += 1
        if not (isinstance(got, tuple) and got and got[0] in ARITY):
            raise Unsupported('result is not a regular expression')
        if got == want:
            continue
        if not ka.equivalent(_ka_of(want), _ka_of(got))[0]:
            return n, (combo, want, got)
        if exact and _flat(got) != _flat(want):
            return n, (combo, want, got, 'form')
    return n, None


def _show(sh):
    return ka.show(_ka_of(sh))


def check_visitors(ctx, rep, rule=RULE, exact=False):
    n = 0
    for gname, modname in VISITORS.items():
        g = ctx.prog.grammars.get(gname)
        if g is None:
            raise AnalysisError('grammar {} vanished'.format(gname))
        mod = ctx.prog.module(modname)
        vcls = [c for c in ctx.prog.classes.values() if c.module is mod and any(m.startswith('visit') for m in c.methods)]
        if not vcls:
            raise AnalysisError('visitor class of {} vanished'.format(modname))
        cls = vcls[0]
        ev = _Eval(ctx, cls)
        labels = [lab for alts in g.rules.values() for (_, lab) in alts if lab and lab.endswith('Expression')]
        for lab in labels:
            K = lab[:-len('Expression')]
            if K not in ARITY:
                continue
            m = cls.methods.get('visit' + lab)
            if m is None:
                continue
            n += 1
            try:
                cases, bad_c = _decide_concrete(ctx, cls, m, K, exact)
                if bad_c is not None and len(bad_c) == 4:
                    combo, want, got, _ = bad_c
                    rep.violates(rule, m, 'def visit' + lab, 'for the alternative {} with the sub-expressions {} the visitor returns {} where the text says {}: the language is the same, but the re-parsed '
                                 'expression is not the one that was printed, so printing it again gives another text (a rewrite while parsing breaks the round trip)'.format(lab, ', '.join(_show(x) for x in combo), _show(got), _show(want)))
                elif bad_c is not None:
                    combo, want, got = bad_c
                    rep.violates(rule, m, 'def visit' + lab, 'for the alternative {} with the sub-expressions {} the visitor returns {} where the grammar says {}: the parser itself changes the language of '
                                 'the expression ({} = {} is not an identity of Kleene algebra)'.format(lab, ', '.join(_show(x) for x in combo), _show(got), _show(want), _show(want), _show(got)))
                else:
                    rep.holds(rule, m, 'def visit' + lab, 'on all {} combinations of sub-expression shapes (depth <= 2 over 0, 1, a letter) visit{} returns {}'.format(cases, lab, ('{}(children) itself (up to the nesting of chains)' if exact else 'an expression equal to {}(children) in Kleene algebra').format(K)))
                continue
            except (Unsupported, ka.Unsupported if hasattr(ka, 'Unsupported') else Unsupported):
                pass
            try:
                outs = ev.outcomes(m, {})
                # inline one level of helper delegation: return self.helper(K, ctx)
                flat = []
                for (gd, expr, env, binding, f) in outs:
                    if isinstance(expr, ast.Call) and isinstance(expr.func, ast.Attribute) and u(expr.func.value) == 'self' and expr.func.attr in cls.methods and expr.func.attr != 'visit':
                        h = cls.methods[expr.func.attr]
                        params = [p for p in h.params if p != 'self']
                        b2 = dict(binding)
                        for p, a in zip(params, expr.args):
                            if isinstance(a, ast.Name) and a.id in ARITY:
                                b2[p] = a.id
                        for o in ev.outcomes(h, b2):
                            flat.append(o)
                    else:
                        flat.append((gd, expr, env, binding, f))
                bad = None
                for (gd, expr, env, binding, f) in flat:
                    # enumerate the classes of every guarded child variable
                    gvars = sorted(gd)
                    cases = [[]]
                    for v in gvars:
                        kind, classes = gd[v]
                        options = list(classes) if kind == 'in' else [c for c in ('Zero', 'One', 'Symbol', 'Iteration', 'Sum', 'Concat') if c not in classes]
                        cases = [c + [(v, o)] for c in cases for o in options]
                    for case in cases:
                        cnt = [0]

                        def fresh():
                            cnt[0] += 1
                            return 'v%d' % cnt[0]
                        children = {0: ka.sym('x'), 1: ka.sym('y')}
                        for (v, o) in case:
                            src = env.get(v)
                            if isinstance(src, tuple) and src[0] == 'child':
                                children[src[1]] = _shape(o, fresh)
                        if K == 'Parens':
                            want = children[0]
                        elif K == 'Symbol':
                            want = ka.sym('sym')
                        else:
                            want = _build(K, [children[i] for i in range(ARITY[K])])
                        got = _term(ev, expr, env, binding, children, f)
                        if not ka.equivalent(want, got)[0]:
                            bad = (f, expr, case, want, got)
                            break
                    if bad:
                        break
                if bad:
                    f, expr, case, want, got = bad
                    rep.violates(rule, f, 'return ' + u(expr), 'for the alternative {} the visitor returns {} where the grammar says {}{}: the parser itself changes the language of the expression ({} is not an identity of Kleene algebra)'.format(
                        lab, ka.show(got), ka.show(want), ' when ' + ', '.join('{} is a {}'.format(v, o) for v, o in case) if case else '', '{} = {}'.format(ka.show(want), ka.show(got))))
                else:
                    rep.holds(rule, m, 'def visit' + lab, 'every return of visit{} denotes {}(children){}'.format(lab, K, ' (guarded rewrites are Kleene-algebra identities)' if any(gd for gd, *_ in flat) else ''))
            except Unsupported as e:
                rep.undecided(rule, m, 'def visit' + lab, 'visitor body outside the fragment: {}'.format(e))
    return n
