"""R-FEEDBACK -- checker error discipline K1..K7, with answer/reference roles read from the templates."""
import ast

from ..astutil import u, names_in, walk_no_nested, atoms_of, const_str
from ..model import norm
from ..types import members

RULE = 'R-FEEDBACK'
CHECKER_MODULES = ['notebook', 'notebook_dfa', 'notebook_nfa2dfa', 'notebook_cfg', 'notebook_chomsky',
                   'notebook_experimental', 'automata_checker', 'language_generator']
ENUMERATORS = {'dfa_words_up_to_n', 'nfa_words_up_to_n', 'pda_words_up_to_n', 'tm_words_up_to_n', 'cfg_words_up_to_n',
               'regexp_words_up_to_n', 'generate_language'}
COMPARERS = {'compare_languages', 'check_equal_languages'}


def checker_functions(ctx):
    out = []
    for base in CHECKER_MODULES:
        out += ctx.prog.funcs_of(base)
    return out


# ---- feedback-returning functions ---------------------------------------------------------------------

def feedback_returning(ctx):
    """functions of the checker modules that return a feedback list (annotation List[str] or list-typed returns)"""
    out = set()
    for f in checker_functions(ctx):
        rt = ctx.typer.return_type(f)
        if rt is not None and any(m[0] == 'list' and m[1] == ('str',) for m in members(rt)):
            out.add(f.qualname)
            continue
        if f.node.returns is None:
            rets = [n for n in walk_no_nested(f.node) if isinstance(n, ast.Return) and n.value is not None]
            if rets and all(isinstance(r.value, ast.Name) and r.value.id in accumulators(ctx, f) for r in rets):
                out.add(f.qualname)
    return out


def accumulators(ctx, f):
    """list-typed locals (or parameters) that receive messages via append/extend/+ and reach print_feedback or return"""
    acc = set()
    for n in walk_no_nested(f.node):
        if isinstance(n, ast.Call) and isinstance(n.func, ast.Attribute) and n.func.attr in ('append', 'extend') and isinstance(n.func.value, ast.Name):
            acc.add(n.func.value.id)
        if isinstance(n, ast.Call) and isinstance(n.func, ast.Name) and n.func.id == 'print_feedback' and n.args and isinstance(n.args[0], ast.Name):
            acc.add(n.args[0].id)
    env = ctx.env(f)
    out = set()
    for a in acc:
        t = env.vars.get(a)
        if t is None or any(m[0] in ('list', 'any') for m in members(t)):
            out.add(a)
    return out


def _is_empty_list(e):
    return (isinstance(e, ast.List) and not e.elts) or (isinstance(e, ast.Call) and isinstance(e.func, ast.Name) and e.func.id == 'list' and not e.args)


def _is_error_print(st):
    """print('Error...') / print of a message containing 'should' / 'Warning'"""
    if isinstance(st, ast.Expr) and isinstance(st.value, ast.Call) and isinstance(st.value.func, ast.Name) and st.value.func.id == 'print' and st.value.args:
        a = st.value.args[0]
        txt = None
        if isinstance(a, ast.Constant) and isinstance(a.value, str):
            txt = a.value
        elif isinstance(a, ast.Call) and isinstance(a.func, ast.Attribute) and a.func.attr == 'format' and isinstance(a.func.value, ast.Constant):
            txt = a.func.value.value
        elif isinstance(a, ast.JoinedStr):
            txt = ''.join(v.value for v in a.values if isinstance(v, ast.Constant))
        if txt is not None and txt != 'OK':
            return txt
    return None


def _is_ok_print(st):
    return isinstance(st, ast.Expr) and isinstance(st.value, ast.Call) and isinstance(st.value.func, ast.Name) and st.value.func.id == 'print' \
        and len(st.value.args) == 1 and isinstance(st.value.args[0], ast.Constant) and st.value.args[0].value == 'OK'


# ---- K1 ----------------------------------------------------------------------------------------------

def check_k1(ctx, rep, f, fb_funcs):
    """no recorded feedback is dropped"""
    fx = ctx.facts(f)
    cfg = fx.cfg
    accs = accumulators(ctx, f)
    n = 0
    for acc in sorted(accs):
        producers, kills, sinks = [], [], []
        for node in cfg.node:
            st = node.stmt
            if st is None or node.kind in ('test', 'for', 'def', 'except', 'with'):
                continue
            if isinstance(st, ast.Expr) and isinstance(st.value, ast.Call) and isinstance(st.value.func, ast.Attribute) \
                    and u(st.value.func.value) == acc and st.value.func.attr in ('append', 'extend', 'insert'):
                producers.append(node.id)
            elif isinstance(st, ast.AugAssign) and u(st.target) == acc:
                producers.append(node.id)
            elif isinstance(st, (ast.Assign, ast.AnnAssign)):
                tg = st.targets if isinstance(st, ast.Assign) else [st.target]
                if any(isinstance(t, ast.Name) and t.id == acc for t in tg) and getattr(st, 'value', None) is not None:
                    if acc in names_in(st.value):
                        producers.append(node.id)
                    elif _is_empty_list(st.value):
                        kills.append(node.id)
                    else:
                        kills.append(node.id)
                        producers.append(node.id)
            if isinstance(st, ast.Expr) and isinstance(st.value, ast.Call) and isinstance(st.value.func, ast.Name) and st.value.func.id == 'print_feedback':
                sinks.append((node.id, st.value))
            if isinstance(st, ast.Return) and st.value is not None and acc in names_in(st.value):
                sinks.append((node.id, None))
        for k in kills:
            # a kill is harmful if some producer can reach it
            srcs = [p for p in producers if p != k and k in cfg.reachable(p)]
            n += 1
            if srcs:
                rep.violates(RULE + '.K1', f, cfg.node[k].stmt,
                             'the feedback accumulator {} is reset after messages were recorded at `{}`: every recorded error is discarded before it is reported'.format(
                                 acc, norm(cfg.node[srcs[0]].stmt)))
            else:
                rep.holds(RULE + '.K1', f, cfg.node[k].stmt, 'initial definition of {} (no producer reaches it)'.format(acc), nontrivial=False)
        for (sid, call) in sinks:
            if call is not None:
                n += 1
                if len(call.args) == 1 and isinstance(call.args[0], ast.Name) and call.args[0].id == acc:
                    rep.holds(RULE + '.K1', f, call, 'print_feedback receives the accumulator {} ({} producers)'.format(acc, len(producers)))
                elif len(accs) == 1:
                    rep.violates(RULE + '.K1', f, call, 'print_feedback is called with {} instead of the accumulator {}: recorded errors are not reported'.format(
                        u(call.args[0]) if call.args else 'nothing', acc))
    # dropped results of feedback-returning calls
    for c in ctx.prog.calls_in(f):
        cal = ctx.callee(f, c)
        if cal is None or cal.qualname not in fb_funcs:
            continue
        n += 1
        nid = fx.stmt_of_expr(c)
        st = cfg.node[nid].stmt if nid is not None else None
        if isinstance(st, ast.Expr) and st.value is c:
            rep.violates(RULE + '.K1', f, st, 'the feedback returned by {} is dropped (expression statement)'.format(cal.name))
        elif isinstance(st, ast.Assign) and st.value is c and len(st.targets) == 1 and isinstance(st.targets[0], ast.Name):
            v = st.targets[0].id
            used = any(isinstance(x, ast.Name) and x.id == v and isinstance(x.ctx, ast.Load) for x in walk_no_nested(f.node))
            if used:
                rep.holds(RULE + '.K1', f, st, 'feedback of {} is kept in {}'.format(cal.name, v))
            else:
                rep.violates(RULE + '.K1', f, st, 'the feedback returned by {} is stored in {} and never used'.format(cal.name, v))
        else:
            rep.holds(RULE + '.K1', f, c, 'feedback of {} flows into an expression'.format(cal.name), nontrivial=False)
    return n


# ---- K2 / K3 -------------------------------------------------------------------------------------------

def check_k2(ctx, rep, f):
    fx = ctx.facts(f)
    cfg = fx.cfg
    oks = [n for n in cfg.node if n.stmt is not None and n.kind == 'stmt' and _is_ok_print(n.stmt)]
    if not oks:
        return 0
    errs = [n for n in cfg.node if n.stmt is not None and n.kind == 'stmt' and _is_error_print(n.stmt)]
    accs = accumulators(ctx, f)
    # accumulators with producers in this function, or list parameters
    for o in oks:
        bad = [e for e in errs if o.id in cfg.reachable(e.id)]
        if bad:
            rep.violates(RULE + '.K2', f, o.stmt, "print('OK') is reachable after the error message `{}` was printed".format(norm(bad[0].stmt)))
            continue
        atoms = fx.guard_atoms(o.id)
        need = set()
        for acc in accs:
            has_prod = any(isinstance(n, ast.Call) and isinstance(n.func, ast.Attribute) and u(n.func.value) == acc and n.func.attr in ('append', 'extend')
                           for n in walk_no_nested(f.node)) or acc in f.params
            if has_prod:
                need.add(acc)
        missing = []
        for acc in sorted(need):
            if not any((a[0] == 'truthy' and a[1] == acc and a[3] is False) or (a[0] == 'empty' and a[1] == acc and a[3] is True) for a in atoms):
                missing.append(acc)
        if missing:
            rep.violates(RULE + '.K2', f, o.stmt, "print('OK') is not guarded by the emptiness of the error list {}".format(', '.join(missing)))
        else:
            rep.holds(RULE + '.K2', f, o.stmt, "print('OK') is unreachable from every error print" + (' and guarded by `not {}`'.format(', '.join(sorted(need))) if need else ''))
    return len(oks)


def check_k3(ctx, rep, f):
    n = 0
    for h in [x for x in walk_no_nested(f.node) if isinstance(x, ast.ExceptHandler)]:
        n += 1
        body = h.body
        stmts = []
        for b in body:
            stmts += [x for x in ast.walk(b) if isinstance(x, ast.stmt)]
        if any(_is_ok_print(s) for s in stmts):
            rep.violates(RULE + '.K3', f, h, "an exception handler prints 'OK'")
            continue
        if all(isinstance(s, ast.Pass) for s in body):
            rep.violates(RULE + '.K3', f, h, 'an exception handler swallows the error silently (pass)')
            continue
        reports = any(_is_error_print(s) for s in stmts) or any(isinstance(s, ast.Return) and s.value is not None for s in stmts) or any(isinstance(s, ast.Raise) for s in stmts)
        if reports:
            rep.holds(RULE + '.K3', f, h, 'handler reports the error')
        else:
            rep.violates(RULE + '.K3', f, h, 'handler neither prints an error nor returns/raises one')
    return n


# ---- roles from templates -------------------------------------------------------------------------------

def template_entry_points(ctx):
    """[(template base, checker FuncInfo, {param index: role}, call text)] ; role in answer/reference/neutral"""
    out = []
    for base, t in sorted(ctx.prog.templates.items()):
        m = t.module
        var_role = {}
        for tag in t.tags:
            if tag['var']:
                var_role[tag['var']] = 'answer' if tag['optional'] else 'reference'
        ph_role = {tag['placeholder']: ('answer' if tag['optional'] else 'reference') for tag in t.tags if tag['in_string']}
        lambdas = {}
        for st in m.tree.body:
            if isinstance(st, ast.Assign) and len(st.targets) == 1 and isinstance(st.targets[0], ast.Name) and isinstance(st.value, ast.Lambda):
                lambdas[st.targets[0].id] = st.value

        def role_of(e, env):
            if isinstance(e, ast.Name):
                if e.id in env:
                    return env[e.id]
                if e.id in var_role:
                    return var_role[e.id]
                return 'neutral'
            if isinstance(e, ast.Constant) and isinstance(e.value, str):
                for ph, r in ph_role.items():
                    if ph in e.value:
                        return r
                return 'neutral'
            return 'neutral'

        def visit_call(call, env):
            if not isinstance(call, ast.Call):
                return
            fn = call.func
            if isinstance(fn, ast.Name) and fn.id in lambdas:
                lam = lambdas[fn.id]
                env2 = {}
                for p, a in zip(lam.args.args, call.args):
                    env2[p.arg] = role_of(a, env)
                visit_call(lam.body, env2)
                return
            r = ctx.prog.resolve_expr(None, m, fn) if isinstance(fn, (ast.Name, ast.Attribute)) else None
            if r is not None and r.kind == 'func':
                roles = {}
                params = [p.arg for p in r.target.pos_params]
                for i, a in enumerate(call.args):
                    roles[i] = role_of(a, env)
                for k in call.keywords:
                    if k.arg in params:
                        roles[params.index(k.arg)] = role_of(k.value, env)
                out.append((base, r.target, roles, u(call)))

        for st in m.tree.body:
            if isinstance(st, ast.Expr) and isinstance(st.value, ast.Call):
                visit_call(st.value, {})
    return out


class Roles:
    """role propagation through the checker call graph"""

    def __init__(self, ctx):
        self.ctx = ctx
        self.param_roles = {}     # qualname -> {param name: set(roles)}
        self.entries = template_entry_points(ctx)
        work = []
        for (base, f, roles, text) in self.entries:
            pr = self.param_roles.setdefault(f.qualname, {})
            for i, r in roles.items():
                if i < len(f.pos_params):
                    pr.setdefault(f.pos_params[i].arg, set()).add(r)
            work.append(f)
        seen_sig = {}
        while work:
            f = work.pop()
            sig = repr(sorted((k, sorted(v)) for k, v in self.param_roles.get(f.qualname, {}).items()))
            if seen_sig.get(f.qualname) == sig:
                continue
            seen_sig[f.qualname] = sig
            vr = self.var_roles(f)
            for c in ctx.prog.calls_in(f):
                cal = ctx.callee(f, c)
                if cal is None or cal.module.base[:-3] not in CHECKER_MODULES or cal is f:
                    continue
                pr = self.param_roles.setdefault(cal.qualname, {})
                params = [p.arg for p in cal.pos_params]
                changed = False
                for i, a in enumerate(c.args):
                    if i < len(params):
                        rs = self.expr_roles(a, vr)
                        cur = pr.setdefault(params[i], set())
                        if not rs <= cur:
                            cur |= rs
                            changed = True
                for k in c.keywords:
                    if k.arg in params:
                        rs = self.expr_roles(k.value, vr)
                        cur = pr.setdefault(k.arg, set())
                        if not rs <= cur:
                            cur |= rs
                            changed = True
                if changed or cal.qualname not in seen_sig:
                    work.append(cal)

    @staticmethod
    def expr_roles(e, vr):
        rs = set()
        for n in ast.walk(e):
            if isinstance(n, ast.Name) and n.id in vr:
                rs |= vr[n.id]
        rs.discard('neutral')
        return rs

    def var_roles(self, f):
        vr = {}
        for p, rs in self.param_roles.get(f.qualname, {}).items():
            vr[p] = set(rs)
        for _ in range(8):
            changed = False
            for n in walk_no_nested(f.node):
                if isinstance(n, (ast.Assign, ast.AnnAssign)) and getattr(n, 'value', None) is not None:
                    rs = self.expr_roles(n.value, vr)
                    for t in (n.targets if isinstance(n, ast.Assign) else [n.target]):
                        for x in ast.walk(t):
                            if isinstance(x, ast.Name):
                                cur = vr.setdefault(x.id, set())
                                if not rs <= cur:
                                    cur |= rs
                                    changed = True
                elif isinstance(n, ast.For):
                    rs = self.expr_roles(n.iter, vr)
                    for x in ast.walk(n.target):
                        if isinstance(x, ast.Name):
                            cur = vr.setdefault(x.id, set())
                            if not rs <= cur:
                                cur |= rs
                                changed = True
            if not changed:
                break
        return vr


def check_k4_roles(ctx, rep, roles: Roles):
    """answer-derived languages go to the first argument of compare_languages / check_equal_languages, reference-derived to the second"""
    n = 0
    for f in checker_functions(ctx):
        if f.qualname not in roles.param_roles:
            continue
        vr = roles.var_roles(f)
        for c in ctx.prog.calls_in(f):
            cal = ctx.callee(f, c)
            if cal is None or cal.name not in COMPARERS or len(c.args) < 2:
                continue
            n += 1
            r0 = roles.expr_roles(c.args[0], vr)
            r1 = roles.expr_roles(c.args[1], vr)
            if r0 == {'answer'} and r1 <= {'reference'}:
                rep.holds(RULE + '.K4', f, c, 'first argument derives from the submitted answer, second from the reference')
            elif r0 == {'reference'} and r1 == {'answer'}:
                rep.violates(RULE + '.K4', f, c, 'arguments swapped: the reference language is passed as the answer (first) and the answer as the expected language, so "should be accepted" and "should not be accepted" are exchanged')
            elif 'answer' not in r0 and 'answer' not in r1:
                rep.violates(RULE + '.K4', f, c, 'neither compared language derives from the submitted answer: the verdict does not depend on the answer')
            elif 'answer' in r0 and 'answer' in r1:
                rep.violates(RULE + '.K4', f, c, 'both compared languages derive from the submitted answer: it is compared with itself')
            else:
                rep.undecided(RULE + '.K4', f, c, 'roles mixed: first {} second {}'.format(sorted(r0), sorted(r1)))
    return n


def _check_compare_languages_syntactic(ctx, rep, f):
    """inside compare_languages: extra words (A1 - A2) are reported first as 'should not be accepted', missing ones
    (A2 - A1) as 'should be accepted'; the reported word has minimal length."""
    fx = ctx.facts(f)
    cfg = fx.cfg
    if len(f.pos_params) < 2:
        rep.undecided(RULE + '.K4', f, 'def ' + f.name, 'unexpected signature')
        return
    a1, a2 = f.pos_params[0].arg, f.pos_params[1].arg
    diffs = {}   # var -> (left, right, ok_minimal, stmt)
    for st in walk_no_nested(f.node):
        if isinstance(st, ast.Assign) and len(st.targets) == 1 and isinstance(st.targets[0], ast.Name) and isinstance(st.value, ast.Call):
            c = st.value
            if isinstance(c.func, ast.Name) and c.func.id in ('sorted', 'min') and c.args:
                d = c.args[0]
                if isinstance(d, ast.BinOp) and isinstance(d.op, ast.Sub):
                    key = [k for k in c.keywords if k.arg == 'key']
                    rev = [k for k in c.keywords if k.arg == 'reverse' and not (isinstance(k.value, ast.Constant) and k.value.value is False)]
                    key_ok = False
                    if key:
                        kv = key[0].value
                        if isinstance(kv, ast.Name) and kv.id == 'len':
                            key_ok = True
                        elif isinstance(kv, ast.Lambda):
                            b = kv.body
                            first = b.elts[0] if isinstance(b, ast.Tuple) and b.elts else b
                            key_ok = isinstance(first, ast.Call) and isinstance(first.func, ast.Name) and first.func.id == 'len' \
                                and len(first.args) == 1 and u(first.args[0]) == kv.args.args[0].arg
                    diffs[st.targets[0].id] = (u(d.left), u(d.right), key_ok and not rev, st, c.func.id)
    msgs = []
    for st in walk_no_nested(f.node):
        if isinstance(st, ast.Expr) and isinstance(st.value, ast.Call) and isinstance(st.value.func, ast.Attribute) and st.value.func.attr == 'append' and st.value.args:
            a = st.value.args[0]
            txt = a.func.value.value if isinstance(a, ast.Call) and isinstance(a.func, ast.Attribute) and isinstance(a.func.value, ast.Constant) else const_str(a)
            if isinstance(txt, str) and 'should not be accepted' in txt:
                msgs.append((st, 'extra'))
            elif isinstance(txt, str) and 'should be accepted' in txt:
                msgs.append((st, 'missing'))
    # early-return style:  return ['Error: word ... should be accepted'.format(..)]
    for st in walk_no_nested(f.node):
        if isinstance(st, ast.Return) and isinstance(st.value, ast.List) and len(st.value.elts) == 1:
            a = st.value.elts[0]
            txt = a.func.value.value if isinstance(a, ast.Call) and isinstance(a.func, ast.Attribute) and isinstance(a.func.value, ast.Constant) else const_str(a)
            if isinstance(txt, str) and 'should not be accepted' in txt:
                msgs.append((st, 'extra'))
            elif isinstance(txt, str) and 'should be accepted' in txt:
                msgs.append((st, 'missing'))
    if len(msgs) != 2 or len(diffs) < 2:
        rep.undecided(RULE + '.K4', f, 'def ' + f.name, 'message / difference structure not recognised')
        return
    extra_var = None
    for (st, kind) in msgs:
        nid = cfg.n_of(st)
        atoms = fx.guard_atoms(nid)
        # `if xs:` is a non-emptiness test only for a COLLECTION (sorted(...)); for an element picked by min(..) it would
        # conflate the empty word with "no word"
        def coll(name):
            return name in diffs and diffs[name][4] == 'sorted'
        nonempty = [a[1] for a in atoms if ((a[0] == 'empty' and a[3] is False and a[1] in diffs) or (a[0] == 'truthy' and a[3] is True and coll(a[1])))]
        empty = [a[1] for a in atoms if ((a[0] == 'empty' and a[3] is True and a[1] in diffs) or (a[0] == 'truthy' and a[3] is False and coll(a[1])))]
        if not nonempty:
            rep.violates(RULE + '.K4', f, st, 'the message is not guarded by the non-emptiness of a set difference')
            continue
        dv = nonempty[-1]
        left, right, minimal, dst, fn = diffs[dv]
        want = (a1, a2) if kind == 'extra' else (a2, a1)
        if (left, right) == want:
            rep.holds(RULE + '.K4', f, st, '"{}" is reported for a word of {} - {}'.format('should not be accepted' if kind == 'extra' else 'should be accepted', left, right))
        else:
            rep.violates(RULE + '.K4', f, st, 'wrong polarity: "{}" is reported for a word of {} - {} (answer is {}, reference is {})'.format(
                'should not be accepted' if kind == 'extra' else 'should be accepted', left, right, a1, a2))
        if kind == 'extra':
            extra_var = dv
            if empty:
                rep.violates(RULE + '.K4', f, st, 'extra words are not reported first')
        else:
            if extra_var is not None and extra_var in empty or any(diffs[e][0] == a1 for e in empty):
                rep.holds(RULE + '.K4', f, st, 'missing words are reported only when there is no extra word (extra words first)', nontrivial=False)
            else:
                rep.violates(RULE + '.K4', f, st, 'missing words are reported although an extra word may exist: extra words must be reported first')
        # K5: the word taken is element 0 of the ascending-by-length order
        word_defs = [w for w in walk_no_nested(f.node) if isinstance(w, ast.Assign) and isinstance(w.value, ast.Subscript) and u(w.value.value) == dv]
        blk_ok = False
        for w in word_defs:
            if cfg.dominates(cfg.n_of(w), nid):
                idx = w.value.slice
                if isinstance(idx, ast.Constant) and idx.value == 0 and minimal:
                    blk_ok = True
                    rep.holds(RULE + '.K5', f, w, 'the reported word is element 0 of {} sorted by ascending length'.format(dv))
                else:
                    rep.violates(RULE + '.K5', f, w, 'the reported word is not a shortest element of the difference (index {} of {}{})'.format(
                        u(idx), dv, '' if minimal else ', which is not sorted by ascending length'))
                    blk_ok = True
        if not blk_ok:
            # the element is taken inline in the reporting statement:  '...'.format(show(X[0]))
            inline = [x for x in ast.walk(st) if isinstance(x, ast.Subscript) and u(x.value) == dv and isinstance(x.ctx, ast.Load)]
            for x in inline[:1]:
                blk_ok = True
                if isinstance(x.slice, ast.Constant) and x.slice.value == 0 and minimal:
                    rep.holds(RULE + '.K5', f, x, 'the reported word is element 0 of {} sorted by ascending length'.format(dv))
                else:
                    rep.violates(RULE + '.K5', f, x, 'the reported word is not a shortest element of the difference (index {} of {}{})'.format(
                        u(x.slice), dv, '' if minimal else ', which is not sorted by ascending length'))
        if not blk_ok:
            if fn == 'min' and minimal:
                rep.holds(RULE + '.K5', f, dst, 'min(..., key=len) picks a shortest word')
            else:
                rep.undecided(RULE + '.K5', f, st, 'definition of the reported word not recognised')


def check_k6(ctx, rep, f):
    """all enumerations compared in one checker use the same bound expression, derived from a parameter"""
    calls = []
    for c in ctx.prog.calls_in(f):
        cal = ctx.callee(f, c)
        if cal is not None and cal.name in ENUMERATORS | {'check_equal_languages'} and len(c.args) >= 2:
            bound = c.args[2] if cal.name == 'check_equal_languages' and len(c.args) >= 3 else (c.args[1] if cal.name != 'check_equal_languages' else None)
            if bound is not None:
                calls.append((c, u(bound), bound))
    # a bounded comparison that is called WITHOUT its bound falls back to the callee's default: if the checker has a bound
    # parameter of its own, that knob (and the documented bound of the exercise) is silently ignored
    own_bounds = [p.arg for p in f.pos_params if p.arg in f.defaults and isinstance(f.defaults[p.arg], ast.Constant) and isinstance(f.defaults[p.arg].value, int)
                  and not isinstance(f.defaults[p.arg].value, bool) and (p.annotation is None or u(p.annotation) == 'int')]
    omitted = 0
    for c in ctx.prog.calls_in(f):
        cal = ctx.callee(f, c)
        if cal is None or cal is f:
            continue
        cb = [p.arg for p in cal.pos_params if p.arg in ('length', 'n', 'max_length', 'bound') and p.arg in cal.defaults]
        if not cb or not own_bounds:
            continue
        names = [p.arg for p in cal.pos_params]
        for b in cb:
            i = names.index(b)
            passed = c.args[i] if i < len(c.args) else next((k.value for k in c.keywords if k.arg == b), None)
            if passed is None:
                omitted += 1
                rep.violates(RULE + '.K6', f, c, "{}() is called without its bound `{}` (default {}), although the checker has the bound parameter `{}` (default {}): answers that differ from the reference only on words longer than {} get OK".format(
                    cal.name, b, u(cal.defaults[b]), own_bounds[0], u(f.defaults[own_bounds[0]]), u(cal.defaults[b])))
    if len(calls) < 1:
        return 1 if omitted else 0
    # the bound that reaches the enumerations is the bound the checker was given: a parameter that is re-bound to
    # something possibly smaller (min(..), a difference, a value that does not mention it) before the call makes the
    # comparison stop short of the documented bound
    for (c0, btxt, b0) in calls:
        if isinstance(b0, ast.Name) and b0.id in f.params:
            for st in walk_no_nested(f.node):
                tg = None
                if isinstance(st, ast.Assign) and len(st.targets) == 1 and isinstance(st.targets[0], ast.Name) and st.targets[0].id == b0.id:
                    tg = st.value
                if isinstance(st, ast.AugAssign) and isinstance(st.target, ast.Name) and st.target.id == b0.id:
                    tg = st.value if isinstance(st.op, (ast.Sub, ast.FloorDiv, ast.Div)) else None
                    if tg is None:
                        continue
                if tg is None or st.lineno > c0.lineno:
                    continue
                shrinks = isinstance(st, ast.AugAssign) or any(isinstance(x, ast.Call) and isinstance(x.func, ast.Name) and x.func.id == 'min' for x in ast.walk(tg)) \
                    or any(isinstance(x, ast.BinOp) and isinstance(x.op, (ast.Sub, ast.FloorDiv)) for x in ast.walk(tg)) or b0.id not in names_in(tg)
                if shrinks:
                    rep.violates(RULE + '.K6', f, st, 'the bound parameter `{0}` is replaced by `{1}` before the language of the answer is enumerated: words longer than the new value and up to the bound of the exercise are never compared, so an answer that is wrong only there gets OK'.format(b0.id, u(tg)[:80]))
                    return 1
                rep.undecided(RULE + '.K6', f, st, 'the bound parameter {} is re-bound before use'.format(b0.id))
    bounds = {b for _, b, _ in calls}
    if len(bounds) > 1:
        rep.violates(RULE + '.K6', f, calls[0][0], 'the compared languages are generated with different bounds: {}'.format(', '.join(sorted(bounds))))
    else:
        b = calls[0][2]
        if names_in(b) & set(f.params) or isinstance(b, ast.Name):
            rep.holds(RULE + '.K6', f, calls[0][0], '{} enumeration(s) use the same bound `{}`'.format(len(calls), calls[0][1]), nontrivial=len(calls) > 1)
        else:
            rep.violates(RULE + '.K6', f, calls[0][0], 'the enumeration bound `{}` does not derive from the checker\'s length parameter'.format(calls[0][1]))
    return 1


def _eval_int(e, env):
    """tiny evaluator for integer comparison expressions (the analyser's own finite model)"""
    if isinstance(e, ast.Constant):
        return e.value
    if isinstance(e, ast.Name):
        return env[e.id]
    if isinstance(e, ast.Call) and isinstance(e.func, ast.Name) and e.func.id == 'len':
        return env['len(' + u(e.args[0]) + ')']
    if isinstance(e, ast.Compare):
        vals = [_eval_int(e.left, env)] + [_eval_int(c, env) for c in e.comparators]
        ok = True
        for op, a, b in zip(e.ops, vals, vals[1:]):
            r = {ast.Lt: a < b, ast.LtE: a <= b, ast.Gt: a > b, ast.GtE: a >= b, ast.Eq: a == b, ast.NotEq: a != b}[type(op)]
            ok = ok and r
        return ok
    if isinstance(e, ast.BoolOp):
        vs = [_eval_int(v, env) for v in e.values]
        return all(vs) if isinstance(e.op, ast.And) else any(vs)
    if isinstance(e, ast.UnaryOp) and isinstance(e.op, ast.Not):
        return not _eval_int(e.operand, env)
    if isinstance(e, ast.BinOp):
        a, b = _eval_int(e.left, env), _eval_int(e.right, env)
        return {ast.Add: a + b, ast.Sub: a - b}[type(e.op)]
    raise ValueError(ast.dump(e))


def check_k7(ctx, rep, f):
    """check_max_states: an error is returned iff max_states > 0 and the automaton has more states than allowed"""
    ifs = [n for n in walk_no_nested(f.node) if isinstance(n, ast.If)]
    if len(ifs) != 1 or len(f.pos_params) != 2:
        rep.undecided(RULE + '.K7', f, 'def ' + f.name, 'form not recognised')
        return
    tst = ifs[0]
    lim = f.pos_params[1].arg
    lens = {u(n) for n in ast.walk(tst.test) if isinstance(n, ast.Call) and isinstance(n.func, ast.Name) and n.func.id == 'len'}
    if len(lens) != 1:
        rep.undecided(RULE + '.K7', f, tst, 'no single len() term')
        return
    lname = lens.pop()
    err_in_body = any(isinstance(s, ast.Return) and isinstance(s.value, ast.List) and s.value.elts for s in tst.body)
    try:
        for m in range(0, 4):
            for n in range(0, 6):
                got = bool(_eval_int(tst.test, {lim: m, lname: n}))
                if not err_in_body:
                    got = not got
                want = (m > 0 and n > m)
                if got != want:
                    rep.violates(RULE + '.K7', f, tst, 'state limit polarity: with {}={} and {} states an error is {} but should {}be reported'.format(
                        lim, m, n, 'reported' if got else 'not reported', '' if want else 'not '))
                    return
    except (ValueError, KeyError) as e:
        rep.undecided(RULE + '.K7', f, tst, 'test outside the integer fragment: {}'.format(e))
        return
    rep.holds(RULE + '.K7', f, tst, 'error iff 0 < limit < number of states (24 integer cases evaluated on the extracted comparison)')


def check_k8(ctx, rep, f, roles: Roles):
    """a checker that walks the ROWS OF THE ANSWER and compares each with a cell of a reference-derived table judges only
    the rows that are there: the number of answer rows must be compared with a reference-derived size, otherwise a
    truncated answer is accepted."""
    vr = roles.var_roles(f)

    def only(e, role):
        rs = Roles.expr_roles(e, vr)
        return rs == {role}

    n = 0
    for loop in walk_no_nested(f.node):
        if not isinstance(loop, ast.For) or not only(loop.iter, 'answer'):
            continue
        # positional comparison against a reference table inside the loop
        tables = []
        for s in ast.walk(loop):
            if isinstance(s, ast.Subscript) and isinstance(s.ctx, ast.Load) and isinstance(s.value, ast.Name) and vr.get(s.value.id) == {'reference'} \
                    and Roles.expr_roles(s.slice, vr) == {'answer'}:
                tables.append(s)
        if not tables:
            continue
        # outermost loops only (the row loop)
        if any(isinstance(o, ast.For) and o is not loop and any(x is loop for x in ast.walk(o)) and only(o.iter, 'answer') for o in walk_no_nested(f.node)):
            continue
        n += 1
        found = None
        for t in walk_no_nested(f.node):
            if not isinstance(t, ast.If):
                continue
            for c in ast.walk(t.test):
                if not (isinstance(c, ast.Compare) and len(c.ops) == 1):
                    continue
                sides = [c.left, c.comparators[0]]
                for a, b in (sides, sides[::-1]):
                    has_len = any(isinstance(x, ast.Call) and isinstance(x.func, ast.Name) and x.func.id == 'len' and x.args and only(x.args[0], 'answer') for x in ast.walk(a))
                    if has_len and only(a, 'answer') and only(b, 'reference'):
                        found = c
        if found is not None:
            rep.holds(RULE + '.K8', f, loop, 'the number of answer rows is compared with a reference-derived size ({}): a truncated answer is rejected'.format(u(found)))
        else:
            rep.violates(RULE + '.K8', f, loop, 'the rows of the answer are compared position by position with the reference table {} but the NUMBER of answer rows is never compared with a size derived from the reference: an answer with rows missing is judged only on the rows that are there and gets OK'.format(u(tables[0].value)))
    return n


def check_k9(ctx, rep, f, roles: Roles):
    """state names of a submitted automaton are arbitrary spellings: a checker that owns a DECODER for them (a nested helper
    turning a label into the set of states it stands for) must compare answer labels with reference-derived names through
    that decoder, never as raw text -- `{q1,q0}` and `{q0,q1}` are the same subset"""
    decoders = [g for g in f.nested.values() if len([p for p in g.params]) == 1 and any(
        isinstance(r, ast.Return) and r.value is not None and isinstance(r.value, ast.Call) and isinstance(r.value.func, ast.Name) and r.value.func.id == 'set' for r in walk_no_nested(g.node))
        and any(isinstance(c, ast.Call) and isinstance(c.func, ast.Attribute) and c.func.attr == 'split' for c in ast.walk(g.node))]
    if not decoders:
        return 0
    dec = {g.name for g in decoders}
    vr = roles.var_roles(f)
    n = 0

    decoded = set()
    for st0 in walk_no_nested(f.node):
        if isinstance(st0, (ast.Assign, ast.AnnAssign)) and getattr(st0, 'value', None) is not None and isinstance(st0.value, ast.Call) and isinstance(st0.value.func, ast.Name) and st0.value.func.id in dec:
            for t0 in (st0.targets if isinstance(st0, ast.Assign) else [st0.target]):
                if isinstance(t0, ast.Name):
                    decoded.add(t0.id)
    for st0 in walk_no_nested(f.node):
        # a name that is also bound to something else is not known to be decoded
        if isinstance(st0, (ast.Assign, ast.AnnAssign)) and getattr(st0, 'value', None) is not None and not (isinstance(st0.value, ast.Call) and isinstance(st0.value.func, ast.Name) and st0.value.func.id in dec):
            for t0 in (st0.targets if isinstance(st0, ast.Assign) else [st0.target]):
                if isinstance(t0, ast.Name):
                    decoded.discard(t0.id)

    def raw_role(e):
        # role of an expression that is NOT wrapped by the decoder
        if isinstance(e, ast.Call) and isinstance(e.func, ast.Name) and e.func.id in dec:
            return None
        if isinstance(e, ast.Name) and e.id in decoded:
            return None     # the value IS the decoder's output (a set of states), not a label
        rs = Roles.expr_roles(e, vr)
        return next(iter(rs)) if len(rs) == 1 else None

    for c in walk_no_nested(f.node):
        if not (isinstance(c, ast.Compare) and len(c.ops) == 1 and isinstance(c.ops[0], (ast.In, ast.NotIn, ast.Eq, ast.NotEq))):
            continue
        a, b = c.left, c.comparators[0]
        ra, rb = raw_role(a), raw_role(b)
        if {ra, rb} != {'answer', 'reference'}:
            continue
        # only names of states are at stake: skip alphabets and sizes
        txt = u(c)
        if any(k in txt for k in ('Sigma', 'len(')):
            continue
        n += 1
        rep.violates(RULE + '.K9', f, c, '`{}` compares a state name of the answer with names computed by the library as raw text, although this checker decodes labels with {}(): an answer that spells a subset as {{q1,q0}} instead of {{q0,q1}} is judged by its spelling, so a wrong marking can pass and a right one fail'.format(txt, sorted(dec)[0]))
    if n == 0:
        rep.holds(RULE + '.K9', f, 'def ' + f.name, 'answer labels meet reference-derived names only through the decoder {}()'.format(sorted(dec)[0]))
        n = 1
    return n



def check_compare_languages(ctx, rep, f):
    """K4 / K5 for compare_languages(answer, reference), decided on a finite model with the analyser's evaluator: all 256
    pairs of subsets of the words {'', 'a', 'b', 'ab'}.  Required: no feedback exactly when the two sets are equal;
    otherwise one message naming a word that really lies in the difference it is reported for ("should not be accepted":
    in answer - reference, "should be accepted": in reference - answer) and is of minimal length in that difference (the
    empty word printed as the epsilon character); the arguments are left untouched.  The function only forms set
    differences and compares lengths, so four words of three lengths cover its case distinctions.  Outside the evaluator's
    fragment the syntactic form of the rule is used."""
    import itertools
    import re as _re
    from ..miniexec import Interp, Raised
    from ..abseval import Unsupported
    words = ['', 'a', 'b', 'ab']
    subsets = [set(c) for k in range(len(words) + 1) for c in itertools.combinations(words, k)]
    bad = None
    runs = 0
    try:
        for A1 in subsets:
            for A2 in subsets:
                a1, a2 = set(A1), set(A2)
                try:
                    r = Interp(ctx).call(f, [a1, a2])
                except Raised as ex:
                    bad = 'for the answer {} and the reference {} the comparison raises {}'.format(sorted(A1), sorted(A2), ex.name)
                    break
                runs += 1
                show = lambda S: '{' + ', '.join(repr(w) for w in sorted(S)) + '}'
                if a1 != A1 or a2 != A2:
                    bad = 'the comparison changes the language it was given ({} became {})'.format(show(A1 if a1 != A1 else A2), show(a1 if a1 != A1 else a2))
                    break
                if not isinstance(r, list) or not all(isinstance(x, str) for x in r):
                    raise Unsupported('feedback is not a list of messages')
                if A1 == A2:
                    if r:
                        bad = 'equal languages {} get the feedback {!r}'.format(show(A1), r[0])
                        break
                    continue
                if not r:
                    bad = 'the answer {} and the reference {} differ, but no feedback is given (the checker prints OK)'.format(show(A1), show(A2))
                    break
                m = _re.search(r"word '(.*?)' should (not )?be accepted", r[0])
                if len(r) != 1 or not m:
                    raise Unsupported('form of the feedback message: {!r}'.format(r[0]))
                w = '' if m.group(1) in ('ε', '_') else m.group(1)
                diff = (A1 - A2) if m.group(2) else (A2 - A1)
                kind = 'should not be accepted' if m.group(2) else 'should be accepted'
                if w not in diff:
                    bad = 'for the answer {} and the reference {} the feedback says that {!r} {}, but that word is {}'.format(
                        show(A1), show(A2), w or 'ε', kind, 'in both languages' if (w in A1 and w in A2) else ('in neither language' if (w not in A1 and w not in A2) else 'on the other side (wrong polarity)'))
                    break
                if len(w) != min(len(x) for x in diff):
                    bad = 'for the answer {} and the reference {} the feedback names {!r}, but the shorter word {!r} is in the same difference: the counterexample is not of minimal length'.format(
                        show(A1), show(A2), w, min(diff, key=len) or 'ε')
                    break
            if bad:
                break
    except Unsupported as e:
        rep.note('{}: finite-model evaluation not applicable ({}); syntactic rule used'.format(f.short, e))
        return _check_compare_languages_syntactic(ctx, rep, f)
    if bad:
        rep.violates(RULE + '.K4', f, 'def ' + f.name, bad)
    else:
        rep.holds(RULE + '.K4', f, 'def ' + f.name, 'on all {} pairs of languages over four words: feedback exactly when the languages differ, the named word lies in the difference it is reported for (right polarity)'.format(runs))
        rep.holds(RULE + '.K5', f, 'def ' + f.name, 'the named word is of minimal length in its difference on all {} pairs'.format(runs))


def check_k10(ctx, rep, f, roles: Roles, rule=RULE + '.K10'):
    """check_dfa_minimal: the languages are compared only up to a length bound, so the number of states is what tells a
    minimal answer from a non-minimal one AND from a smaller automaton that agrees on all short words.  The state sets
    are touched only through a comparison of their sizes: on each of the three orderings (answer smaller / equal /
    larger than the quotient) the size tests of the checker (its own and those of the local helpers it hands the two
    automata to) are evaluated, and feedback must be produced exactly when the sizes differ."""
    from .models import resolve_alias
    vr = roles.var_roles(f)
    MIN = ('dfa_quotient', 'dfa_minimize', 'dfa_hopfcroft')
    # the reference is minimised:  D = dfa_quotient(D) / reference = dfa_quotient(parse_dfa(dfa))
    role0 = {}
    for st in walk_no_nested(f.node):
        if isinstance(st, ast.Assign) and len(st.targets) == 1 and isinstance(st.targets[0], ast.Name) and isinstance(st.value, ast.Call) \
                and ctx.callee_name(f, st.value) in MIN:
            role0[st.targets[0].id] = 'reference'
    if not role0:
        return 0
    for name, rs in vr.items():
        if rs == {'answer'} and name not in role0:
            role0[name] = 'answer'

    def analyse(g, role):
        """size tests of g: (if statement, feedback in body, feedback in else, evaluator)"""
        pair = {}
        for st in walk_no_nested(g.node):
            if isinstance(st, ast.Assign) and len(st.targets) == 1 and isinstance(st.targets[0], ast.Tuple) and isinstance(st.value, ast.Tuple) \
                    and len(st.targets[0].elts) == len(st.value.elts):
                for t0, v0 in zip(st.targets[0].elts, st.value.elts):
                    if isinstance(t0, ast.Name):
                        pair[t0.id] = v0

        def size_term(e, depth=0):
            if isinstance(e, ast.Call) and isinstance(e.func, ast.Name) and e.func.id == 'len' and len(e.args) == 1:
                a = e.args[0]
                if isinstance(a, ast.Attribute) and a.attr == 'Q' and isinstance(a.value, ast.Name):
                    return role.get(a.value.id)
            if isinstance(e, ast.Name) and str(role.get(e.id, '')).startswith('size:'):
                return role[e.id][5:]
            if isinstance(e, ast.Name) and depth < 4:
                if e.id in pair:
                    return size_term(pair[e.id], depth + 1)
                r = resolve_alias(g, e)
                if r is not e:
                    return size_term(r, depth + 1)
            return None

        def ev(e, va, vb, depth=0):
            if isinstance(e, ast.BoolOp):
                vals = [ev(v, va, vb, depth) for v in e.values]
                return all(vals) if isinstance(e.op, ast.And) else any(vals)
            if isinstance(e, ast.UnaryOp) and isinstance(e.op, ast.Not):
                return not ev(e.operand, va, vb, depth)
            if isinstance(e, ast.Compare):
                vals = []
                for x in [e.left] + list(e.comparators):
                    t = size_term(x)
                    if t is None:
                        raise ValueError(u(x))
                    vals.append(va if t == 'answer' else vb)
                ops = {ast.Eq: lambda p, q: p == q, ast.NotEq: lambda p, q: p != q, ast.Lt: lambda p, q: p < q, ast.LtE: lambda p, q: p <= q,
                       ast.Gt: lambda p, q: p > q, ast.GtE: lambda p, q: p >= q}
                if any(type(o) not in ops for o in e.ops):
                    raise ValueError(u(e))
                return all(ops[type(o)](p, q) for o, p, q in zip(e.ops, vals, vals[1:]))
            if isinstance(e, ast.Name) and depth < 4:
                r = resolve_alias(g, e)
                if r is not e:
                    return ev(r, va, vb, depth + 1)
            raise ValueError(u(e))

        def appends(stmts):
            return any(isinstance(c, ast.Call) and isinstance(c.func, ast.Attribute) and c.func.attr in ('append', 'extend') and isinstance(c.func.value, ast.Name)
                       for s0 in stmts for c in ast.walk(s0)) or any(isinstance(s0, ast.AugAssign) and isinstance(s0.target, ast.Name) for s0 in stmts)
        out = []
        for st in walk_no_nested(g.node):
            if not isinstance(st, ast.If):
                continue
            def terms(e, depth=0):
                ts = set()
                for x in ast.walk(e):
                    t = size_term(x)
                    if t is not None:
                        ts.add(t)
                    elif isinstance(x, ast.Name) and depth < 3:
                        r = pair.get(x.id) or resolve_alias(g, x)
                        if r is not x:
                            ts |= terms(r, depth + 1)
                return ts
            if terms(st.test) != {'answer', 'reference'}:
                continue
            in_body, in_else = appends(st.body), appends(st.orelse)
            # `if <sizes agree>: return []` followed by `return [message]`: the code after the test is its else branch
            if not st.orelse and st.body and isinstance(st.body[-1], ast.Return):
                for blk in ast.walk(g.node):
                    for fld in ('body', 'orelse'):
                        lst = getattr(blk, fld, None)
                        if isinstance(lst, list) and st in lst:
                            rest = lst[lst.index(st) + 1:]
                            if appends(rest) or any(isinstance(r0, ast.Return) and isinstance(r0.value, ast.List) and r0.value.elts for r0 in rest):
                                in_else = True
            if any(isinstance(r0, ast.Return) and isinstance(r0.value, ast.List) and r0.value.elts for r0 in st.body):
                in_body = True
            out.append((g, st, in_body, in_else, ev))
        return out

    tests = analyse(f, role0)

    def size_role_here(e):
        if isinstance(e, ast.Call) and isinstance(e.func, ast.Name) and e.func.id == 'len' and len(e.args) == 1 and isinstance(e.args[0], ast.Attribute) \
                and e.args[0].attr == 'Q' and isinstance(e.args[0].value, ast.Name):
            return role0.get(e.args[0].value.id)
        return None
    # local helpers that are handed both automata, or both sizes
    for c in ctx.prog.calls_in(f):
        cal = ctx.callee(f, c)
        if cal is None or cal is f or not (cal.parent is f or cal.module is f.module):
            continue
        names = [a.arg for a in cal.node.args.args] + [a.arg for a in cal.node.args.kwonlyargs]
        bound = list(zip([a.arg for a in cal.node.args.args], c.args)) + [(k.arg, k.value) for k in c.keywords if k.arg in names]
        role1 = {}
        for p0, a0 in bound:
            if isinstance(a0, ast.Name) and a0.id in role0:
                role1[p0] = role0[a0.id]
            elif size_role_here(a0) is not None:
                role1[p0] = 'size:' + size_role_here(a0)
        if {str(v).replace('size:', '') for v in role1.values()} == {'answer', 'reference'}:
            tests += analyse(cal, role1)
    if not tests:
        # is there any size of a state set anywhere in the checker?  if so the form is not recognised; if not, nothing compares sizes
        units = [f] + list(f.nested.values())
        any_len = any(isinstance(x, ast.Call) and isinstance(x.func, ast.Name) and x.func.id == 'len' and x.args and isinstance(x.args[0], ast.Attribute) and x.args[0].attr == 'Q'
                      for g in units for x in ast.walk(g.node))
        calls_out = any(ctx.callee(f, c) is not None and ctx.callee(f, c).module is f.module and ctx.callee(f, c).parent is None and not ctx.callee(f, c).name.startswith(('parse_', 'print_'))
                        and any(isinstance(a0, ast.Name) and a0.id in role0 for a0 in c.args) for c in ctx.prog.calls_in(f))
        if any_len or calls_out:
            rep.undecided(rule, f, 'def ' + f.name, 'sizes of state sets are used, but not in a recognised comparison of the answer with the minimised reference')
        else:
            rep.violates(rule, f, 'def ' + f.name, 'the number of states of the answer is never compared with that of the minimised reference: the languages are compared only up to the length bound, so a non-minimal answer (and a smaller automaton that agrees on the short words) gets OK')
        return 1
    try:
        for (va, vb, what) in ((1, 2, 'fewer states than'), (2, 2, 'as many states as'), (3, 2, 'more states than')):
            fb = False
            for g, st, in_body, in_else, ev in tests:
                v = ev(st.test, va, vb)
                if (v and in_body) or (not v and in_else):
                    fb = True
            want = va != vb
            if fb != want:
                rep.violates(rule, tests[0][0], tests[0][1], 'for an answer with {} the minimised reference the size test{} {} feedback: {}'.format(
                    what, 's' if len(tests) > 1 else '', 'produces' if fb else 'produces no',
                    'the languages are compared only up to the length bound, so an automaton with too few states that agrees on all short words is accepted as the minimal DFA' if va < vb
                    else ('a non-minimal answer is accepted' if va > vb else 'a correct answer is rejected')))
                return 1
    except ValueError as e:
        rep.undecided(rule, tests[0][0], tests[0][1], 'size test outside the fragment: {}'.format(e))
        return 1
    rep.holds(rule, tests[0][0], tests[0][1], 'feedback is produced exactly when the number of states of the answer differs from that of the minimised reference (three orderings evaluated)')
    return 1
