"""R-STATE -- configuration is read when used; flags only print; hidden state is inventoried and
cross-call memos are violations."""
import ast

from ..astutil import u, names_in, walk_no_nested
from ..model import norm
from .effect import PURE_MODULES

RULE = 'R-STATE'
PRINTERS = {'print', 'log', 'display', 'print_tm_state', 'print_table', 'header'}


def _is_settings_attr(ctx, f_or_none, module, e):
    if not (isinstance(e, ast.Attribute) and isinstance(e.value, ast.Name)):
        return False
    r = ctx.prog.resolve_name(f_or_none, module, e.value.id)
    return r is not None and r.kind == 'class' and r.target.name == 'GambaTools'


def check_config_reads(ctx, rep, modules=None):
    """(a) every read of GambaTools.<setting> happens inside a function body at call time"""
    n = 0
    for m in ctx.prog.modules.values():
        if m.name.startswith('template:'):
            continue
        # module level and class level
        func_nodes = {id(x) for f in ctx.prog.functions.values() if f.module is m for x in ast.walk(f.node)}
        for e in ast.walk(m.tree):
            if id(e) in func_nodes:
                continue
            if _is_settings_attr(ctx, None, m, e):
                n += 1
                rep.violates(RULE + '.a', m.base + ':<module>', e, 'the setting {} is read at import time and frozen in a module-level value: later changes of the setting are ignored'.format(u(e)))
        for f in ctx.prog.functions.values():
            if f.module is not m:
                continue
            defaults = list(f.node.args.defaults) + [d for d in f.node.args.kw_defaults if d is not None]
            in_default = {id(x) for d in defaults for x in ast.walk(d)}
            for e in ast.walk(f.node):
                if isinstance(e, (ast.FunctionDef,)) and e is not f.node:
                    continue
                if not _is_settings_attr(ctx, f, m, e):
                    continue
                # nested function nodes are visited with their own FuncInfo
                owner = [g for g in f.nested.values() if any(x is e for x in ast.walk(g.node))]
                if owner:
                    continue
                n += 1
                if id(e) in in_default:
                    rep.violates(RULE + '.a', f, e, 'the setting {} is captured in a default argument, i.e. evaluated once at import time: whatever value the setting is given later is ignored'.format(u(e)))
                elif isinstance(e.ctx, ast.Store):
                    rep.violates(RULE + '.a', f, e, 'the library writes the configuration setting {}'.format(u(e)))
                else:
                    rep.holds(RULE + '.a', f, e, 'setting read inside the function body at call time')
    return n


def _only_prints(stmts):
    for s in stmts:
        if isinstance(s, ast.Expr) and isinstance(s.value, ast.Call):
            fn = s.value.func
            name = fn.id if isinstance(fn, ast.Name) else (fn.attr if isinstance(fn, ast.Attribute) else None)
            if name in PRINTERS:
                continue
            return s
        if isinstance(s, (ast.For, ast.If)):
            bad = _only_prints(s.body) or _only_prints(s.orelse)
            if bad is not None:
                return bad
            continue
        if isinstance(s, ast.Pass):
            continue
        return s
    return None


def check_flag_guarded(ctx, rep, funcs):
    """(b) statements control-dependent on the logging switch or a verbose parameter only print"""
    n = 0
    for f in funcs:
        for s in walk_no_nested(f.node):
            if not isinstance(s, ast.If):
                continue
            names = names_in(s.test)
            is_flag = ('verbose' in names and 'verbose' in _all_params(f)) or any(_is_settings_attr(ctx, f, f.module, e) and e.attr == 'enable_logging' for e in ast.walk(s.test))
            if not is_flag:
                continue
            n += 1
            bad = _only_prints(s.body) or _only_prints(s.orelse)
            if bad is None:
                rep.holds(RULE + '.b', f, s, 'code guarded by the logging/verbose flag only prints')
            else:
                rep.violates(RULE + '.b', f, bad, 'a statement other than printing is control-dependent on the logging/verbose flag: switching logging changes the computation')
    return n


def _all_params(f):
    out = set()
    g = f
    while g is not None:
        out |= set(g.params)
        g = g.parent
    return out


def _is_container_init(v):
    if isinstance(v, (ast.Dict, ast.Set, ast.List, ast.DictComp, ast.SetComp, ast.ListComp)):
        return True
    if isinstance(v, ast.Call):
        fn = v.func
        name = fn.id if isinstance(fn, ast.Name) else (fn.attr if isinstance(fn, ast.Attribute) else None)
        return name in ('dict', 'set', 'list', 'defaultdict', 'OrderedDict', 'WeakKeyDictionary', 'WeakValueDictionary')
    return False


def reachable_functions(ctx, roots, stop=None):
    """top-level functions reachable from the roots through resolved calls (including nested helpers); with ``stop`` the
    functions for which it answers True are not entered (nor reported)"""
    seen = {}
    work = list(roots)
    while work:
        f = work.pop()
        top = f
        while top.parent is not None:
            top = top.parent
        if top.qualname in seen:
            continue
        if stop is not None and stop(top):
            continue
        seen[top.qualname] = top
        units = [top]
        stack = [top]
        while stack:
            g = stack.pop()
            for nf in g.nested.values():
                units.append(nf)
                stack.append(nf)
        for g in units:
            for c in ctx.prog.calls_in(g):
                r = ctx.resolve_call(g, c)
                if r is not None and r.kind == 'func':
                    work.append(r.target)
                elif r is not None and r.kind == 'class':
                    init = ctx.prog.find_method(r.target, '__init__')
                    if init is not None:
                        work.append(init)
            # functions handed around as values (a dispatch table, a callback argument) are called by whoever receives
            # them: a reference in argument / table position counts as a call edge
            for n in ast.walk(g.node):
                cands = []
                if isinstance(n, ast.Call):
                    cands = list(n.args) + [k.value for k in n.keywords]
                elif isinstance(n, (ast.Tuple, ast.List, ast.Set)):
                    cands = list(n.elts)
                elif isinstance(n, ast.Dict):
                    cands = list(n.values)
                for c in cands:
                    if isinstance(c, (ast.Name, ast.Attribute)) and isinstance(getattr(c, 'ctx', None), ast.Load):
                        if isinstance(c, ast.Name) and (c.id in g.params or c.id in ('self', 'None', 'True', 'False')):
                            continue
                        try:
                            r = ctx.prog.resolve_expr(g, g.module, c)
                        except Exception:
                            r = None
                        if r is not None and r.kind == 'func':
                            work.append(r.target)
    return seen


def check_hidden_state(ctx, rep, modules=PURE_MODULES, roots=None):
    """(c) inventory of module-level objects / default-argument objects written by library functions; a cross-call
    memo (container written by one call and read by a later call of a value-returning operation) is a violation.
    With ``roots`` only functions reachable from them through the call graph are considered."""
    eff = ctx.effects
    inventory = []
    scope = reachable_functions(ctx, roots) if roots is not None else None
    for q, s in sorted(eff.summaries.items()):
        f = ctx.prog.functions[q]
        base = f.module.base[:-3]
        if scope is not None:
            if q not in scope:
                continue
        elif base not in modules:
            continue
        # memoising decorators
        for d in f.node.decorator_list:
            r = ctx.prog.resolve_expr(f, f.module, d.func if isinstance(d, ast.Call) else d)
            name = r.name if r is not None else u(d)
            if any(k in name for k in ('lru_cache', 'functools.cache', 'cached', 'memo')) or name in ('cache',):
                rep.violates(RULE + '.c', f, '@' + u(d), 'the results of {} are memoised across calls, keyed by the identity of mutable operands: after an in-place operation on an operand a later call returns the stale result'.format(f.name))
        # module-level containers written and read
        for g in sorted(s.gwrites):
            if g.startswith('class:'):
                inventory.append('{} writes class attribute {}'.format(f.short, g))
                continue
            modname, _, gname = g.rpartition('.')
            m = ctx.prog.modules.get(modname)
            init = m.globals.get(gname) if m is not None else None
            direct = [x for x in s.gwrite_sites.get(g, []) if not x[2].startswith('via call')]
            if not direct:
                continue
            is_container = init is not None and _is_container_init(init)
            if is_container and g in s.greads and base in modules:
                site = direct[0]
                rep.violates(RULE + '.c', f, site[1], 'the module-level container {} is written by one call of {} and read by later calls (a cross-call memo): results depend on the call history and go stale after in-place operations'.format(gname, f.name))
            else:
                inventory.append('{} writes module-level {} ({})'.format(f.short, gname, 'container' if is_container else 'counter/scalar'))
                rep.holds(RULE + '.c', f, 'global ' + gname, 'module-level {} is a display counter / scalar, not a memo feeding results (inventoried)'.format(gname), nontrivial=False)
        # default-argument objects
        for i, p in enumerate(f.pos_params):
            d = f.defaults.get(p.arg)
            if d is None or isinstance(d, ast.Constant):
                continue
            mutable_default = _is_container_init(d) or (isinstance(d, ast.Call) and not _is_container_init(d) and not (isinstance(d.func, ast.Name) and d.func.id in ('frozenset', 'tuple', 'Symbol', 'State', 'Terminal', 'Variable', 'Direction'))
                                                        and not isinstance(ctx.prog.resolve_expr(f, f.module, d.func), type(None)) and getattr(ctx.prog.resolve_expr(f, f.module, d.func), 'kind', '') == 'class')
            if not mutable_default:
                continue
            mutated = any(k[0] == i for k in s.mut)
            if _is_container_init(d) and mutated and base in modules:
                rep.violates(RULE + '.c', f, 'parameter {} = {}'.format(p.arg, u(d)), 'the default-argument container {} is mutated by the call: it persists between calls (a hidden cross-call store)'.format(p.arg))
            elif mutated:
                inventory.append('{}: default-argument object {} = {} is mutated across calls (name generator)'.format(f.short, p.arg, u(d)))
                rep.holds(RULE + '.c', f, 'parameter {} = {}'.format(p.arg, u(d)), 'shared default generator inventoried; freshness of its names is decided by R-FRESH', nontrivial=False)
    # module-level containers in pure modules that some function writes through a name (not via effects): safety net
    for base in (modules if scope is None else sorted({f.module.base[:-3] for f in scope.values()})):
        try:
            m = ctx.prog.module(base)
        except Exception:
            continue
        for gname, init in m.globals.items():
            if not _is_container_init(init):
                continue
            writers = []
            for f in ctx.prog.funcs_of(base):
                if scope is not None:
                    top = f
                    while top.parent is not None:
                        top = top.parent
                    if top.qualname not in scope:
                        continue
                for n in walk_no_nested(f.node):
                    if isinstance(n, ast.Subscript) and isinstance(n.ctx, ast.Store) and u(n.value) == gname and gname not in f.params:
                        writers.append((f, n))
                    if isinstance(n, ast.Call) and isinstance(n.func, ast.Attribute) and u(n.func.value) == gname and n.func.attr in ('add', 'append', 'update', 'setdefault') and gname not in f.params:
                        writers.append((f, n))
            for (f, n) in writers:
                already = any(i.where == f.short and gname in i.reason for i in rep.instances if i.rule == RULE + '.c' and i.verdict == 'VIOLATES')
                if not already:
                    rep.violates(RULE + '.c', f, n, 'the module-level container {} is written inside {}: a cross-call store in a value-returning operation'.format(gname, f.name))
    rep.extra['hidden_state_inventory'] = inventory
    return len(inventory)
