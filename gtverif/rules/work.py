"""R-WORK -- worklist, search and fixpoint discipline (W1..W5 and the Hopcroft sub-template)."""
import ast

from ..astutil import u, names_in, walk_no_nested, atoms_of, assigned_names
from ..model import AnalysisError, norm

RULE = 'R-WORK'

# Instances confirmed by reading the pinned tree.  kind: 'search' (graph search: needs a seen-marker),
# 'tree' (tree expansion: every child is a strict sub-span, no marker needed), 'hopcroft'.
# Loops are found by shape in the current source; this table only says what each one *is*.
# keyed by function only: the name of the worklist variable is free (renaming it is a refactoring)
KNOWN_LOOPS = {
    'nfa_algorithms.py:epsilon_closure': 'search',
    'nfa_algorithms.py:nfa_find_epsilon_path': 'search',
    'nfa_algorithms.py:nfa_to_dfa': 'search',
    'pda_algorithms.py:pda_epsilon_closure': 'search',
    'pda_algorithms.py:pda_find_epsilon_path': 'search',
    'dfa_algorithms.py:dfa_isomorphic': 'search',
    'dfa_algorithms.py:dfa_isomorphic1': 'search',
    'dfa_algorithms.py:dfa_hopfcroft': 'hopcroft',
    'cfg_algorithms.py:cfg_derivable_variables': 'search',
    'cfg_algorithms.py:cfg_derive_word': 'tree',
    'cfg_algorithms.py:cfg_derive_word.extract_derivation': 'tree',
}


class WLoop:
    def __init__(self, f, loop, wl, pops):
        self.f = f
        self.loop = loop
        self.wl = wl
        self.pops = pops        # list of (stmt, popped variable name or None)


def _emptiness_names(test):
    """names tested for non-emptiness by a loop condition"""
    out = set()
    for a in atoms_of(test, True):
        if a[0] == 'empty' and a[3] is False:
            out.add(a[1])
        elif a[0] == 'truthy' and a[3] is True:
            out.add(a[1])
    return out


def is_count_loop(loop):
    """for <name> in itertools.count() / count(0) / count(0, 1): an unbounded loop with a built-in pass counter from 0"""
    if not (isinstance(loop, ast.For) and isinstance(loop.target, ast.Name) and isinstance(loop.iter, ast.Call) and not loop.iter.keywords):
        return False
    fn = loop.iter.func
    nm = fn.id if isinstance(fn, ast.Name) else (fn.attr if isinstance(fn, ast.Attribute) and u(fn.value) == 'itertools' else None)
    if nm != 'count':
        return False
    args = loop.iter.args
    return len(args) <= 2 and all(isinstance(a, ast.Constant) for a in args) and [a.value for a in args] in ([], [0], [0, 1])


def _negated_conj(e):
    """conjuncts of `not e`"""
    if isinstance(e, ast.UnaryOp) and isinstance(e.op, ast.Not):
        v = e.operand
        return list(v.values) if isinstance(v, ast.BoolOp) and isinstance(v.op, ast.And) else [v]
    if isinstance(e, ast.BoolOp) and isinstance(e.op, ast.Or):
        return [x for v in e.values for x in _negated_conj(v)]
    if isinstance(e, ast.Compare) and len(e.ops) == 1:
        flip = {ast.Lt: ast.GtE, ast.LtE: ast.Gt, ast.Gt: ast.LtE, ast.GtE: ast.Lt, ast.Eq: ast.NotEq, ast.NotEq: ast.Eq,
                ast.In: ast.NotIn, ast.NotIn: ast.In, ast.Is: ast.IsNot, ast.IsNot: ast.Is}
        return [ast.copy_location(ast.Compare(left=e.left, ops=[flip[type(e.ops[0])]()], comparators=e.comparators), e)]
    return [ast.copy_location(ast.UnaryOp(op=ast.Not(), operand=e), e)]


def loop_conj(loop):
    """The conjuncts under which the loop goes on: those of a while test, and the negations of the tests of the break
    guards that open the body (`while True:` / `for k in count():` followed by `if not todo: break`, `ok = k < limit`,
    `if not ok: break`).  Named conditions defined between the guards are replaced by their definitions."""
    out = []
    test = getattr(loop, 'test', None)
    if test is not None and not (isinstance(test, ast.Constant) and test.value is True):
        out.extend(test.values if isinstance(test, ast.BoolOp) and isinstance(test.op, ast.And) else [test])
    if isinstance(loop, ast.While) and out:
        return out
    env = {}
    for st in loop.body:
        if isinstance(st, ast.Assign) and len(st.targets) == 1 and isinstance(st.targets[0], ast.Name) and isinstance(st.value, (ast.Compare, ast.BoolOp, ast.UnaryOp)) \
                and not any(isinstance(x, ast.Call) and not (isinstance(x.func, ast.Name) and x.func.id == 'len') for x in ast.walk(st.value)):
            env[st.targets[0].id] = st.value
            continue
        if isinstance(st, ast.If) and not st.orelse and len(st.body) == 1 and isinstance(st.body[0], ast.Break):
            t = st.test
            if isinstance(t, ast.Name) and t.id in env:
                t = env[t.id]
            elif isinstance(t, ast.UnaryOp) and isinstance(t.op, ast.Not) and isinstance(t.operand, ast.Name) and t.operand.id in env:
                t = ast.copy_location(ast.UnaryOp(op=ast.Not(), operand=env[t.operand.id]), t)
            out.extend(_negated_conj(t))
            continue
        if isinstance(st, ast.Expr) and isinstance(st.value, ast.Constant):
            continue
        break
    return out


def find_worklist_loops(ctx, f):
    """loops whose continuation condition tests a collection for emptiness and whose body removes an element from it"""
    out = []
    for loop in walk_no_nested(f.node):
        if not (isinstance(loop, ast.While) or is_count_loop(loop)):
            continue
        cands = set()
        for c in loop_conj(loop):
            cands |= _emptiness_names(c)
        if isinstance(loop, ast.While) and isinstance(loop.test, ast.Constant) and loop.test.value is True:
            # while True: ... if not wl: break
            for st in loop.body:
                if isinstance(st, ast.If) and any(isinstance(b, ast.Break) for b in st.body):
                    for a in atoms_of(st.test, True):
                        if a[0] == 'empty' and a[3] is True:
                            cands.add(a[1])
                        if a[0] == 'truthy' and a[3] is False:
                            cands.add(a[1])
        for wl in sorted(cands):
            pops = []
            for st in _loop_stmts(loop):
                for c in ast.walk(st) if isinstance(st, (ast.Assign, ast.AnnAssign, ast.Expr, ast.AugAssign)) else []:
                    if isinstance(c, ast.Call) and isinstance(c.func, ast.Attribute) and isinstance(c.func.value, ast.Name) \
                            and c.func.value.id == wl and c.func.attr in ('pop', 'popleft'):
                        var = None
                        if isinstance(st, ast.Assign) and len(st.targets) == 1:
                            var = st.targets[0]
                        if isinstance(st, ast.AnnAssign) and st.value is not None:
                            var = st.target
                        pops.append((st, var))
                    if isinstance(c, ast.Call) and isinstance(c.func, ast.Attribute) and isinstance(c.func.value, ast.Name) \
                            and c.func.value.id == wl and c.func.attr == 'remove':
                        # x = set_element(wl) / next(iter(wl)) ; wl.remove(x)
                        var = None
                        for st2 in _loop_stmts(loop):
                            if isinstance(st2, ast.Assign) and len(st2.targets) == 1 and isinstance(st2.value, ast.Call):
                                if u(c.args[0]) == u(st2.targets[0]) and wl in names_in(st2.value):
                                    var = st2.targets[0]
                        pops.append((st, var))
            if pops:
                out.append(WLoop(f, loop, wl, pops))
    return out


def _loop_stmts(loop):
    out = []
    stack = list(loop.body)[::-1]
    while stack:
        s = stack.pop()
        if isinstance(s, (ast.FunctionDef, ast.ClassDef)):
            continue
        out.append(s)
        for fld in ('body', 'orelse', 'handlers'):
            for c in getattr(s, fld, [])[::-1] if isinstance(getattr(s, fld, None), list) else []:
                if isinstance(c, ast.ExceptHandler):
                    stack.extend(c.body[::-1])
                else:
                    stack.append(c)
    return out


def _own_breaks(loop):
    """break statements that leave this loop (not a nested one)"""
    out = []
    stack = list(loop.body)
    while stack:
        s = stack.pop()
        if isinstance(s, ast.Break):
            out.append(s)
        if isinstance(s, (ast.For, ast.While, ast.FunctionDef, ast.ClassDef)):
            continue
        for fld in ('body', 'orelse'):
            v = getattr(s, fld, None)
            if isinstance(v, list):
                stack.extend(v)
        for h in getattr(s, 'handlers', []) or []:
            stack.extend(h.body)
    return out


def _enqueue_sites(wl_loop):
    """(stmt, kind, enqueued expr) for growth of the worklist inside the loop"""
    wl = wl_loop.wl
    sites = []
    overwrites = []
    for st in _loop_stmts(wl_loop.loop):
        if isinstance(st, ast.Expr) and isinstance(st.value, ast.Call) and isinstance(st.value.func, ast.Attribute) \
                and isinstance(st.value.func.value, ast.Name) and st.value.func.value.id == wl:
            m = st.value.func.attr
            if m in ('add', 'append'):
                sites.append((st, 'one', st.value.args[0]))
            elif m in ('update', 'extend'):
                sites.append((st, 'many', st.value.args[0]))
            elif m == 'insert':
                sites.append((st, 'one', st.value.args[1]))
        elif isinstance(st, ast.AugAssign) and isinstance(st.target, ast.Name) and st.target.id == wl:
            if isinstance(st.op, (ast.BitOr, ast.Add)):
                sites.append((st, 'many', st.value))
            else:
                overwrites.append(st)
        elif isinstance(st, ast.Assign) and any(isinstance(t, ast.Name) and t.id == wl for t in st.targets):
            v = st.value
            if isinstance(v, ast.BinOp) and isinstance(v.op, (ast.BitOr, ast.Add)) and (u(v.left) == wl or u(v.right) == wl):
                other = v.right if u(v.left) == wl else v.left
                sites.append((st, 'many', other))
            elif isinstance(v, ast.Call) and isinstance(v.func, ast.Attribute) and v.func.attr == 'union' and u(v.func.value) == wl:
                for a in v.args:
                    sites.append((st, 'many', a))
            else:
                overwrites.append(st)
    return sites, overwrites


def _single_def(f, name, within=None):
    defs = []
    for n in walk_no_nested(f.node):
        if isinstance(n, (ast.Assign, ast.AnnAssign)):
            tg = n.targets if isinstance(n, ast.Assign) else [n.target]
            if any(isinstance(t, ast.Name) and t.id == name for t in tg) and getattr(n, 'value', None) is not None:
                defs.append(n)
    return defs


def _derives_from(f, key_text, elem_expr, popvars=()):
    """key (text) is the enqueued element or a function of it (shares a name with it, or is defined from it)."""
    try:
        kn = names_in(ast.parse(key_text, mode='eval'))
    except SyntaxError:
        return False
    en = names_in(elem_expr)
    if kn & en:
        return True
    for k in kn:
        for d in _single_def(f, k):
            if names_in(d.value) & en:
                return True
    return False


def _difference_with(f, v, depth=0):
    """text of S when the expression v is `X - S` / `X.difference(S)`, directly or through a local one-expression helper
    (def unseen(p, seen): return succ(p).difference(seen)  called as  unseen(x, result))"""
    if isinstance(v, ast.BinOp) and isinstance(v.op, ast.Sub):
        return u(v.right)
    if isinstance(v, ast.Call) and isinstance(v.func, ast.Attribute) and v.func.attr == 'difference' and len(v.args) == 1 and not v.keywords:
        return u(v.args[0])
    if isinstance(v, ast.Call) and isinstance(v.func, ast.Name) and v.func.id in f.nested and not v.keywords and depth < 2:
        h = f.nested[v.func.id]
        body = [b for b in h.node.body if not (isinstance(b, ast.Expr) and isinstance(b.value, ast.Constant))]
        if len(body) == 1 and isinstance(body[0], ast.Return) and body[0].value is not None and len(h.params) == len(v.args):
            inner = _difference_with(h, body[0].value, depth + 1)
            if inner in h.params:
                return u(v.args[h.params.index(inner)])
    return None


def _marker_updates(loop, marker, key_text=None):
    """statements in the loop that mark: M.add(k) / M[k] = v / M = M | E / M |= E / M.update(E)"""
    out = []
    for st in _loop_stmts(loop):
        if isinstance(st, ast.Expr) and isinstance(st.value, ast.Call) and isinstance(st.value.func, ast.Attribute) \
                and u(st.value.func.value) == marker and st.value.func.attr in ('add', 'append', 'update'):
            out.append((st, u(st.value.args[0]) if st.value.args else None))
        elif isinstance(st, ast.Assign):
            for t in st.targets:
                if isinstance(t, ast.Subscript) and u(t.value) == marker:
                    out.append((st, u(t.slice)))
                if isinstance(t, ast.Name) and t.id == marker and isinstance(st.value, ast.BinOp) and isinstance(st.value.op, ast.BitOr) \
                        and marker in (u(st.value.left), u(st.value.right)):
                    other = st.value.right if u(st.value.left) == marker else st.value.left
                    out.append((st, u(other)))
                # M = M.union(E)
                if isinstance(t, ast.Name) and t.id == marker and isinstance(st.value, ast.Call) and isinstance(st.value.func, ast.Attribute) and st.value.func.attr == 'union' \
                        and u(st.value.func.value) == marker and len(st.value.args) == 1:
                    out.append((st, u(st.value.args[0])))
        elif isinstance(st, ast.AugAssign) and u(st.target) == marker and isinstance(st.op, ast.BitOr):
            out.append((st, u(st.value)))
    return out


def _norm_key(k):
    k = k.replace(' ', '')
    if k.startswith('(') and k.endswith(')'):
        k = k[1:-1]
    return k


def _silent_drop_atoms(fx, nid, elem_expr, seen_atom, f, loop=None):
    """guard atoms on an enqueue, other than first-visit tests, that mention the enqueued element and whose
    failing branch silently continues (does not leave the function)"""
    cfg = fx.cfg
    en = names_in(elem_expr)
    lab_of = {t: lab for (t, lab, _) in cfg.guards(nid)}
    out = []
    for a in fx.guard_atoms(nid):
        t = a[-1]
        if seen_atom is not None and a[:4] == seen_atom[:4]:
            continue
        if a[0] == 'or':
            continue
        if a[0] == 'in' and a[3] is False and loop is not None and _marker_updates(loop, a[2]):
            continue      # a second first-visit marker
        if not (FuncFactsNames(a) & en):
            continue
        tn = cfg.node[t]
        if tn.kind != 'test' or t not in lab_of:
            continue
        exits = True
        for (s2, lab) in cfg.succ[t]:
            if lab not in (True, False) or lab == lab_of[t]:
                continue
            st = cfg.node[s2].stmt
            if not isinstance(st, (ast.Return, ast.Raise)):
                exits = False
        if not exits:
            out.append(a)
    return out


def FuncFactsNames(a):
    from ..astutil import FuncFacts
    return FuncFacts._atom_names(a)


def check_search_loop(ctx, rep, wl: WLoop):
    f, loop = wl.f, wl.loop
    fx = ctx.facts(f)
    cfg = fx.cfg
    sites, overwrites = _enqueue_sites(wl)
    popvars = [u(v) for _, v in wl.pops if v is not None]
    # W1 -- the worklist is only grown or popped
    for st in overwrites:
        rep.violates(RULE + '.W1', f, st, 'the worklist {} is overwritten inside its loop by an expression that does not contain it: pending elements are dropped'.format(wl.wl))
    if not overwrites:
        rep.holds(RULE + '.W1', f, loop, 'worklist {} is only grown or popped inside the loop ({} growth site(s))'.format(wl.wl, len(sites)))
    if not sites:
        rep.undecided(RULE + '.W2', f, loop, 'no enqueue site recognised')
    # W2 -- every enqueue is dominated by a not-yet-seen test and the element is marked
    markers = set()
    for (st, kind, expr) in sites:
        nid = cfg.n_of(st)
        atoms = list(fx.guard_atoms(nid))
        # an element drawn from a difference  `for x in A - S`  is not in S (the difference is a new set, computed before
        # the loop over it starts; its elements are pairwise distinct, so marking one does not affect the others)
        if isinstance(expr, ast.Name):
            for lp in walk_no_nested(f.node):
                if isinstance(lp, ast.For) and isinstance(lp.target, ast.Name) and lp.target.id == expr.id and any(x is st for x in ast.walk(lp)):
                    it = lp.iter
                    if isinstance(it, ast.Name):
                        ds = _single_def(f, it.id)
                        it = ds[0].value if len(ds) == 1 else it
                    if isinstance(it, ast.BinOp) and isinstance(it.op, ast.Sub):
                        atoms.append(('in', expr.id, u(it.right), False))
                    elif isinstance(it, ast.Call) and isinstance(it.func, ast.Attribute) and it.func.attr == 'difference' and len(it.args) == 1:
                        atoms.append(('in', expr.id, u(it.args[0]), False))
        # guard at the pop: `x = wl.pop(); if x not in seen: seen.add(x); wl.extend(successors of x)` -- every element is
        # EXPANDED at most once, however often it is enqueued, so the search terminates and misses nothing
        pop_names = {u(v) for (_, v) in wl.pops if v is not None}
        pg = [a for a in atoms if a[0] == 'in' and a[3] is False and a[1] in pop_names]
        if pg:
            marker = pg[0][2]
            ups = [m for m in _marker_updates(loop, marker) if m[1] is not None and _norm_key(m[1]) == _norm_key(pg[0][1])]
            if ups:
                markers.add(marker)
                rep.holds(RULE + '.W2', f, st, 'expansion dominated by `{} not in {}` on the popped element, and {} is updated with it: every element is expanded at most once'.format(pg[0][1], marker, marker))
                continue
        if kind == 'one':
            ok = None
            for a in atoms:
                if a[0] == 'in' and _derives_from(f, a[1], expr):
                    marker = a[2]
                    if a[3] is True:
                        if not _marker_updates(loop, marker):
                            continue        # a presence test on a map the loop never updates (a successor table), not a seen-marker
                        ok = ('bad', 'the first-visit guard `{} in {}` has positive polarity: only already-seen elements are enqueued'.format(a[1], marker))
                        break
                    ups = [m for m in _marker_updates(loop, marker) if m[1] is not None and (_norm_key(m[1]) == _norm_key(a[1]) or _derives_pop(f, m[1], popvars))]
                    if not ups:
                        ok = ('bad', 'elements are enqueued under `{} not in {}` but {} is never updated with them: an element on a cycle is enqueued forever'.format(a[1], marker, marker))
                    else:
                        ok = ('ok', marker, a[1])
                    break
                if a[0] == 'truthy' and a[1].startswith(tuple(m + '[' for m in names_in(ast.parse(a[1], mode='eval')))) and '[' in a[1]:
                    marker = a[1].split('[', 1)[0]
                    key = a[1][len(marker) + 1:-1]
                    if not _derives_from(f, key, expr):
                        continue
                    if a[3] is True:
                        ok = ('bad', 'the first-visit guard `{}` has positive polarity: a pair is enqueued only if it is already marked'.format(a[1]))
                        break
                    ups = [m for m in _marker_updates(loop, marker) if m[1] is not None and _norm_key(m[1]) == _norm_key(key)]
                    if not ups:
                        ok = ('bad', '{} is tested but never set for the enqueued element'.format(a[1]))
                    else:
                        ok = ('ok', marker, key)
                    break
            if ok is None:
                rep.violates(RULE + '.W2', f, st, 'enqueue of {} is not dominated by a not-yet-seen test keyed by the element: on a cyclic graph the search does not terminate'.format(u(expr)))
            elif ok[0] == 'bad':
                rep.violates(RULE + '.W2', f, st, ok[1])
            else:
                markers.add(ok[1])
                seen_test = [a for a in atoms if (a[0] == 'in' and a[2] == ok[1]) or (a[0] == 'truthy' and a[1].startswith(ok[1] + '['))]
                drops = _silent_drop_atoms(fx, nid, expr, seen_test[0] if seen_test else None, f, loop)
                drops = [d for d in drops if not (d[0] == 'in' and d[2] in markers)]
                # a condition on the POPPED element (does it have successors at all?) drops no successor
                drops = [d for d in drops if not (len(d) > 1 and d[1] in pop_names)]
                if drops:
                    d = drops[0]
                    rep.violates(RULE + '.W2', f, st, 'besides the first-visit test the enqueue of {} depends on a further condition on the successor ({} {}), whose failure silently drops an unseen element: reachable elements can be missed'.format(
                        u(expr), d[0], d[1]))
                else:
                    rep.holds(RULE + '.W2', f, st, 'enqueue dominated by `{} not in {}` and {} is updated with the same key'.format(ok[2], ok[1], ok[1]))
        else:
            # difference form: E = succ - seen ; seen = seen | E ; wl = wl | E
            ok = False
            reason = 'bulk enqueue of {} is not the difference of the successors and a seen-set that is then grown by it'.format(u(expr))
            if isinstance(expr, ast.Name):
                defs = [d for d in _single_def(f, expr.id)]
                for d in defs:
                    v = d.value
                    seen = _difference_with(f, v)
                    if seen is not None:
                        ups = [m for m in _marker_updates(loop, seen) if m[1] == expr.id]
                        if ups:
                            ok = True
                            markers.add(seen)
                            reason = 'bulk enqueue of {} = successors - {} and {} is grown by it'.format(expr.id, seen, seen)
                        else:
                            reason = '{} is computed as a difference with {} but {} never receives it'.format(expr.id, seen, seen)
            if ok:
                rep.holds(RULE + '.W2', f, st, reason)
            else:
                rep.violates(RULE + '.W2', f, st, reason + ': elements on a cycle are enqueued forever')
    # W3 -- predecessor maps written only under the first-visit guard
    for st in _loop_stmts(loop):
        if isinstance(st, ast.Assign) and len(st.targets) == 1 and isinstance(st.targets[0], ast.Subscript) \
                and isinstance(st.targets[0].value, ast.Name) and u(st.value) in popvars:
            bmap = st.targets[0].value.id
            if bmap in markers or bmap == wl.wl:
                continue
            key = u(st.targets[0].slice)
            atoms = fx.guard_atoms(cfg.n_of(st))
            good = any(a[0] == 'in' and a[3] is False and a[2] in markers and _norm_key(a[1]) == _norm_key(key) for a in atoms)
            if good:
                rep.holds(RULE + '.W3', f, st, 'predecessor map {} is written only on first visit of {}'.format(bmap, key))
            else:
                rep.violates(RULE + '.W3', f, st, 'predecessor map {}[{}] is written outside the first-visit guard: a later edge overwrites the backpointer and the map can become cyclic, so the path reconstruction need not terminate'.format(bmap, key))
    # W4 -- exits
    check_exits(ctx, rep, wl)
    # the accumulated result (a seen-marker that is returned) is returned only after the loop has run to exhaustion
    loop_node = cfg.n_of(loop)
    for r in [x for x in walk_no_nested(f.node) if isinstance(x, ast.Return) and isinstance(x.value, ast.Name) and x.value.id in markers]:
        if cfg.dominates(loop_node, cfg.n_of(r)):
            rep.holds(RULE + '.W4', f, r, 'the saturated set {} is returned only after the loop'.format(x.value.id) if False else 'the saturated set {} is returned only after the loop'.format(r.value.id), nontrivial=False)
        else:
            rep.violates(RULE + '.W4', f, r, 'the set {} is returned on a path that bypasses the saturation loop: the result is not closed under the successor relation'.format(r.value.id))
    return markers


def _derives_pop(f, key_text, popvars):
    try:
        kn = names_in(ast.parse(key_text, mode='eval'))
    except SyntaxError:
        return False
    pv = set()
    for p in popvars:
        try:
            pv |= names_in(ast.parse(p, mode='eval'))
        except SyntaxError:
            pass
    # names unpacked / copied from the popped element count as the popped element: (q1, q2) = pair
    for _ in range(3):
        for st in walk_no_nested(f.node):
            if isinstance(st, ast.Assign) and isinstance(st.value, (ast.Name, ast.Subscript, ast.Attribute)) and names_in(st.value) & pv and names_in(st.value) <= pv | set():
                for t in st.targets:
                    pv |= names_in(t)
    return bool(kn & pv)


def check_exits(ctx, rep, wl: WLoop):
    """W4: the only exits are 'worklist empty', an explicit return, or a counter bound read from GambaTools at
    call time whose counter advances once per popped element and allows at least `limit` pops."""
    f, loop = wl.f, wl.loop
    conj = loop_conj(loop)
    others = []
    for c in conj:
        names = _emptiness_names(c)
        if wl.wl in names:
            continue
        if isinstance(c, ast.Constant) and c.value is True:
            continue
        others.append(c)
    for st in _own_breaks(loop):
        rep.note('{}: loop over {} has a break'.format(f.short, wl.wl))
    if not others:
        rep.holds(RULE + '.W4', f, loop, 'the loop over {} exits only when the worklist is empty or by an explicit return'.format(wl.wl), nontrivial=False)
        return
    for c in others:
        ok, why = _counter_bound(ctx, f, loop, c)
        if ok is True:
            rep.holds(RULE + '.W4', f, c, why)
        elif ok is False:
            rep.violates(RULE + '.W4', f, c, why)
        else:
            rep.undecided(RULE + '.W4', f, c, why)


def _counter_bound(ctx, f, loop, c):
    if not (isinstance(c, ast.Compare) and len(c.ops) == 1 and isinstance(c.ops[0], (ast.Lt, ast.LtE, ast.Gt, ast.GtE))):
        return None, 'extra loop condition is not a counter comparison'
    l, r = c.left, c.comparators[0]
    op = c.ops[0]
    if isinstance(op, (ast.Gt, ast.GtE)):
        l, r = r, l
        op = ast.Lt() if isinstance(op, ast.Gt) else ast.LtE()
    if not isinstance(l, ast.Name):
        return None, 'left side of the bound is not a counter variable'
    counter = l.id
    # the limit: a name defined once from GambaTools.<attr> inside the body, or the attribute itself
    lim = r
    if isinstance(lim, ast.Name):
        defs = _single_def(f, lim.id)
        if len(defs) != 1:
            return None, 'limit {} has no unique definition'.format(lim.id)
        limexpr = defs[0].value
    else:
        limexpr = lim
    if not (isinstance(limexpr, ast.Attribute) and isinstance(limexpr.value, ast.Name) and limexpr.value.id == 'GambaTools'):
        if isinstance(limexpr, ast.BinOp):
            return False, 'the bound {} is not the configured limit itself: fewer than `limit` configurations may be expanded'.format(u(limexpr))
        return None, 'limit expression {} is not a GambaTools setting'.format(u(limexpr))
    if is_count_loop(loop) and loop.target.id == counter:
        if any(isinstance(x, ast.Name) and x.id == counter and isinstance(x.ctx, ast.Store) and x is not loop.target for x in ast.walk(loop)):
            return False, 'the pass counter {} of the count() loop is overwritten inside the loop'.format(counter)
        return True, 'bound `{} {} {}`: limit read from GambaTools inside the body, the pass counter of count() starts at 0 and advances once per pop, so at least `limit` elements are expanded'.format(counter, '<' if isinstance(op, ast.Lt) else '<=', u(lim))
    # counter initialised to 0 before the loop
    inits = [d for d in _single_def(f, counter) if not _inside(loop, d)]
    if len(inits) != 1 or not (isinstance(inits[0].value, ast.Constant) and inits[0].value.value == 0):
        return False, 'counter {} does not start at 0'.format(counter)
    # exactly one increment by 1, at the top level of the loop body
    incs = []
    for st in _loop_stmts(loop):
        if isinstance(st, ast.AugAssign) and isinstance(st.target, ast.Name) and st.target.id == counter:
            incs.append(st)
        if isinstance(st, ast.Assign) and any(isinstance(t, ast.Name) and t.id == counter for t in st.targets):
            incs.append(st)
    if len(incs) != 1:
        return False, 'counter {} is updated {} times per iteration (must be exactly once per popped element)'.format(counter, len(incs))
    inc = incs[0]
    if inc not in loop.body:
        return False, 'counter {} is not incremented unconditionally once per iteration'.format(counter)
    step_ok = (isinstance(inc, ast.AugAssign) and isinstance(inc.op, ast.Add) and isinstance(inc.value, ast.Constant) and inc.value.value == 1) or \
              (isinstance(inc, ast.Assign) and isinstance(inc.value, ast.BinOp) and isinstance(inc.value.op, ast.Add)
               and {u(inc.value.left), u(inc.value.right)} == {counter, '1'})
    if not step_ok:
        return False, 'counter {} does not advance by exactly 1 per popped element'.format(counter)
    return True, 'bound `{} {} {}`: limit read from GambaTools inside the body, counter from 0 advancing once per pop, so at least `limit` elements are expanded'.format(counter, '<' if isinstance(op, ast.Lt) else '<=', u(lim))


def _inside(loop, node):
    return any(n is node for n in ast.walk(loop))


def check_hopcroft(ctx, rep, wl: WLoop):
    """Hopcroft waiting set: every enqueue is dominated by the 'both halves non-empty' test."""
    f, loop = wl.f, wl.loop
    fx = ctx.facts(f)
    cfg = fx.cfg
    sites, overwrites = _enqueue_sites(wl)
    for st in overwrites:
        rep.violates(RULE + '.W1', f, st, 'the waiting set {} is overwritten inside its loop'.format(wl.wl))
    if not overwrites:
        rep.holds(RULE + '.W1', f, loop, 'waiting set {} is only grown or popped'.format(wl.wl))
    # find the split: P1, P2 = split(...)
    halves = None
    for st in _loop_stmts(loop):
        if isinstance(st, ast.Assign) and len(st.targets) == 1 and isinstance(st.targets[0], ast.Tuple) and len(st.targets[0].elts) == 2 \
                and isinstance(st.value, ast.Call):
            halves = (u(st.targets[0].elts[0]), u(st.targets[0].elts[1]))
    if halves is None:
        rep.undecided(RULE + '.hopcroft', f, loop, 'split assignment not recognised')
        return
    for (st, kind, expr) in sites:
        atoms = fx.guard_atoms(cfg.n_of(st))
        nonempty = set()
        for a in atoms:
            # `if len(P1) == 0 or len(P2) == 0: continue`  => on the fall-through both are non-empty
            if a[0] == 'empty' and a[3] is False:
                nonempty.add(a[1])
            # `if not (P1 and P2): continue`: the halves are (frozen)sets, whose truth value is their non-emptiness
            if a[0] == 'truthy' and a[3] is True:
                nonempty.add(a[1])
        if set(halves) <= nonempty:
            rep.holds(RULE + '.hopcroft', f, st, 'enqueue dominated by the test that both halves {} and {} are non-empty (strict refinement, hence termination)'.format(*halves))
        else:
            rep.violates(RULE + '.hopcroft', f, st, 'a splitter is enqueued without the test that both halves {} and {} are non-empty: the partition is not strictly refined and the waiting set need not drain'.format(*halves))
    check_exits(ctx, rep, wl)


def check_worklists(ctx, rep, funcs, kinds=('search', 'hopcroft', 'tree')):
    """Enumerate worklist loops by shape in ``funcs`` and decide each according to KNOWN_LOOPS."""
    found = 0
    for f in funcs:
        for wl in find_worklist_loops(ctx, f):
            kind = KNOWN_LOOPS.get(f.short)
            if kind is None:
                rep.undecided(RULE + '.W2', f, wl.loop, 'worklist loop over {} is not in the confirmed instance table'.format(wl.wl))
                continue
            if kind not in kinds:
                continue
            found += 1
            if kind == 'search':
                check_search_loop(ctx, rep, wl)
            elif kind == 'hopcroft':
                check_hopcroft(ctx, rep, wl)
            else:
                rep.holds(RULE + '.tree', f, wl.loop, 'tree expansion (children are strict sub-spans); no seen-marker required', nontrivial=False)
    return found


# ---- level-synchronous search (dfa_reachable_states) -----------------------------------------------

def check_level_search(ctx, rep, f):
    """while True: Vnext = set(); for ...: if v not in discovered: discovered.add(v); Vnext.add(v); if not Vnext: break; V = Vnext"""
    fx = ctx.facts(f)
    cfg = fx.cfg
    loops = [n for n in walk_no_nested(f.node) if isinstance(n, ast.While)]
    if len(loops) != 1:
        rep.undecided(RULE + '.level', f, 'def ' + f.name, 'expected exactly one loop')
        return
    loop = loops[0]
    # frontier replacement V = Vnext
    repl = [st for st in loop.body if isinstance(st, ast.Assign) and len(st.targets) == 1 and isinstance(st.targets[0], ast.Name) and isinstance(st.value, ast.Name)]
    brk = [st for st in loop.body if isinstance(st, ast.If) and any(isinstance(b, ast.Break) for b in st.body)]
    if not repl:
        rep.undecided(RULE + '.level', f, loop, 'level-synchronous form not recognised')
        return
    nxt = repl[-1].value.id
    cur = repl[-1].targets[0].id
    header_form = not brk and any(a[0] in ('truthy', 'empty') and a[1] == cur and ((a[0] == 'truthy' and a[3] is True) or (a[0] == 'empty' and a[3] is False)) for a in atoms_of(loop.test, True)) \
        and not (isinstance(loop.test, ast.BoolOp))
    if not brk and not header_form:
        rep.undecided(RULE + '.level', f, loop, 'level-synchronous form not recognised')
        return
    if header_form:
        # while frontier: ...; frontier = next_frontier   -- the loop runs exactly as long as the frontier is not empty
        rep.holds(RULE + '.W1', f, loop, 'frontier {} is replaced by the next frontier at the end of every round'.format(cur))
        rep.holds(RULE + '.W4', f, loop, 'the search stops only when the frontier {} is empty'.format(cur))
    else:
        # exit only when the next frontier is empty
        ok_exit = any(a[0] in ('truthy', 'empty') and a[1] == nxt and ((a[0] == 'truthy' and a[3] is False) or (a[0] == 'empty' and a[3] is True))
                      for b in brk for a in atoms_of(b.test, True))
        if ok_exit:
            rep.holds(RULE + '.W4', f, brk[0], 'the search stops only when the next frontier {} is empty'.format(nxt))
        else:
            rep.violates(RULE + '.W4', f, brk[0], 'the search stops on a condition other than "next frontier {} empty": reachable states can be missed'.format(nxt))
    # additions to the next frontier are guarded by a not-seen test with marking
    adds = [st for st in _loop_stmts(loop) if isinstance(st, ast.Expr) and isinstance(st.value, ast.Call) and isinstance(st.value.func, ast.Attribute)
            and u(st.value.func.value) == nxt and st.value.func.attr == 'add']
    if not adds:
        rep.undecided(RULE + '.W2', f, loop, 'no addition to the next frontier found')
    for st in adds:
        x = u(st.value.args[0])
        atoms = fx.guard_atoms(cfg.n_of(st))
        g = [a for a in atoms if a[0] == 'in' and a[1] == x]
        if not g:
            rep.violates(RULE + '.W2', f, st, 'state {} joins the next frontier without a not-yet-seen test: the search does not terminate on a cycle'.format(x))
            continue
        a = g[0]
        if a[3] is True:
            rep.violates(RULE + '.W2', f, st, 'first-visit guard `{} in {}` has positive polarity'.format(x, a[2]))
            continue
        ups = [m for m in _marker_updates(loop, a[2]) if m[1] == x]
        drops = _silent_drop_atoms(fx, cfg.n_of(st), st.value.args[0], a, f, loop)
        if ups and drops:
            d = drops[0]
            rep.violates(RULE + '.W2', f, st, 'besides the first-visit test the frontier addition of {} depends on a further condition on the successor ({} {} {}), whose failure silently drops an unseen state: reachable states are missed'.format(
                x, d[1], '==' if d[0] == 'eq' and d[3] else ('!=' if d[0] == 'eq' else d[0]), d[2]))
        elif ups:
            rep.holds(RULE + '.W2', f, st, 'frontier addition dominated by `{} not in {}` with marking'.format(x, a[2]))
        else:
            rep.violates(RULE + '.W2', f, st, '{} is tested but never updated with {}'.format(a[2], x))
    # the successor scan covers the whole current frontier and alphabet: for u, a in product(V, Sigma) or nested loops
    fors = [n for n in _loop_stmts(loop) if isinstance(n, ast.For)]
    covers = any(cur in names_in(n.iter) for n in fors)
    if covers:
        rep.holds(RULE + '.W1', f, fors[0], 'every state of the current frontier {} is expanded'.format(cur))
    else:
        rep.violates(RULE + '.W1', f, loop, 'the current frontier {} is not iterated'.format(cur))


# ---- flag / snapshot fixpoints -----------------------------------------------------------------------

def _outer_collections(ctx, f, loop):
    """names of local collections defined outside the loop"""
    env = ctx.env(f)
    out = set()
    for name, t in env.vars.items():
        if t is None:
            continue
        if any(m[0] in ('set', 'list', 'dict', 'defaultdict') for m in ([t] if t[0] != 'union' else t[1])):
            defs = _single_def(f, name)
            if any(not _inside(loop, d) for d in defs) or name in f.params:
                out.add(name)
    return out


def _mutations_of(loop, names):
    out = []
    for st in _loop_stmts(loop):
        if isinstance(st, ast.Expr) and isinstance(st.value, ast.Call) and isinstance(st.value.func, ast.Attribute) \
                and isinstance(st.value.func.value, ast.Name) and st.value.func.value.id in names \
                and st.value.func.attr in ('add', 'append', 'update', 'extend', 'remove', 'discard', 'insert'):
            out.append((st, st.value.func.value.id))
        elif isinstance(st, ast.Assign):
            for t in st.targets:
                if isinstance(t, ast.Subscript) and isinstance(t.value, ast.Name) and t.value.id in names:
                    out.append((st, t.value.id))
        elif isinstance(st, ast.AugAssign):
            t = st.target
            if isinstance(t, ast.Name) and t.id in names:
                out.append((st, t.id))
            if isinstance(t, ast.Subscript) and isinstance(t.value, ast.Name) and t.value.id in names:
                out.append((st, t.value.id))
    return out


def check_flag_fixpoint(ctx, rep, f):
    """W5: `changed`-flag fixpoints: flag cleared at the top of each round, set on every path that changes the
    tracked state, loop left only when a full round changed nothing."""
    fx = ctx.facts(f)
    cfg = fx.cfg
    done = 0
    for loop in [n for n in walk_no_nested(f.node) if isinstance(n, ast.While)]:
        # flag = a bool name assigned False as first statement of the body
        if not loop.body:
            continue
        first = loop.body[0]
        if not (isinstance(first, ast.Assign) and len(first.targets) == 1 and isinstance(first.targets[0], ast.Name)
                and isinstance(first.value, ast.Constant) and first.value.value is False):
            continue
        flag = first.targets[0].id
        done += 1
        sets = [st for st in _loop_stmts(loop) if isinstance(st, ast.Assign) and len(st.targets) == 1 and u(st.targets[0]) == flag
                and isinstance(st.value, ast.Constant) and st.value.value is True]
        set_nodes = {cfg.n_of(st) for st in sets}
        # inside a round the flag only ever goes up: any other assignment (flag = <condition>, flag = False further down)
        # can take back a change that an earlier element of the same round registered
        for st in _loop_stmts(loop):
            if st is first:
                continue
            tgts = st.targets if isinstance(st, ast.Assign) else ([st.target] if isinstance(st, (ast.AugAssign, ast.AnnAssign)) else [])
            if any(isinstance(t, ast.Name) and t.id == flag for t in tgts):
                v = st.value
                up = isinstance(v, ast.Constant) and v.value is True
                if isinstance(v, ast.BoolOp) and isinstance(v.op, ast.Or) and any(isinstance(x, ast.Name) and x.id == flag for x in v.values):
                    up = True
                if isinstance(st, ast.AugAssign) and isinstance(st.op, ast.BitOr):
                    up = True
                if not up:
                    rep.violates(RULE + '.W5', f, st, 'the fixpoint flag {0} is ASSIGNED `{1}` inside the round instead of only being set to True: a later element for which `{1}` is false resets the flag although an earlier element of the same round changed the state, so the iteration stops before the fixpoint'.format(flag, u(v)))
        # where the flag is read: loop test or `if not flag: break`
        readers = set()
        if flag in names_in(loop.test):
            readers.add(cfg.n_of(loop))
        for st in _loop_stmts(loop):
            if isinstance(st, ast.If) and flag in names_in(st.test):
                readers.add(cfg.n_of(st))
        if not readers:
            rep.violates(RULE + '.W5', f, loop, 'flag {} is cleared every round but never tested: the loop cannot stop at the fixpoint'.format(flag))
            continue
        # exit polarity: leave only when flag is False
        exit_ok = True
        if flag in names_in(loop.test):
            at = atoms_of(loop.test, True)
            if not any(a[0] == 'truthy' and a[1] == flag and a[3] is True for a in at):
                exit_ok = False
        for st in _loop_stmts(loop):
            if isinstance(st, ast.If) and flag in names_in(st.test) and any(isinstance(b, ast.Break) for b in st.body):
                at = atoms_of(st.test, True)
                if not any(a[0] == 'truthy' and a[1] == flag and a[3] is False for a in at):
                    exit_ok = False
        if exit_ok:
            rep.holds(RULE + '.W5', f, loop, 'the loop is left only after a round in which {} stayed False'.format(flag))
        else:
            rep.violates(RULE + '.W5', f, loop, 'the loop is left while {} is True (or continues while it is False): it stops before the fixpoint'.format(flag))
        tracked = _outer_collections(ctx, f, loop)
        muts = _mutations_of(loop, tracked)
        if not muts:
            rep.undecided(RULE + '.W5', f, loop, 'no mutation of an outer collection found in the flag loop')
        for (st, name) in muts:
            m = cfg.n_of(st)
            if all(cfg.must_pass(set_nodes, r, start=m) for r in readers if r in cfg.reachable(m)):
                rep.holds(RULE + '.W5', f, st, 'every path from this change of {} to the next test of {} sets the flag'.format(name, flag))
            else:
                rep.violates(RULE + '.W5', f, st, '{} is changed on a path that does not set {} = True: the iteration can stop before the fixpoint'.format(name, flag))
    return done


def check_snapshot_fixpoint(ctx, rep, f):
    """`while W1 != W: W1 = W.copy(); ...` -- the snapshot must be a copy taken at the top of the round."""
    for loop in [n for n in walk_no_nested(f.node) if isinstance(n, ast.While)]:
        t = loop.test
        if not (isinstance(t, ast.Compare) and len(t.ops) == 1 and isinstance(t.ops[0], ast.NotEq) and isinstance(t.left, ast.Name) and isinstance(t.comparators[0], ast.Name)):
            continue
        a, b = t.left.id, t.comparators[0].id
        first = loop.body[0] if loop.body else None
        snap = None
        if isinstance(first, ast.Assign) and len(first.targets) == 1 and isinstance(first.targets[0], ast.Name) and first.targets[0].id in (a, b):
            snap = first.targets[0].id
            cur = b if snap == a else a
            v = first.value
            is_copy = (isinstance(v, ast.Call) and ((isinstance(v.func, ast.Attribute) and v.func.attr == 'copy' and u(v.func.value) == cur)
                                                      or (isinstance(v.func, ast.Name) and v.func.id in ('set', 'frozenset', 'list') and len(v.args) == 1 and u(v.args[0]) == cur)))
            if is_copy:
                rep.holds(RULE + '.W5', f, first, 'snapshot {} is a copy of {} taken at the top of each round; the loop stops when a round adds nothing'.format(snap, cur))
            elif isinstance(v, ast.Name) and v.id == cur:
                rep.violates(RULE + '.W5', f, first, 'snapshot {} aliases {}: the comparison is always equal and the loop stops after one round'.format(snap, cur))
            else:
                rep.undecided(RULE + '.W5', f, first, 'snapshot form not recognised')
            # growth only: cur is only added to
            for st in _loop_stmts(loop):
                if isinstance(st, ast.Assign) and any(isinstance(tg, ast.Name) and tg.id == cur for tg in st.targets):
                    rep.violates(RULE + '.W1', f, st, 'the accumulated set {} is overwritten inside the saturation loop'.format(cur))
        else:
            rep.undecided(RULE + '.W5', f, loop, 'no snapshot assignment at the top of the loop')
        return True
    return False


def check_partition_fixpoint(ctx, rep, f):
    """dfa_quotient: `while True: ...; if equal(VV, VV1): break; else: VV = VV1`"""
    for loop in [n for n in walk_no_nested(f.node) if isinstance(n, ast.While)]:
        if not (isinstance(loop.test, ast.Constant) and loop.test.value is True):
            continue
        breaks = _own_breaks(loop)
        ifs = [st for st in loop.body if isinstance(st, ast.If) and any(isinstance(b, ast.Break) for b in st.body)]
        if len(breaks) != 1 or len(ifs) != 1:
            rep.undecided(RULE + '.W5', f, loop, 'expected exactly one exit test')
            return True
        tst = ifs[0]
        names = sorted(names_in(tst.test))
        # the test compares two partitions: a call with two Name args or ==
        args = None
        if isinstance(tst.test, ast.Call) and len(tst.test.args) == 2 and all(isinstance(a, ast.Name) for a in tst.test.args):
            args = [a.id for a in tst.test.args]
        elif isinstance(tst.test, ast.Compare) and isinstance(tst.test.ops[0], ast.Eq) and isinstance(tst.test.left, ast.Name) and isinstance(tst.test.comparators[0], ast.Name):
            args = [tst.test.left.id, tst.test.comparators[0].id]
        if args is None:
            rep.undecided(RULE + '.W5', f, tst, 'exit test is not a comparison of two partitions')
            return True
        cur, nxt = args
        # else-branch (or statement after) replaces cur by nxt
        repl = [st for st in (tst.orelse or []) + loop.body if isinstance(st, ast.Assign) and len(st.targets) == 1 and u(st.targets[0]) == cur and u(st.value) == nxt]
        if repl:
            rep.holds(RULE + '.W5', f, tst, 'refinement stops only when the next partition {} equals the current one {}, otherwise {} := {}'.format(nxt, cur, cur, nxt))
        else:
            rep.violates(RULE + '.W5', f, tst, 'the current partition {} is not replaced by the refined one {} before the next round'.format(cur, nxt))
        # the comparison helper must test both inclusions
        if isinstance(tst.test, ast.Call) and isinstance(tst.test.func, ast.Name):
            r = ctx.prog.resolve_name(f, f.module, tst.test.func.id)
            if r is not None and r.kind == 'func':
                h = r.target
                rets = [n for n in walk_no_nested(h.node) if isinstance(n, ast.Return)]
                if len(rets) == 1 and isinstance(rets[0].value, ast.BoolOp) and isinstance(rets[0].value.op, ast.And) and len(rets[0].value.values) == 2:
                    rep.holds(RULE + '.W5', h, rets[0], 'partition equality tests both inclusions')
                elif len(rets) == 1 and isinstance(rets[0].value, ast.Call):
                    rep.violates(RULE + '.W5', h, rets[0], 'partition equality tests one inclusion only: refinement can stop early')
                else:
                    rep.undecided(RULE + '.W5', h, 'def ' + h.name, 'equality helper form not recognised')
        return True
    return False


# ---- W6: one-shot iterators --------------------------------------------------------------------------------------

ONE_SHOT_CALLS = {'map', 'filter', 'zip', 'iter', 'reversed', 'enumerate'}


def _is_one_shot(ctx, f, e):
    if isinstance(e, ast.GeneratorExp):
        return True
    if isinstance(e, ast.Call):
        nm = ctx.callee_name(f, e)
        if nm is None:
            return False
        if nm in ONE_SHOT_CALLS or nm.startswith('itertools.'):
            return True
        if isinstance(e.func, ast.Attribute) and e.func.attr in ('items', 'keys', 'values'):
            return False
    return False


def check_one_shot_iterators(ctx, rep, funcs, rule=RULE + '.W6'):
    """an iterator (itertools.*, map, zip, generator expression ...) created outside a loop must not be iterated inside
    it: from the second round on it is exhausted"""
    n = 0
    for f in funcs:
        loops = [l for l in walk_no_nested(f.node) if isinstance(l, (ast.While, ast.For))]
        if not loops:
            continue
        for outer in loops:
            for inner in ast.walk(outer):
                if inner is outer or not isinstance(inner, (ast.For, ast.comprehension)):
                    continue
                it = inner.iter
                if not isinstance(it, ast.Name):
                    continue
                defs = [d for d in walk_no_nested(f.node) if isinstance(d, ast.Assign) and any(isinstance(t, ast.Name) and t.id == it.id for t in d.targets)]
                if len(defs) != 1:
                    continue
                d = defs[0]
                if any(x is d for x in ast.walk(outer)):
                    continue
                if not _is_one_shot(ctx, f, d.value):
                    continue
                n += 1
                rep.violates(rule, f, d, 'the one-shot iterator {} is created outside the loop `{}` but consumed inside it: from the second round on it is empty, so later rounds do nothing'.format(it.id, norm(outer)))
    return n


def check_consumed_twice(ctx, rep, funcs, rule=RULE + '.W6'):
    """a one-shot iterator (generator expression, map, zip, itertools.* ...) bound to a name and consumed at two places of
    which one can follow the other: the second consumer sees it empty.  The typical form hides the first consumer behind a
    flag (`if logging: log(print(xs))` and then `result.update(xs)`), so the result depends on the flag."""
    n = 0
    for f in funcs:
        fx = None
        for d in walk_no_nested(f.node):
            if not (isinstance(d, ast.Assign) and len(d.targets) == 1 and isinstance(d.targets[0], ast.Name) and _is_one_shot(ctx, f, d.value)):
                continue
            name = d.targets[0].id
            if len([x for x in walk_no_nested(f.node) if isinstance(x, ast.Assign) and any(isinstance(t, ast.Name) and t.id == name for t in x.targets)]) != 1:
                continue
            uses = [x for x in walk_no_nested(f.node) if isinstance(x, ast.Name) and x.id == name and isinstance(x.ctx, ast.Load)]
            if len(uses) < 2:
                continue
            if fx is None:
                fx = ctx.facts(f)
            cfg = fx.cfg
            nodes = []
            for x in uses:
                nid = fx.stmt_of_expr(x)
                if nid is not None:
                    nodes.append((nid, x))
            hit = None
            dn = cfg.n_of(d)

            def reach_avoiding(start):
                # nodes reachable from start without passing the statement that creates the iterator anew
                seen, work = set(), [b0 for (b0, _) in cfg.succ[start]]
                while work:
                    x0 = work.pop()
                    if x0 in seen or x0 == dn:
                        continue
                    seen.add(x0)
                    work.extend(b0 for (b0, _) in cfg.succ[x0])
                return seen
            for (a, xa) in nodes:
                ra = reach_avoiding(a)
                for (b, xb) in nodes:
                    if xa is xb:
                        continue
                    if a == b or b in ra:
                        if a == b and xa.col_offset > xb.col_offset:
                            continue
                        if a != b or xa is not xb:
                            hit = (xa, xb, a != b and any(g for g in fx.guard_atoms(a) if g not in fx.guard_atoms(b)))
                            break
                if hit:
                    break
            if hit:
                n += 1
                xa, xb, guarded = hit
                rep.violates(rule, f, d, 'the one-shot iterator {0} is consumed twice (lines {1} and {2}): the second consumer finds it empty{3}'.format(
                    name, xa.lineno, xb.lineno, '; the first consumer runs only under a condition, so the result depends on that condition (e.g. whether logging is enabled)' if guarded else ''))
    return n


def check_marker_alias(ctx, rep, f, rule=RULE + '.W2'):
    """the worklist and its seen-marker must be different objects"""
    unit = ctx.effects.unit(f)
    if unit is None:
        return
    vs = unit.varsum.get(f.qualname, {})
    for wl in find_worklist_loops(ctx, f):
        fx = ctx.facts(f)
        markers = set()
        sites, _ = _enqueue_sites(wl)
        for (st, kind, expr) in sites:
            for a in fx.guard_atoms(fx.cfg.n_of(st)):
                if a[0] == 'in' and a[3] is False:
                    markers.add(a[2])
        for m in sorted(markers):
            if m == wl.wl:
                continue
            a, b = vs.get(m, set()), vs.get(wl.wl, set())
            common = {x for x in a & b if x[0] == 'A'}
            if common:
                rep.violates(rule, f, wl.loop, 'the worklist {} and its seen-marker {} are the same object: popping an element also un-marks it, so it can be visited again (non-termination on a cycle)'.format(wl.wl, m))
            else:
                rep.holds(rule, f, 'objects of {} and {}'.format(wl.wl, m), 'worklist and seen-marker are distinct objects', nontrivial=True)


def check_scan_loops(ctx, rep, funcs, rule=RULE + '.W7'):
    """a for-loop over a collection whose body leaves the function on every path never looks at a second element; when a
    fall-back return follows the loop this is a scan that gives up after the first element"""
    n = 0
    for f in funcs:
        fx = ctx.facts(f)
        cfg = fx.cfg
        for lp in walk_no_nested(f.node):
            if not isinstance(lp, ast.For):
                continue
            head = cfg.n_of(lp)
            body_first = [b for (b, lab) in cfg.succ[head] if lab == 'iter']
            if not body_first:
                continue
            back = head in cfg.reachable(body_first[0], removed_edge=None) and any(head in {b for (b, _) in cfg.succ[x]} for x in cfg.reachable(body_first[0]) if x != head)
            # is there any path from the body back to the loop head?
            returns_back = False
            seen = set()
            stack = [body_first[0]]
            while stack:
                x = stack.pop()
                if x in seen:
                    continue
                seen.add(x)
                for (y, lab) in cfg.succ[x]:
                    if y == head:
                        returns_back = True
                    elif y not in (cfg.exit, cfg.raise_exit):
                        stack.append(y)
            has_return_in_body = any(isinstance(x, ast.Return) for b in lp.body for x in ast.walk(b))
            if not has_return_in_body:
                continue
            n += 1
            after = [s for s in walk_no_nested(f.node) if isinstance(s, ast.Return) and cfg.n_of(s) in cfg.reachable(head, removed_edge=None) and not any(x is s for x in ast.walk(lp))]
            if not returns_back and after:
                rep.violates(rule, f, lp, 'every path through the body of this loop leaves the function, so only the first element is ever examined although a fall-back return follows the loop: the scan gives up after the first element')
            else:
                rep.holds(rule, f, lp, 'the scan can reach a further element before it gives up', nontrivial=False)
    return n


def _names_a_block(ctx, f, call):
    """the call turns a set of states into a state name: its callee (possibly through a local alias `state = _block_name`)
    prints its parameter with print_state_set"""
    from .closed import _is_namer
    if _is_namer(ctx, f, call):
        return True
    if isinstance(call.func, ast.Name):
        defs = [n.value for n in walk_no_nested(f.node) if isinstance(n, ast.Assign) and len(n.targets) == 1 and isinstance(n.targets[0], ast.Name) and n.targets[0].id == call.func.id]
        if len(defs) == 1 and isinstance(defs[0], (ast.Name, ast.Attribute)):
            return _is_namer(ctx, f, ast.Call(func=defs[0], args=call.args, keywords=[]))
    return False


def check_representatives(ctx, rep, f, rule=RULE + '.rep'):
    """a block is extended / named on the strength of a comparison with a REPRESENTATIVE of that same block:
       r = set_element(S) ... if <test mentioning r>: X.add(v)        requires S is X
       r = set_element(S); q = name(S'); ... delta1[q, a] = ..r..      requires S is S'
    (a representative drawn from another set compares the element with the wrong class)"""
    n = 0
    reps = {}
    for s in walk_no_nested(f.node):
        if isinstance(s, ast.Assign) and len(s.targets) == 1 and isinstance(s.targets[0], ast.Name) and isinstance(s.value, ast.Call) \
                and isinstance(s.value.func, ast.Name) and s.value.func.id == 'set_element' and len(s.value.args) == 1 and isinstance(s.value.args[0], ast.Name):
            reps[s.targets[0].id] = (s.value.args[0].id, s)
    if not reps:
        return 0
    for t in walk_no_nested(f.node):
        if isinstance(t, ast.If):
            cfg = ctx.facts(f).cfg
            used = [r for r in reps if r in names_in(t.test) and cfg.dominates(cfg.n_of(reps[r][1]), cfg.n_of(t))]
            if not used:
                continue
            for c in ast.walk(t):
                if isinstance(c, ast.Call) and isinstance(c.func, ast.Attribute) and c.func.attr in ('add', 'append') and isinstance(c.func.value, ast.Name) and any(x is c for b in t.body for x in ast.walk(b)):
                    X = c.func.value.id
                    for r in used:
                        S, site = reps[r]
                        n += 1
                        if S == X:
                            rep.holds(rule, f, site, 'the element joins {} after a comparison with a representative of {} itself'.format(X, X))
                        else:
                            rep.violates(rule, f, site, 'the element is added to the block {} because it agrees with {} = set_element({}), a representative of a DIFFERENT set: members of {} are never compared with the block they join, so equivalent states end up in different blocks (or inequivalent ones in the same)'.format(X, r, S, X))
    # naming: q = state(S'); r = set_element(S) used in the same loop body to define the transitions of q
    for loop in walk_no_nested(f.node):
        if not isinstance(loop, ast.For):
            continue
        names = {}
        local_reps = {}
        for s in loop.body if True else []:
            pass
        for s in ast.walk(loop):
            if isinstance(s, ast.Assign) and len(s.targets) == 1 and isinstance(s.targets[0], ast.Name) and isinstance(s.value, ast.Call) and isinstance(s.value.func, ast.Name):
                if s.value.func.id == 'set_element' and len(s.value.args) == 1 and isinstance(s.value.args[0], ast.Name):
                    local_reps[s.targets[0].id] = (s.value.args[0].id, s)
                elif len(s.value.args) == 1 and isinstance(s.value.args[0], ast.Name) and (s.value.func.id in f.nested or _names_a_block(ctx, f, s.value)):
                    names[s.targets[0].id] = s.value.args[0].id
        for s in ast.walk(loop):
            if isinstance(s, ast.Assign) and isinstance(s.targets[0], ast.Subscript) and isinstance(s.targets[0].slice, ast.Tuple):
                key_names = names_in(s.targets[0].slice)
                for q, Sq in names.items():
                    if q not in key_names:
                        continue
                    for r, (S, site) in local_reps.items():
                        if r in names_in(s.value) or any(r in names_in(d.value) for d in ast.walk(loop) if isinstance(d, ast.Assign) and isinstance(d.targets[0], ast.Name) and d.targets[0].id in names_in(s.value)):
                            n += 1
                            if S == Sq:
                                rep.holds(rule, f, site, 'the transitions of the state named after {} are read off a representative of {}'.format(Sq, S))
                            else:
                                rep.violates(rule, f, site, 'the transitions of the state named after the block {} are read off {} = set_element({}), a representative of another set'.format(Sq, r, S))
    return n


def check_size_fixpoint(ctx, rep, f):
    """`size = ..; while size != len(X): <pass that grows X>; size = len(X)` and its variants: the loop compares the size
    of the tracked set with a SNAPSHOT of that size.  The snapshot must be taken before the growing pass of the same
    round (then the test after the round sees whether the pass changed anything); taken after the pass, snapshot and set
    agree trivially and the loop stops after one pass."""
    fx = ctx.facts(f)
    cfg = fx.cfg
    done = 0
    for loop in [n for n in walk_no_nested(f.node) if isinstance(n, ast.While)]:
        # (snapshot name, collection name) from a test  s != len(X)  in the loop header or in an `if ..: break`
        tests = [(loop.test, 'header')] + [(st.test, 'break') for st in _loop_stmts(loop) if isinstance(st, ast.If) and any(isinstance(b, ast.Break) for b in st.body)]
        pair = None
        for t, kind in tests:
            for c in ast.walk(t):
                if isinstance(c, ast.Compare) and len(c.ops) == 1 and isinstance(c.ops[0], (ast.NotEq, ast.Eq, ast.Lt, ast.Gt)):
                    sides = [c.left, c.comparators[0]]
                    for a, b in (sides, sides[::-1]):
                        if isinstance(a, ast.Name) and isinstance(b, ast.Call) and isinstance(b.func, ast.Name) and b.func.id == 'len' and b.args and isinstance(b.args[0], ast.Name):
                            pair = (a.id, b.args[0].id, kind, c)
        if pair is None:
            continue
        snap, coll, kind, cmpnode = pair
        snaps = [st for st in _loop_stmts(loop) if isinstance(st, ast.Assign) and len(st.targets) == 1 and u(st.targets[0]) == snap
                 and isinstance(st.value, ast.Call) and isinstance(st.value.func, ast.Name) and st.value.func.id == 'len' and st.value.args and u(st.value.args[0]) == coll]
        muts = [st for (st, name) in _mutations_of(loop, {coll})]
        if not muts and not snaps:
            # `while i < len(w)` over a collection the loop never changes: an index loop, not a size-controlled fixpoint
            continue
        done += 1
        if not snaps:
            rep.violates(RULE + '.W5', f, loop, 'the loop compares {} with len({}) but never records len({}) inside the loop'.format(snap, coll, coll))
            continue
        if not muts:
            rep.undecided(RULE + '.W5', f, loop, 'no growth of {} found in the size-controlled loop'.format(coll))
            continue
        ok = all(any(cfg.dominates(cfg.n_of(s), cfg.n_of(m)) for s in snaps) for m in muts)
        if ok:
            rep.holds(RULE + '.W5', f, loop, 'the size snapshot {} = len({}) is taken before the growing pass of the same round'.format(snap, coll))
        else:
            rep.violates(RULE + '.W5', f, snaps[0], 'the size snapshot {0} = len({1}) is taken AFTER the pass that grows {1}: when the loop test compares {0} with len({1}) the two agree trivially, so only one pass is ever made and facts that need a second pass (a variable nullable only through a chain of other variables) are missed'.format(snap, coll))
    return done


def check_single_expansion(ctx, rep, f, rule=RULE + '.W9'):
    """a tree is built top-down from a worklist of nodes: the popped node gets its children from the FIRST alternative
    (split point, rule) that fits.  Inside the loop over the alternatives every statement that adds children to the popped
    node must be followed, on every path, by leaving that loop -- otherwise a node collects the children of several
    alternatives and the tree is no longer a derivation."""
    fx = ctx.facts(f)
    cfg = fx.cfg
    n = 0
    for wl in [x for x in walk_no_nested(f.node) if isinstance(x, ast.While)]:
        # names unpacked from the popped node
        popped = set()
        for st in wl.body:
            if isinstance(st, ast.Assign) and isinstance(st.value, (ast.Call, ast.IfExp)) and any(isinstance(c, ast.Call) and isinstance(c.func, ast.Attribute) and c.func.attr == 'pop' for c in ast.walk(st.value)):
                for t in st.targets:
                    popped |= names_in(t)
        if not popped:
            continue
        for inner in [x for x in ast.walk(wl) if isinstance(x, ast.For) and x is not wl]:
            commits = [c for c in ast.walk(inner) if isinstance(c, ast.Expr) and isinstance(c.value, ast.Call) and isinstance(c.value.func, ast.Attribute)
                       and c.value.func.attr in ('append', 'extend', 'add', 'insert') and isinstance(c.value.func.value, ast.Name) and c.value.func.value.id in popped]
            if not commits:
                continue
            leaves = {cfg.n_of(x) for x in ast.walk(inner) if isinstance(x, (ast.Break, ast.Return, ast.Raise))}
            header = cfg.n_of(inner)
            n += 1
            bad = [c for c in commits if header in cfg.reachable(cfg.n_of(c)) and not cfg.must_pass(leaves, header, start=cfg.n_of(c))]
            if bad:
                rep.violates(rule, f, bad[0], 'after {} the loop over the alternatives goes on: a node whose span can be split at two positions gets the children of both splits, so the derivation contains a step that is no rule of the grammar'.format(u(bad[0].value)))
            else:
                rep.holds(rule, f, inner, 'the loop over the alternatives is left right after the popped node received its children (one expansion per node)')
        # no loop over the alternatives at all: the first fitting alternative is picked by an expression (next(...)) and the
        # children are added once per popped node, outside any inner loop
        inner_nodes = {id(y) for x in ast.walk(wl) if isinstance(x, (ast.For, ast.While)) and x is not wl for y in ast.walk(x)}
        direct = [c for c in ast.walk(wl) if isinstance(c, ast.Expr) and isinstance(c.value, ast.Call) and isinstance(c.value.func, ast.Attribute)
                  and c.value.func.attr in ('append', 'extend', 'add', 'insert') and isinstance(c.value.func.value, ast.Name) and c.value.func.value.id in popped and id(c) not in inner_nodes]
        if direct and not any(isinstance(x, ast.For) and x is not wl and any(isinstance(c, ast.Expr) and isinstance(c.value, ast.Call) and isinstance(c.value.func, ast.Attribute)
                                                                             and isinstance(c.value.func.value, ast.Name) and c.value.func.value.id in popped for c in ast.walk(x)) for x in ast.walk(wl)):
            n += 1
            rep.holds(rule, f, direct[0], 'the children of the popped node are added outside any loop over alternatives: one expansion per node')
    return n


# ---- recursive closure with a shared result memo -----------------------------------------------------------------

def check_recursive_memo(ctx, rep, funcs, rule=RULE + '.recmemo'):
    """def g(p): if p not in D: D[p] = <seed>; for p1 in <successors of p>: D[p] |= g(p1); return D[p]   with D living
    outside g.  The entry of p is visible to the recursive calls before it is complete, so on a cycle the partial set
    of a node in progress is merged into -- and memoised as -- the final result of another node; only the node the
    outermost call started from is complete.  A later call g(c) for another node c of the cycle returns the partial set.
    Decided only for this shape (graph recursion: the recursive argument is not a sub-object of p); everything else is
    left alone (pattern rule, no floor)."""
    n = 0
    for g in funcs:
        params = [p for p in g.params if p != 'self']
        if not params:
            continue
        selfcalls = [c for c in walk_no_nested(g.node) if isinstance(c, ast.Call) and isinstance(c.func, ast.Name) and c.func.id == g.name and c.args]
        if not selfcalls:
            continue
        local = set()
        for x in walk_no_nested(g.node):
            if isinstance(x, (ast.Assign, ast.AugAssign, ast.AnnAssign, ast.For)):
                for t in (x.targets if isinstance(x, ast.Assign) else [x.target]):
                    local |= {y.id for y in ast.walk(t) if isinstance(y, ast.Name) and isinstance(y.ctx, ast.Store)}
        for st in walk_no_nested(g.node):
            if not isinstance(st, ast.If):
                continue
            # guard  p not in D   (D a name that g does not bind itself: free variable, global)
            t = st.test
            if not (isinstance(t, ast.Compare) and len(t.ops) == 1 and isinstance(t.ops[0], ast.NotIn) and isinstance(t.left, ast.Name) and t.left.id in params
                    and isinstance(t.comparators[0], ast.Name)):
                continue
            p, D = t.left.id, t.comparators[0].id
            if D in params or D in local:
                continue
            seeded_at = None
            merged = None
            order = []
            for s in st.body:
                for x in ast.walk(s):
                    order.append(x)
            aliases = set()
            for i, x in enumerate(order):
                if isinstance(x, ast.Assign) and len(x.targets) == 1 and isinstance(x.targets[0], ast.Subscript) and u(x.targets[0].value) == D and u(x.targets[0].slice) == p \
                        and not any(c in selfcalls for c in ast.walk(x.value)) and seeded_at is None:
                    seeded_at = (i, x)
                # D[p] = W = set()   /   W = D[p]: W is the entry itself
                if isinstance(x, ast.Assign) and len(x.targets) >= 2 and any(isinstance(t0, ast.Subscript) and u(t0.value) == D and u(t0.slice) == p for t0 in x.targets) \
                        and not any(c in selfcalls for c in ast.walk(x.value)):
                    if seeded_at is None:
                        seeded_at = (i, x)
                    aliases |= {t0.id for t0 in x.targets if isinstance(t0, ast.Name)}
                if isinstance(x, ast.Assign) and len(x.targets) == 1 and isinstance(x.targets[0], ast.Name) and u(x.value) == '{}[{}]'.format(D, p) and seeded_at is not None:
                    aliases.add(x.targets[0].id)
                rec = None
                if isinstance(x, ast.AugAssign) and isinstance(x.target, ast.Name) and x.target.id in aliases and isinstance(x.op, (ast.BitOr, ast.Add)):
                    rec = [c for c in ast.walk(x.value) if c in selfcalls]
                if isinstance(x, ast.Call) and isinstance(x.func, ast.Attribute) and x.func.attr in ('update', 'extend') and isinstance(x.func.value, ast.Name) and x.func.value.id in aliases:
                    rec = [c for a in x.args for c in ast.walk(a) if c in selfcalls]
                if isinstance(x, ast.AugAssign) and isinstance(x.target, ast.Subscript) and u(x.target.value) == D and u(x.target.slice) == p:
                    rec = [c for c in ast.walk(x.value) if c in selfcalls]
                if isinstance(x, ast.Assign) and len(x.targets) == 1 and isinstance(x.targets[0], ast.Subscript) and u(x.targets[0].value) == D and u(x.targets[0].slice) == p:
                    rec = [c for c in ast.walk(x.value) if c in selfcalls]
                if isinstance(x, ast.Call) and isinstance(x.func, ast.Attribute) and x.func.attr in ('update', 'extend') and isinstance(x.func.value, ast.Subscript) \
                        and u(x.func.value.value) == D and u(x.func.value.slice) == p:
                    rec = [c for a in x.args for c in ast.walk(a) if c in selfcalls]
                if rec and seeded_at is not None and i > seeded_at[0] and merged is None:
                    merged = (x, rec[0])
            if seeded_at is None or merged is None:
                continue
            arg = merged[1].args[0]
            # recursion into a sub-object of p (tree recursion) cannot meet a node in progress
            if any(isinstance(x, (ast.Attribute, ast.Subscript)) and u(x.value) == p for x in ast.walk(arg)):
                continue
            # the memo hit is handed out as the answer
            returns_memo = any(isinstance(r, ast.Return) and r.value is not None and (u(r.value) == '{}[{}]'.format(D, p) or u(r.value) in aliases) for r in walk_no_nested(g.node))
            if not returns_memo:
                continue
            n += 1
            rep.violates(rule, g, merged[0], 'recursive closure with a shared memo: {D}[{p}] is seeded before the recursive calls and their results are merged into it, so on a cycle '
                         'the incomplete set of a node in progress becomes part of the memoised result of another node; a later {g}(c) for a node c of the cycle returns that incomplete set '
                         '(only the node of the outermost call is complete)'.format(D=D, p=p, g=g.name))
    return n


# ---- W10: a fold or a saturation that silently stops early ---------------------------------------------------------------

def _reads_after(f, loop, names):
    """names among `names` that are read after the loop (textually later in the function, or in a later iteration of an
    enclosing loop, or by a nested function)"""
    fx_nodes = list(walk_no_nested(f.node))
    inside = {id(x) for x in ast.walk(loop)}
    end = getattr(loop, 'end_lineno', loop.lineno)
    out = set()
    enclosing = [l for l in fx_nodes if isinstance(l, (ast.For, ast.While)) and l is not loop and any(x is loop for x in ast.walk(l))]
    for x in ast.walk(f.node):
        if isinstance(x, ast.Name) and isinstance(x.ctx, ast.Load) and x.id in names and id(x) not in inside:
            if x.lineno > end or any(any(y is x for y in ast.walk(l)) for l in enclosing):
                out.add(x.id)
    return out


def check_abandoned(ctx, rep, funcs, rule=RULE + '.W10'):
    """A loop that accumulates over the elements of an unordered collection, or over a worklist, and has an exit
         if <condition on the current element>: break
    that does nothing else, in a loop without an else clause, whose current element is not looked at afterwards: after the
    loop nothing tells this exit from exhaustion, so the accumulated containers silently cover only the elements that
    happened to come first (hash order / pop order).  A search that stops at a target (`if x == target: break`), a break
    after the contribution of the element, or an exit that records something, is not this pattern."""
    from .order import _is_unordered
    n = 0
    for f in funcs:
        wls = {id(w.loop): w for w in find_worklist_loops(ctx, f)}
        for loop in walk_no_nested(f.node):
            if not isinstance(loop, (ast.For, ast.While)) or loop.orelse:
                continue
            wl = wls.get(id(loop))
            if wl is not None:
                elems = set()
                for st, var in wl.pops:
                    if var is not None:
                        elems |= {x.id for x in ast.walk(var) if isinstance(x, ast.Name)}
                kind = 'the worklist {}'.format(wl.wl)
            elif isinstance(loop, ast.For) and not is_count_loop(loop):
                try:
                    unordered = _is_unordered(ctx, f, loop.iter)
                    if not unordered and isinstance(loop.iter, ast.Name):
                        # an element popped from a list of sets:  Q1 = todo.pop()  with  todo = [Q0], Q0: Set[State]
                        from ..types import members, elem_type
                        for d in _single_def(f, loop.iter.id):
                            v = d.value
                            if isinstance(v, ast.Call) and isinstance(v.func, ast.Attribute) and v.func.attr in ('pop', 'popleft'):
                                tw = ctx.env(f).type_of(v.func.value)
                                for m in members(tw) if tw is not None else []:
                                    if m[0] in ('list', 'set', 'frozenset') and len(m) > 1 and m[1] is not None and any(x[0] in ('set', 'frozenset') for x in members(m[1])):
                                        unordered = True
                except Exception:
                    unordered = False
                if not unordered:
                    continue
                elems = {x.id for x in ast.walk(loop.target) if isinstance(x, ast.Name)}
                kind = 'the set {}'.format(u(loop.iter))
            else:
                continue
            if not elems:
                continue
            from .order import _derived
            elems = _derived(loop.body, elems)
            # containers grown in the loop body
            grown = set()
            for st in _loop_stmts(loop):
                for c in ast.walk(st) if not isinstance(st, (ast.For, ast.While, ast.If, ast.With, ast.Try)) else []:
                    if isinstance(c, ast.Call) and isinstance(c.func, ast.Attribute) and c.func.attr in ('add', 'append', 'update', 'extend', 'insert', 'setdefault'):
                        b = c.func.value
                        while isinstance(b, (ast.Subscript, ast.Attribute, ast.Call)):
                            b = b.value if not isinstance(b, ast.Call) else b.func
                        if isinstance(b, ast.Name):
                            grown.add(b.id)
                if isinstance(st, ast.AugAssign):
                    b = st.target
                    while isinstance(b, (ast.Subscript, ast.Attribute)):
                        b = b.value
                    if isinstance(b, ast.Name):
                        grown.add(b.id)
                if isinstance(st, ast.Assign):
                    for t in st.targets:
                        if isinstance(t, ast.Subscript):
                            b = t
                            while isinstance(b, (ast.Subscript, ast.Attribute)):
                                b = b.value
                            if isinstance(b, ast.Name):
                                grown.add(b.id)
                        elif isinstance(t, ast.Name) and t.id in names_in(st.value) and isinstance(st.value, (ast.BinOp, ast.Call)):
                            grown.add(t.id)          # result = result | Q1
            if wl is not None:
                grown.discard(wl.wl)
            grown -= elems
            if not grown:
                continue
            used_after = _reads_after(f, loop, grown)
            if not used_after:
                continue
            guard_names = set()
            for c in loop_conj(loop):
                guard_names |= names_in(c)
            for brk in _own_breaks(loop):
                # the `if` whose whole body is this break
                holder = None
                for st in _loop_stmts(loop):
                    if isinstance(st, ast.If) and not st.orelse and len(st.body) == 1 and st.body[0] is brk:
                        holder = st
                if holder is None:
                    continue
                cond = holder.test
                if not (names_in(cond) & elems):
                    continue           # not a condition on the current element (emptiness test, counter bound, flag)
                # a search for a target: equality of (a part of) the element with a loop-invariant value
                target_search = False
                for c in ast.walk(cond):
                    if isinstance(c, ast.Compare) and len(c.ops) == 1 and isinstance(c.ops[0], (ast.Eq, ast.Is)):
                        sides = [c.left, c.comparators[0]]
                        if any(names_in(s) & elems for s in sides) and any(not (names_in(s) & elems) and names_in(s) for s in sides):
                            target_search = True
                if target_search:
                    continue
                if _reads_after(f, loop, elems):
                    continue           # the element at which the loop stopped is looked at afterwards
                # something was contributed on the way to the break in this very iteration?  then the break follows the contribution
                fx = ctx.facts(f)
                cfg = fx.cfg
                nb = cfg.n_of(brk)
                contributed_before = False
                for st in _loop_stmts(loop):
                    if st is holder or isinstance(st, (ast.If, ast.For, ast.While)):
                        continue
                    touches = any(isinstance(c, ast.Call) and isinstance(c.func, ast.Attribute) and c.func.attr in ('add', 'append', 'update', 'extend', 'insert') and names_in(c.func.value) & used_after
                                  for c in ast.walk(st)) or (isinstance(st, ast.AugAssign) and names_in(st.target) & used_after) \
                        or (isinstance(st, ast.Assign) and any(isinstance(t, ast.Subscript) and names_in(t.value) & used_after for t in st.targets)) \
                        or (isinstance(st, ast.Assign) and any(isinstance(t, ast.Name) and t.id in used_after and t.id in names_in(st.value) for t in st.targets))
                    if not touches:
                        continue
                    try:
                        ns = cfg.n_of(st)
                    except Exception:
                        continue
                    # on a path from the loop head to the break inside one iteration
                    if st.lineno < brk.lineno and nb in cfg.reachable(ns) and _same_iteration(loop, st, brk):
                        contributed_before = True
                n += 1
                if contributed_before:
                    rep.holds(rule, f, brk, 'the exit follows the contribution of the current element')
                else:
                    rep.violates(rule, f, brk, 'the loop over {} is left by `if {}: break` before the current element contributes, records nothing and has no else clause, and {} (grown inside the loop) {} used afterwards as if the loop had run to the end: the remaining elements are silently dropped, which ones depends on the iteration order (`continue` was meant)'.format(
                        kind, u(cond), ', '.join(sorted(used_after)), 'is' if len(used_after) == 1 else 'are'))
    return n


def _same_iteration(loop, a, b):
    """statement a lies before b on a straight path of one iteration: a is not inside a nested loop that b is outside of"""
    for l in ast.walk(loop):
        if l is loop or not isinstance(l, (ast.For, ast.While)):
            continue
        ina = any(x is a for x in ast.walk(l))
        inb = any(x is b for x in ast.walk(l))
        if ina and not inb:
            return False
    return True
